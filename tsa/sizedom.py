"""Z-domain: how many elements a value has, in terms of the number of atoms of a graph, and whether they are pairwise
different.  Used to discharge assertions of the form `len(x) == m.number_of_nodes()` in the identifier pipeline: the
assertion holds for every molecule when both sides evaluate to the same size term.

Values
  ("graph", g)            a networkx graph with the atoms of parameter g (copies and relabelled copies keep the count)
  ("igraph", g)           the igraph twin of such a graph (one vertex per atom)
  ("seq", n, d, comps)    a sequence of n elements (n: ("N", g) or None = not known); d: elements pairwise different;
                          comps: for sequences of tuples the per-component "pairwise different" flags, else None
  ("tuple", [values])     a fixed tuple of values
  ("map", n)              a dictionary with n keys
  ("int", n)              a number equal to the size term n
  None                    not known
Only straight-line definitions are followed (a name with one binding in the function); anything else is "not known".
Library facts used: igraph.Graph.from_networkx keeps one vertex per node, in node order, with the node label under
"_nx_name"; Graph.vs[attribute] lists one value per vertex; canonical_permutation returns a permutation of the vertices;
permute_vertices keeps the vertex set."""
from __future__ import annotations

import ast
from typing import Optional

from .model import FuncInfo, norm


def _binding(fn: ast.FunctionDef, name: str):
    """(value expression, path of tuple positions) of the only binding of `name` in fn, or None"""
    found = []

    def targets(t, path):
        if isinstance(t, ast.Name) and t.id == name:
            found.append(path)
        elif isinstance(t, (ast.Tuple, ast.List)):
            for i, x in enumerate(t.elts):
                if isinstance(x, ast.Starred):
                    if isinstance(x.value, ast.Name) and x.value.id == name:
                        found.append(None)
                    continue
                targets(x, path + [i])
    hits = []
    for st in ast.walk(fn):
        if isinstance(st, (ast.FunctionDef, ast.Lambda)) and st is not fn:
            continue
        if isinstance(st, ast.Assign):
            for t in st.targets:
                n0 = len(found)
                targets(t, [])
                for p in found[n0:]:
                    hits.append((st.value, p))
        elif isinstance(st, ast.AnnAssign) and st.value is not None:
            n0 = len(found)
            targets(st.target, [])
            for p in found[n0:]:
                hits.append((st.value, p))
        elif isinstance(st, (ast.AugAssign,)) and isinstance(st.target, ast.Name) and st.target.id == name:
            hits.append((None, None))
        elif isinstance(st, (ast.For, ast.comprehension)):
            tg = st.target
            if any(isinstance(x, ast.Name) and x.id == name for x in ast.walk(tg)):
                hits.append((None, None))
        elif isinstance(st, ast.NamedExpr) and st.target.id == name:
            hits.append((st.value, []))
    if len(hits) != 1 or hits[0][0] is None or hits[0][1] is None:
        return None
    return hits[0]


class SizeEval:
    def __init__(self, ctx, fi: FuncInfo, env: Optional[dict] = None, depth: int = 0):
        self.ctx, self.fi, self.fn = ctx, fi, fi.node
        self.env = env if env is not None else {a.arg: ("graph", a.arg) for a in fi.node.args.args[:1]}
        self.depth = depth
        self.busy: set = set()

    # ---- helpers
    @staticmethod
    def seq(n, d=False, comps=None):
        return ("seq", n, bool(d), comps)

    def name(self, nm: str):
        if nm in self.env:
            return self.env[nm]
        if nm in self.busy:
            return None
        b = _binding(self.fn, nm)
        if b is None:
            return None
        self.busy.add(nm)
        try:
            v = self.ev(b[0])
        finally:
            self.busy.discard(nm)
        for i in b[1]:
            if v is not None and v[0] == "tuple" and i < len(v[1]):
                v = v[1][i]
            elif v is not None and v[0] == "seq" and v[3] is not None and i < len(v[3]):
                # unpacking an element of a sequence of tuples makes no sense here; only zip(*pairs) gives a tuple
                return None
            else:
                return None
        return v

    def as_seq(self, v):
        """a value iterated over"""
        if v is None:
            return None
        if v[0] == "graph":
            return self.seq(("N", v[1]), True)
        if v[0] == "seq":
            return v
        if v[0] == "map":
            return self.seq(v[1], True)
        return None

    # ---- evaluation
    def ev(self, e):
        if e is None:
            return None
        if isinstance(e, ast.Name):
            return self.name(e.id)
        if isinstance(e, ast.Attribute):
            b = self.ev(e.value)
            if b is not None and b[0] == "graph" and e.attr in ("nodes",):
                return self.seq(("N", b[1]), True)
            if b is not None and b[0] == "igraph" and e.attr == "vs":
                return ("igraph_vs", b[1])
            return None
        if isinstance(e, (ast.ListComp, ast.GeneratorExp, ast.SetComp, ast.DictComp)):
            if len(e.generators) != 1 or e.generators[0].ifs:
                return None
            g = e.generators[0]
            src = self.as_seq(self.ev(g.iter))
            if src is None:
                return None
            # which parts of the target are pairwise different over the iteration
            tv = {}
            if isinstance(g.target, ast.Name):
                tv[g.target.id] = src[2]
            elif isinstance(g.target, (ast.Tuple, ast.List)) and src[3] is not None and len(src[3]) == len(g.target.elts):
                for t_, d_ in zip(g.target.elts, src[3]):
                    if isinstance(t_, ast.Name):
                        tv[t_.id] = d_

            def distinct(x):
                return isinstance(x, ast.Name) and tv.get(x.id, False)
            if isinstance(e, ast.DictComp):
                return ("map", src[1]) if distinct(e.key) else ("map", None)
            if isinstance(e, ast.SetComp):
                return self.seq(src[1] if distinct(e.elt) else None, True)
            if isinstance(e.elt, ast.Tuple):
                return self.seq(src[1], any(distinct(x) for x in e.elt.elts), [distinct(x) for x in e.elt.elts])
            return self.seq(src[1], distinct(e.elt))
        if isinstance(e, ast.Subscript):
            b = self.ev(e.value)
            if b is not None and b[0] == "igraph_vs":
                key = e.slice.value if isinstance(e.slice, ast.Constant) else self.ctx.repo.try_const(self.fi.module, e.slice.id, None) if isinstance(e.slice, ast.Name) else None
                return self.seq(("N", b[1]), key == "_nx_name")
            return None
        if isinstance(e, ast.Call):
            return self.call(e)
        return None

    def call(self, e: ast.Call):
        f = e.func
        args = e.args
        if isinstance(f, ast.Name):
            nm = f.id
            if nm in ("list", "tuple", "sorted", "reversed", "iter") and args:
                v = self.as_seq(self.ev(args[0]))
                return v
            if nm == "len" and len(args) == 1:
                v = self.ev(args[0])
                s = self.as_seq(v)
                return ("int", s[1]) if s is not None and s[1] is not None else None
            if nm == "range" and len(args) == 1:
                v = self.ev(args[0])
                return self.seq(v[1], True) if v is not None and v[0] == "int" else None
            if nm == "enumerate" and args and len(args) == 1 and not e.keywords:
                s = self.as_seq(self.ev(args[0]))
                return self.seq(s[1], True, [True, s[2]]) if s is not None else None
            if nm == "zip":
                if len(args) == 1 and isinstance(args[0], ast.Starred):
                    s = self.as_seq(self.ev(args[0].value))
                    if s is not None and s[3] is not None:
                        return ("tuple", [self.seq(s[1], d_) for d_ in s[3]])
                    return None
                ss = [self.as_seq(self.ev(a)) for a in args]
                if any(s is None for s in ss) or not ss:
                    return None
                n = ss[0][1] if all(s[1] is not None and s[1] == ss[0][1] for s in ss) else None
                return self.seq(n, any(s[2] for s in ss), [s[2] for s in ss])
            if nm == "dict" and len(args) == 1 and not e.keywords:
                v0 = self.ev(args[0])
                if v0 is not None and v0[0] == "map":
                    return v0
                s = self.as_seq(v0)
                if s is not None and s[3] is not None and len(s[3]) == 2:
                    return ("map", s[1] if s[3][0] else None)
                return None
            # a helper of the repository: its (single) return expression with the parameters bound
            r = self.ctx.repo.resolve(self.fi.module, nm)
            if r and r[0] == "func" and self.depth < 3 and not e.keywords:
                callee = r[1]
                rets = [x for x in ast.walk(callee.node) if isinstance(x, ast.Return) and x.value is not None]
                ps = [a.arg for a in callee.node.args.args]
                if len(rets) == 1 and len(args) <= len(ps) and not any(isinstance(a, ast.Starred) for a in args):
                    env = {p: self.ev(a) for p, a in zip(ps, args)}
                    sub = SizeEval(self.ctx, callee, env, self.depth + 1)
                    return sub.ev(rets[0].value)
            return None
        if isinstance(f, ast.Attribute):
            recv = self.ev(f.value)
            q = None
            r = self.ctx.repo.resolve_dotted(self.fi.module, f)
            if r and r[0] == "ext":
                q = r[1]
            if q and q.endswith("Graph.from_networkx") and args:
                g = self.ev(args[0])
                return ("igraph", g[1]) if g is not None and g[0] == "graph" else None
            if q in ("networkx.relabel_nodes",) and args:
                g = self.ev(args[0])
                return g if g is not None and g[0] == "graph" and self._injective_map(args[1] if len(args) > 1 else None, g) else None
            if recv is None:
                return None
            if recv[0] == "graph":
                if f.attr in ("number_of_nodes", "order", "__len__") and not args:
                    return ("int", ("N", recv[1]))
                if f.attr in ("number_of_edges", "size") and not args and not e.keywords:
                    return ("int", ("E", recv[1]))          # copies and one-to-one relabellings keep the bonds
                if f.attr == "copy":
                    return recv
                if f.attr == "nodes":
                    return self.seq(("N", recv[1]), True, [True, False] if (args or e.keywords) else None)
            if recv[0] == "igraph":
                if f.attr == "vcount" and not args:
                    return ("int", ("N", recv[1]))
                if f.attr == "canonical_permutation":
                    return self.seq(("N", recv[1]), True)
                if f.attr == "permute_vertices":
                    return recv
            if recv[0] == "seq" and f.attr in ("copy",):
                return recv
            if recv[0] == "map":
                if f.attr in ("keys",):
                    return self.seq(recv[1], True)
                if f.attr in ("values",):
                    return self.seq(recv[1], False)
                if f.attr == "items":
                    return self.seq(recv[1], True, [True, False])
        return None

    def _injective_map(self, e, g) -> bool:
        """relabelling keeps the number of nodes when the new labels are pairwise different: established elsewhere (R-BIJ);
        here only a mapping whose size is the number of nodes is accepted"""
        v = self.ev(e) if e is not None else None
        return v is not None and v[0] == "map" and v[1] == ("N", g[1])


_OPPOSITE = {ast.Eq: ast.NotEq, ast.NotEq: ast.Eq, ast.Lt: ast.GtE, ast.GtE: ast.Lt, ast.Gt: ast.LtE, ast.LtE: ast.Gt, ast.In: ast.NotIn, ast.NotIn: ast.In,
             ast.Is: ast.IsNot, ast.IsNot: ast.Is}


def _negates(guard: ast.expr, test: ast.expr) -> bool:
    """is `test` the negation of `guard` (same operands, opposite comparison; or `not guard`)"""
    if isinstance(test, ast.UnaryOp) and isinstance(test.op, ast.Not) and norm(test.operand) == norm(guard):
        return True
    if isinstance(guard, ast.UnaryOp) and isinstance(guard.op, ast.Not) and norm(guard.operand) == norm(test):
        return True
    if isinstance(guard, ast.Compare) and isinstance(test, ast.Compare) and len(guard.ops) == 1 and len(test.ops) == 1:
        same = norm(guard.left) == norm(test.left) and norm(guard.comparators[0]) == norm(test.comparators[0])
        swapped = norm(guard.left) == norm(test.comparators[0]) and norm(guard.comparators[0]) == norm(test.left)
        opp = _OPPOSITE.get(type(guard.ops[0]))
        if same and opp is not None and isinstance(test.ops[0], opp):
            return True
        if swapped and isinstance(guard.ops[0], (ast.Eq, ast.NotEq)) and opp is not None and isinstance(test.ops[0], opp):
            return True
    return False


def implied_by_guard(fn: ast.FunctionDef, a: ast.Assert) -> Optional[str]:
    """the assertion restates an earlier guard of the same block: `if c: raise / return / continue` ... `assert not c`, with
    nothing in between that binds a name the condition reads"""
    def blocks(node):
        for fld in ("body", "orelse", "finalbody"):
            b = getattr(node, fld, None)
            if isinstance(b, list) and b and isinstance(b[0], ast.stmt):
                yield b
                for st in b:
                    yield from blocks(st)
        for h in getattr(node, "handlers", []) or []:
            yield from blocks(h)
    for b in blocks(fn):
        if a not in b:
            continue
        i = b.index(a)
        names = {x.id for x in ast.walk(a.test) if isinstance(x, ast.Name)}
        for j in range(i - 1, -1, -1):
            st = b[j]
            if isinstance(st, ast.If) and not st.orelse and st.body and isinstance(st.body[-1], (ast.Raise, ast.Return, ast.Continue, ast.Break)) and _negates(st.test, a.test):
                return f"restates the guard `if {norm(st.test)}: {type(st.body[-1]).__name__.lower()}` of line {st.lineno}"
            stored = {x.id for x in ast.walk(st) if isinstance(x, ast.Name) and isinstance(x.ctx, (ast.Store, ast.Del))}
            if stored & names or any(isinstance(x, ast.Call) for x in ast.walk(st) if not isinstance(st, ast.Assert)) and any(isinstance(x, (ast.Attribute, ast.Subscript)) for x in ast.walk(a.test)):
                return None
    return None


def implied_by_callers_guard(ctx, fi: FuncInfo, a: ast.Assert) -> Optional[str]:
    """the assertion is the first thing the function does with its parameters, and every call of the function in the
    repository stands behind a guard that says the same about the arguments (`if a == b: raise` ... `self.f(a, b)` with
    `assert a != b` in f)"""
    fn = fi.node
    body = [st for st in fn.body if not (isinstance(st, ast.Expr) and isinstance(st.value, ast.Constant))]
    ps = [x.arg for x in fn.args.posonlyargs + fn.args.args]
    names = {x.id for x in ast.walk(a.test) if isinstance(x, ast.Name)}
    if a not in body or not names or not names <= set(ps) or any(isinstance(x, (ast.Call, ast.Attribute, ast.Subscript)) for x in ast.walk(a.test)):
        return None
    # nothing before the assertion rebinds a parameter it reads
    for st in body[:body.index(a)]:
        if {x.id for x in ast.walk(st) if isinstance(x, ast.Name) and isinstance(x.ctx, ast.Store)} & names:
            return None
    callers = list(ctx.cg.callers_of(fi.fq))
    if not callers:
        return None
    off = 1 if fi.cls is not None and ps and ps[0] in ("self", "cls") else 0
    for cs in callers:
        if cs.node.keywords or any(isinstance(x, ast.Starred) for x in cs.node.args):
            return None
        ren = {}
        for p_, arg in zip(ps[off:], cs.node.args):
            if p_ in names:
                if not isinstance(arg, ast.Name):
                    return None
                ren[p_] = arg.id
        if set(ren) != names:
            return None

        class Ren(ast.NodeTransformer):
            def visit_Name(self, node):
                return ast.copy_location(ast.Name(id=ren.get(node.id, node.id), ctx=node.ctx), node)
        import copy
        probe = ast.Assert(test=Ren().visit(copy.deepcopy(a.test)), msg=None)
        # the statement of the caller that holds the call, and the block it sits in
        holder = None
        for blk_owner in ast.walk(cs.caller.node):
            for fld in ("body", "orelse", "finalbody"):
                b = getattr(blk_owner, fld, None)
                if isinstance(b, list):
                    for st in b:
                        if isinstance(st, ast.stmt) and any(x is cs.node for x in ast.walk(st)) and not any(
                                isinstance(sub, ast.stmt) and sub is not st and any(x is cs.node for x in ast.walk(sub)) for sub in ast.walk(st)):
                            holder = (b, st)
        if holder is None:
            return None
        b, st = holder
        fake_block = b[:b.index(st)] + [probe]
        fake_fn = ast.FunctionDef(name="_", args=cs.caller.node.args, body=fake_block, decorator_list=[], returns=None, type_params=[])
        if implied_by_guard(fake_fn, probe) is None:
            return None
    return f"every call of {fi.name} stands behind a guard that says the same about its arguments"


def assertion_holds(ctx, fi: FuncInfo, a: ast.Assert) -> Optional[str]:
    """why the assertion holds for every molecule, or None when this domain cannot tell"""
    t = a.test
    g_ = implied_by_guard(fi.node, a) or implied_by_callers_guard(ctx, fi, a)
    if g_:
        return g_
    if isinstance(t, ast.BoolOp) and isinstance(t.op, ast.And):
        whys = [assertion_holds(ctx, fi, ast.Assert(test=v, msg=None)) for v in t.values]
        return "; ".join(dict.fromkeys(whys)) if all(whys) else None
    if isinstance(t, ast.Compare) and len(t.ops) == 1 and isinstance(t.ops[0], ast.IsNot) and isinstance(t.left, ast.Name) and isinstance(t.comparators[0], ast.Name) \
            and t.left.id != t.comparators[0].id:
        # an object made by a call that always makes a new one is not an object that existed before that call
        for new_, old_ in ((t.left.id, t.comparators[0].id), (t.comparators[0].id, t.left.id)):
            b = _binding(fi.node, new_)
            if b is None or b[1] != [] or not isinstance(b[0], ast.Call):
                continue
            c = b[0]
            fresh = False
            if isinstance(c.func, ast.Attribute) and c.func.attr == "copy" and not c.args:
                fresh = True
            r = ctx.repo.resolve_dotted(fi.module, c.func) if isinstance(c.func, (ast.Name, ast.Attribute)) else None
            if r and r[0] == "ext" and r[1] == "networkx.relabel_nodes":
                cp = next((k.value for k in c.keywords if k.arg == "copy"), c.args[2] if len(c.args) > 2 else None)
                fresh = cp is None or (isinstance(cp, ast.Constant) and cp.value is True)
            if r and r[0] == "ext" and r[1] in ("networkx.Graph", "networkx.convert_node_labels_to_integers"):
                fresh = True
            if not fresh:
                continue
            ob = _binding(fi.node, old_)
            is_param = old_ in [x.arg for x in fi.node.args.args]
            if is_param or (ob is not None and getattr(ob[0], "lineno", 10 ** 9) < c.lineno and not any(isinstance(z, ast.Name) and z.id == new_ for z in ast.walk(ob[0]))):
                return f"`{new_}` is made by `{norm(c.func)}`, which hands back a new object; `{old_}` existed before"
        return None
    ev = SizeEval(ctx, fi)
    if isinstance(t, ast.Compare) and all(isinstance(o, ast.Eq) for o in t.ops):
        vals = [ev.ev(x) for x in [t.left] + list(t.comparators)]
        if all(v is not None and v[0] == "int" and v[1] is not None for v in vals) and len({v[1] for v in vals}) == 1:
            return f"both sides are the number of atoms of `{vals[0][1][1]}` (one element per atom, pairwise different keys)"
    return None
