"""Origin typing of the TUCAN parser's listener: where does a value come from?

A flow-insensitive type inference over the listener class and the module-level functions of the parser module.  Every
value gets a small structured type whose scalars carry *origin tags*:

  idx    text of a `node_index` parse-tree node (bond end point, attribute index), possibly shifted by a constant
  val    text of a `node_property_value` node
  key    text of a `node_property_key` node (or the table entry selected by it)
  fml    any other parse-tree text (element symbols and counts of the sum formula)
  elem   data looked up in a constant table (element attributes)
  cnt    a size: len(..), range(..) positions, enumerate counters
  const  a literal or module-level constant
  ctx    a parse-tree context object
  ?      not understood

Structure: S(tags) scalar, Tup(items), Seq(elem), Map(key, value).  Fields of the listener are typed by a fixpoint over all
stores in all methods; parameters by all call sites inside the class / module.
"""
from __future__ import annotations

import ast
from typing import Optional

from .model import ClassInfo, FuncInfo

ACCESSOR_TAGS = {"node_index": "idx", "node_property_value": "val", "node_property_key": "key"}


class T:
    pass


class S(T):
    def __init__(self, tags=()):
        self.tags = frozenset(tags)

    def __repr__(self):
        return "S{" + ",".join(sorted(self.tags)) + "}"

    def __eq__(self, o):
        return isinstance(o, S) and o.tags == self.tags

    def __hash__(self):
        return hash(("S", self.tags))


class Tup(T):
    def __init__(self, items):
        self.items = tuple(items)

    def __repr__(self):
        return "(" + ", ".join(map(repr, self.items)) + ")"

    def __eq__(self, o):
        return isinstance(o, Tup) and o.items == self.items

    def __hash__(self):
        return hash(("Tup", self.items))


class Seq(T):
    def __init__(self, elem):
        self.elem = elem

    def __repr__(self):
        return f"[{self.elem!r}]"

    def __eq__(self, o):
        return isinstance(o, Seq) and o.elem == self.elem

    def __hash__(self):
        return hash(("Seq", self.elem))


class Map(T):
    def __init__(self, k, v):
        self.k, self.v = k, v

    def __repr__(self):
        return "{" + f"{self.k!r}: {self.v!r}" + "}"

    def __eq__(self, o):
        return isinstance(o, Map) and o.k == self.k and o.v == self.v

    def __hash__(self):
        return hash(("Map", self.k, self.v))


BOT = S(())


def tags(t: T) -> frozenset:
    if isinstance(t, S):
        return t.tags
    if isinstance(t, Tup):
        out = frozenset()
        for x in t.items:
            out |= tags(x)
        return out
    if isinstance(t, Seq):
        return tags(t.elem)
    if isinstance(t, Map):
        return tags(t.k) | tags(t.v)
    return frozenset("?")


def join(a: T, b: T) -> T:
    if a == BOT:
        return b
    if b == BOT:
        return a
    if isinstance(a, S) and isinstance(b, S):
        return S(a.tags | b.tags)
    if isinstance(a, Tup) and isinstance(b, Tup) and len(a.items) == len(b.items):
        return Tup(join(x, y) for x, y in zip(a.items, b.items))
    if isinstance(a, Seq) and isinstance(b, Seq):
        return Seq(join(a.elem, b.elem))
    if isinstance(a, Map) and isinstance(b, Map):
        return Map(join(a.k, b.k), join(a.v, b.v))
    if isinstance(a, Seq) and isinstance(b, Tup):
        e = a.elem
        for x in b.items:
            e = join(e, x)
        return Seq(e)
    if isinstance(b, Seq) and isinstance(a, Tup):
        return join(b, a)
    # a None / constant default next to a structure: keep the structure
    if isinstance(a, S) and a.tags <= {"const"}:
        return b
    if isinstance(b, S) and b.tags <= {"const"}:
        return a
    return S(tags(a) | tags(b))


def elem_of(t: T) -> T:
    if isinstance(t, Seq):
        return t.elem
    if isinstance(t, Map):
        return t.k
    if isinstance(t, Tup):
        e = BOT
        for x in t.items:
            e = join(e, x)
        return e
    return S(tags(t) - {"const"} or {"?"}) if isinstance(t, S) and t.tags - {"const"} else S({"?"})


def scal(*ts) -> S:
    out = set()
    for t in ts:
        out |= tags(t)
    if len(out) > 1:
        out.discard("const")
    return S(out)


class OriginTyper:
    def __init__(self, repo, lis: ClassInfo, extra_funcs: list[FuncInfo] = ()):
        self.repo = repo
        self.lis = lis
        self.funcs: dict[str, FuncInfo] = {m.name: m for m in lis.methods.values()}
        self.free: dict[str, FuncInfo] = {f.name: f for f in extra_funcs}
        self.fields: dict[str, T] = {}
        self.env: dict[str, dict[str, T]] = {f.fq: {} for f in list(self.funcs.values()) + list(self.free.values())}
        self.rets: dict[str, T] = {}
        self.alias: dict[tuple, tuple] = {}           # (fq, local) -> (field, path) for locals that alias a part of a field
        self.changed = False
        for m in self.funcs.values():
            ps = [a.arg for a in m.node.args.args]
            if m.name.startswith(("enter", "exit", "visit")) and len(ps) >= 2:
                self.env[m.fq][ps[1]] = S({"ctx"})
        for _ in range(12):
            self.changed = False
            for f in list(self.funcs.values()) + list(self.free.values()):
                self._scan(f)
            if not self.changed:
                break

    # ---- state updates
    def _set(self, d: dict, k, t: T):
        old = d.get(k, BOT)
        new = join(old, t)
        if new != old:
            d[k] = new
            self.changed = True

    def _field_update(self, field: str, path: tuple, t_key: Optional[T], t_val: T):
        """join `t_val` (and key) into the part of `field` reached by `path` ('v' = value of a map, 'e' = element of a sequence)"""
        def build(p):
            if not p:
                return Map(t_key, t_val) if t_key is not None else t_val
            inner = build(p[1:])
            return Map(BOT, inner) if p[0] == "v" else Seq(inner)
        self._set(self.fields, field, build(path))

    # ---- expressions
    def ty(self, f: FuncInfo, e: ast.AST, loc: Optional[dict] = None) -> T:
        env = self.env[f.fq] if loc is None else loc
        if e is None:
            return S({"const"})
        if isinstance(e, ast.Constant):
            return S({"const"})
        if isinstance(e, ast.Name):
            if e.id in env:
                return env[e.id]
            if e.id in self.env[f.fq]:
                return self.env[f.fq][e.id]
            r = self.repo.resolve(f.module, e.id)
            if r and r[0] == "const":
                v = self.repo.try_const(r[1], r[2], None)
                if isinstance(v, (str, int, float, bool)) or v is None and False:
                    return S({"const"})
                if isinstance(v, dict) and v and all(isinstance(x, (str, int)) for x in v.values()):
                    return Map(S({"const"}), S({"const"}))
                return S({"elem"})
            if r and r[0] in ("func", "class", "builtin", "ext", "extmod", "mod"):
                return S({"const"})
            return BOT          # a local not (yet) typed
        if isinstance(e, ast.Attribute):
            if isinstance(e.value, ast.Name) and e.value.id == "self":
                return self.fields.get(e.attr, BOT)
            b = self.ty(f, e.value, loc)
            if "ctx" in tags(b):
                if e.attr == "children":
                    return Seq(S({"ctx"}))
                return S({"ctx"})
            return scal(b)
        if isinstance(e, ast.Tuple):
            return Tup((elem_of(self.ty(f, x.value, loc)) if isinstance(x, ast.Starred) else self.ty(f, x, loc)) for x in e.elts)
        if isinstance(e, (ast.List, ast.Set)):
            t = BOT
            for x in e.elts:
                t = join(t, self.ty(f, x.value if isinstance(x, ast.Starred) else x, loc)) if not isinstance(x, ast.Starred) else join(t, elem_of(self.ty(f, x.value, loc)))
            return Seq(t)
        if isinstance(e, ast.Dict):
            k = v = BOT
            for a, b in zip(e.keys, e.values):
                if a is None:
                    m = self.ty(f, b, loc)
                    if isinstance(m, Map):
                        k, v = join(k, m.k), join(v, m.v)
                    continue
                k, v = join(k, self.ty(f, a, loc)), join(v, self.ty(f, b, loc))
            return Map(k, v)
        if isinstance(e, (ast.ListComp, ast.SetComp, ast.GeneratorExp, ast.DictComp)):
            l2 = dict(env)
            for g in e.generators:
                self._bind(f, g.target, elem_of(self._iter_ty(f, g.iter, l2)), l2)
            if isinstance(e, ast.DictComp):
                return Map(self.ty(f, e.key, l2), self.ty(f, e.value, l2))
            return Seq(self.ty(f, e.elt, l2))
        if isinstance(e, ast.Subscript):
            b = self.ty(f, e.value, loc)
            if isinstance(e.slice, ast.Slice):
                return b
            k = self.ty(f, e.slice, loc)
            if isinstance(b, Map):
                if tags(b.v) <= {"const"} and tags(b.k) <= {"const"}:
                    return S((tags(k) - {"const"}) | {"const"}) if tags(k) - {"const"} else S({"const"})
                return b.v
            if isinstance(b, Seq):
                return b.elem
            if isinstance(b, Tup):
                if isinstance(e.slice, ast.Constant) and isinstance(e.slice.value, int) and -len(b.items) <= e.slice.value < len(b.items):
                    return b.items[e.slice.value]
                return elem_of(b)
            if "ctx" in tags(b):
                return S({"ctx"})
            return scal(b, S(tags(k) - {"const", "cnt", "idx"}))
        if isinstance(e, ast.BinOp):
            return scal(self.ty(f, e.left, loc), self.ty(f, e.right, loc))
        if isinstance(e, ast.UnaryOp):
            return scal(self.ty(f, e.operand, loc))
        if isinstance(e, ast.BoolOp):
            return scal(*[self.ty(f, x, loc) for x in e.values])
        if isinstance(e, ast.Compare):
            return scal(*[self.guard_leaf(f, x, loc) for x in [e.left] + list(e.comparators)])
        if isinstance(e, ast.IfExp):
            return join(self.ty(f, e.body, loc), self.ty(f, e.orelse, loc))
        if isinstance(e, ast.NamedExpr):
            t = self.ty(f, e.value, loc)
            if isinstance(e.target, ast.Name):
                self._set(self.env[f.fq], e.target.id, t)
            return t
        if isinstance(e, ast.JoinedStr):
            return scal(*[self.ty(f, v.value, loc) for v in e.values if isinstance(v, ast.FormattedValue)]) if any(isinstance(v, ast.FormattedValue) for v in e.values) else S({"const"})
        if isinstance(e, ast.Starred):
            return self.ty(f, e.value, loc)
        if isinstance(e, ast.Lambda):
            return S({"const"})
        if isinstance(e, ast.Call):
            return self._call(f, e, loc)
        return S({"?"})

    def _iter_ty(self, f, e, loc=None):
        t = self.ty(f, e, loc)
        if isinstance(t, S) and "ctx" in t.tags:
            return Seq(S(t.tags))
        return t

    def _call(self, f, e: ast.Call, loc) -> T:
        fn = e.func
        args = [self.ty(f, a, loc) for a in e.args]
        if isinstance(fn, ast.Name):
            n = fn.id
            if n in ("int", "str", "float", "abs", "bool", "repr"):
                return scal(*args) if args else S({"const"})
            if n == "len":
                return S({"cnt"})
            if n == "range":
                return Seq(S({"cnt"}))
            if n in ("sorted", "list", "tuple", "set", "frozenset", "reversed", "iter"):
                if not args:
                    return Seq(BOT)
                a = args[0]
                if isinstance(a, Map):
                    return Seq(a.k)
                return a if isinstance(a, Seq) else Seq(elem_of(a))
            if n == "dict":
                if args and isinstance(args[0], Map):
                    return args[0]
                if args and isinstance(args[0], Seq) and isinstance(args[0].elem, Tup) and len(args[0].elem.items) == 2:
                    return Map(args[0].elem.items[0], args[0].elem.items[1])
                k = v = BOT
                for kw in e.keywords:
                    k, v = join(k, S({"const"})), join(v, self.ty(f, kw.value, loc))
                return Map(k, v)
            if n == "enumerate":
                return Seq(Tup([S({"cnt"}), elem_of(args[0]) if args else BOT]))
            if n == "zip":
                return Seq(Tup([elem_of(a) for a in args]))
            if n in ("min", "max", "sum", "next"):
                return elem_of(args[0]) if len(args) == 1 else scal(*args)
            if n in ("isinstance", "callable", "hasattr"):
                return S({"const"})
            if n in self.free:
                return self._invoke(f, self.free[n], e.args, loc, skip_self=False)
            r = self.repo.resolve(f.module, n)
            if r and r[0] == "class":
                return S({"const"})
            if r and r[0] == "func":
                return S({"graph"})
            return S({"?"})
        if isinstance(fn, ast.Attribute):
            if isinstance(fn.value, ast.Name) and fn.value.id == "self" and fn.attr in self.funcs:
                return self._invoke(f, self.funcs[fn.attr], e.args, loc, skip_self=True)
            recv = self.ty(f, fn.value, loc)
            a = fn.attr
            if "ctx" in tags(recv):
                if a in ACCESSOR_TAGS:
                    return S({ACCESSOR_TAGS[a], "ctx"})
                if a == "getText":
                    own = tags(recv) - {"ctx"}
                    return S(own or {"fml"})
                if a in ("getChildCount",):
                    return S({"fml"})
                if a in ("getChildren",):
                    return Seq(S(tags(recv)))
                return S(tags(recv))
            if a in ("items",) and isinstance(recv, Map):
                return Seq(Tup([recv.k, recv.v]))
            if a == "keys" and isinstance(recv, Map):
                return Seq(recv.k)
            if a == "values" and isinstance(recv, Map):
                return Seq(recv.v)
            if a in ("get", "pop", "setdefault") and isinstance(recv, Map):
                d = args[1] if len(args) > 1 else BOT
                return join(recv.v, d)
            if a in ("copy",):
                return recv
            if a in ("pop", "popleft") and isinstance(recv, Seq):
                return recv.elem
            if a in ("index", "count"):
                return S({"cnt"})
            if a in ("append", "add", "extend", "update", "insert", "clear", "sort", "remove", "discard"):
                return S({"const"})
            if a in ("join", "format", "strip", "lower", "upper", "split", "lstrip", "rstrip", "startswith", "endswith", "isdigit"):
                return scal(recv, *args)
            return scal(recv, *args) if not isinstance(recv, S) or recv.tags else S({"?"})
        return S({"?"})

    def _invoke(self, f, callee: FuncInfo, argnodes, loc, skip_self: bool) -> T:
        ps = [a.arg for a in callee.node.args.args]
        if skip_self and ps:
            ps = ps[1:]
        for p, a in zip(ps, argnodes):
            self._set(self.env[callee.fq], p, self.ty(f, a, loc))
            # alias of a field part handed down
            if isinstance(a, ast.Name) and (f.fq, a.id) in self.alias:
                self.alias[(callee.fq, p)] = self.alias[(f.fq, a.id)]
        return self.rets.get(callee.fq, BOT)

    def guard_leaf(self, f, e, loc=None) -> T:
        """type of an operand of a test; for a container only its keys / size matter"""
        t = self.ty(f, e, loc)
        if isinstance(t, Map):
            return scal(t.k, S({"cnt"}))
        if isinstance(t, Seq):
            return scal(t.elem, S({"cnt"})) if not isinstance(t.elem, (Map,)) else S({"cnt"})
        return t

    # ---- statements
    def _bind(self, f, target, t: T, env: dict):
        if isinstance(target, ast.Name):
            old = env.get(target.id, BOT)
            new = join(old, t)
            if new != old:
                env[target.id] = new
                if env is self.env[f.fq]:
                    self.changed = True
        elif isinstance(target, (ast.Tuple, ast.List)):
            if isinstance(t, Tup) and len(t.items) == len(target.elts):
                for x, y in zip(target.elts, t.items):
                    self._bind(f, x, y, env)
            else:
                for x in target.elts:
                    self._bind(f, x, elem_of(t) if not isinstance(t, S) else t, env)
        elif isinstance(target, ast.Starred):
            self._bind(f, target.value, Seq(t), env)

    def _path_of(self, f, e) -> Optional[tuple]:
        """(field, path) if expression e denotes (a part of) a listener field"""
        if isinstance(e, ast.Attribute) and isinstance(e.value, ast.Name) and e.value.id == "self":
            return (e.attr, ())
        if isinstance(e, ast.Name) and (f.fq, e.id) in self.alias:
            return self.alias[(f.fq, e.id)]
        if isinstance(e, ast.Subscript):
            b = self._path_of(f, e.value)
            if b is not None:
                t = self._at(b)
                return (b[0], b[1] + (("v",) if isinstance(t, Map) else ("e",)))
        if isinstance(e, ast.Call) and isinstance(e.func, ast.Attribute) and e.func.attr in ("setdefault", "get"):
            b = self._path_of(f, e.func.value)
            if b is not None:
                return (b[0], b[1] + ("v",))
        return None

    def _at(self, fp) -> T:
        t = self.fields.get(fp[0], BOT)
        for p in fp[1]:
            if p == "v" and isinstance(t, Map):
                t = t.v
            elif p == "e" and isinstance(t, Seq):
                t = t.elem
            else:
                return BOT
        return t

    def _scan(self, f: FuncInfo):
        env = self.env[f.fq]
        for st in ast.walk(f.node):
            if isinstance(st, (ast.FunctionDef, ast.AsyncFunctionDef, ast.Lambda)) and st is not f.node:
                continue
            if isinstance(st, ast.Assign) or (isinstance(st, ast.AnnAssign) and st.value is not None):
                targets = st.targets if isinstance(st, ast.Assign) else [st.target]
                t = self.ty(f, st.value)
                for tg in targets:
                    if isinstance(tg, ast.Attribute) and isinstance(tg.value, ast.Name) and tg.value.id == "self":
                        self._set(self.fields, tg.attr, t)
                    elif isinstance(tg, ast.Subscript):
                        fp = self._path_of(f, tg.value)
                        kt = self.ty(f, tg.slice)
                        if fp is not None:
                            cur = self._at(fp)
                            if isinstance(cur, Seq):
                                self._field_update(fp[0], fp[1] + ("e",), None, t)
                            else:
                                self._field_update(fp[0], fp[1], kt, t)
                        elif isinstance(tg.value, ast.Name):
                            cur = env.get(tg.value.id, BOT)
                            self._set(env, tg.value.id, Seq(t) if isinstance(cur, Seq) else Map(kt, t))
                    else:
                        self._bind(f, tg, t, env)
                        if isinstance(tg, ast.Name):
                            fp = self._path_of(f, st.value)
                            if fp is not None and self.alias.get((f.fq, tg.id)) != fp:
                                self.alias[(f.fq, tg.id)] = fp
                                self.changed = True
            elif isinstance(st, ast.AugAssign):
                t = self.ty(f, st.value)
                if isinstance(st.target, ast.Name):
                    self._set(env, st.target.id, t if not isinstance(st.op, (ast.Add, ast.Sub, ast.Mult)) else scal(env.get(st.target.id, BOT), t) if isinstance(t, S) else t)
                elif isinstance(st.target, ast.Attribute) and isinstance(st.target.value, ast.Name) and st.target.value.id == "self":
                    cur = self.fields.get(st.target.attr, BOT)
                    self._set(self.fields, st.target.attr, scal(cur, t) if isinstance(t, S) and isinstance(cur, S) else t)
            elif isinstance(st, (ast.For, ast.AsyncFor)):
                it = self._iter_ty(f, st.iter)
                self._bind(f, st.target, elem_of(it), env)
                # loop targets over .items() of a field alias its values
                base = st.iter
                if isinstance(base, ast.Call) and isinstance(base.func, ast.Attribute) and base.func.attr in ("items", "values") and not base.args:
                    fp = self._path_of(f, base.func.value)
                    tgt = st.target
                    vn = tgt.elts[1] if base.func.attr == "items" and isinstance(tgt, ast.Tuple) and len(tgt.elts) == 2 else (tgt if base.func.attr == "values" else None)
                    if fp is not None and isinstance(vn, ast.Name) and self.alias.get((f.fq, vn.id)) != (fp[0], fp[1] + ("v",)):
                        self.alias[(f.fq, vn.id)] = (fp[0], fp[1] + ("v",))
                        self.changed = True
            elif isinstance(st, ast.With):
                for it in st.items:
                    if it.optional_vars is not None:
                        self._bind(f, it.optional_vars, self.ty(f, it.context_expr), env)
            elif isinstance(st, ast.Return):
                self._set(self.rets, f.fq, self.ty(f, st.value) if st.value is not None else S({"const"}))
            elif isinstance(st, ast.Expr) and isinstance(st.value, ast.Call):
                c = st.value
                self.ty(f, c)        # parameter bindings of callees
                if isinstance(c.func, ast.Attribute) and c.func.attr in ("append", "add", "extend", "insert", "update", "setdefault", "appendleft"):
                    fp = self._path_of(f, c.func.value)
                    a = c.func.attr
                    if not c.args:
                        continue
                    t = self.ty(f, c.args[-1] if a == "insert" else c.args[0])
                    if a in ("extend", "update") and not isinstance(t, Map):
                        t_el = elem_of(t)
                    else:
                        t_el = t
                    if fp is not None:
                        if a == "setdefault":
                            self._field_update(fp[0], fp[1], self.ty(f, c.args[0]), self.ty(f, c.args[1]) if len(c.args) > 1 else S({"const"}))
                        elif a == "update" and isinstance(t, Map):
                            self._field_update(fp[0], fp[1], t.k, t.v)
                        else:
                            self._field_update(fp[0], fp[1] + ("e",), None, t_el)
                    elif isinstance(c.func.value, ast.Name):
                        nm = c.func.value.id
                        if a == "setdefault":
                            self._set(env, nm, Map(self.ty(f, c.args[0]), self.ty(f, c.args[1]) if len(c.args) > 1 else S({"const"})))
                        elif a == "update" and isinstance(t, Map):
                            self._set(env, nm, t)
                        else:
                            self._set(env, nm, Seq(t_el))
            elif isinstance(st, ast.Call):
                # calls nested in expressions: make sure parameter bindings are recorded
                if isinstance(st.func, ast.Attribute) and isinstance(st.func.value, ast.Name) and st.func.value.id == "self" and st.func.attr in self.funcs:
                    self._invoke(f, self.funcs[st.func.attr], st.args, None, skip_self=True)
                elif isinstance(st.func, ast.Name) and st.func.id in self.free:
                    self._invoke(f, self.free[st.func.id], st.args, None, skip_self=False)
                elif isinstance(st.func, ast.Attribute) and st.func.attr == "setdefault":
                    fp = self._path_of(f, st.func.value)
                    if fp is not None and st.args:
                        self._field_update(fp[0], fp[1], self.ty(f, st.args[0]), self.ty(f, st.args[1]) if len(st.args) > 1 else S({"const"}))
