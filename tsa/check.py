"""CLI:  python -m tsa.check <Cxx> [--tier quick|thorough] [--replay path] [--rule R-X]

Decides one property from the current source of the repository (TUCAN_REPO,
default /repo).  See report.py for the exit-code protocol.
"""
from __future__ import annotations

import argparse
import json
import os
import sys
import time
import traceback

from .model import AnalysisError, Repo
from .report import Finding, RuleResult, load_known, write_evidence, write_violation_replay


class Ctx:
    def __init__(self, repo: Repo, tier: str = "quick"):
        self.repo = repo
        self.tier = tier
        self.cache: dict = {}

    @property
    def cg(self):
        return self.repo.callgraph()


def run_rules(ctx: Ctx, rule_ids: list[str]) -> list[RuleResult]:
    from .rules import REGISTRY
    out = []
    for rid in rule_ids:
        if rid not in REGISTRY:
            raise AnalysisError(f"rule {rid} is not implemented")
        key = ("rule", rid)
        if key not in ctx.cache:
            t0 = time.time()
            try:
                res = REGISTRY[rid](ctx)
            except AnalysisError as e:
                res = RuleResult(rid, error=str(e))
            except RecursionError:
                res = RuleResult(rid, error="checker recursion limit")
            except Exception as e:  # a crash of the checker is an analysis error, never a verdict
                tb = traceback.extract_tb(e.__traceback__)[-1]
                res = RuleResult(rid, error=f"internal error {type(e).__name__}: {e} at {tb.filename.rsplit('/', 1)[-1]}:{tb.lineno}")
            res.wall_s = time.time() - t0
            ctx.cache[key] = res
        out.append(ctx.cache[key])
    return out


def decide(prop: str, tier: str = "quick", repo: Repo | None = None, only_rule: str | None = None,
           ctx: Ctx | None = None):
    """-> (results, violations, known_hits)  — pure function of the sources"""
    from .props import PROPERTIES
    if prop not in PROPERTIES:
        raise AnalysisError(f"unknown property {prop}")
    spec = PROPERTIES[prop]
    ctx = ctx or Ctx(repo or Repo(), tier)
    rules = list(spec["rules"]) + (list(spec.get("thorough_rules", [])) if tier == "thorough" else [])
    if only_rule:
        rules = [r for r in rules if r == only_rule]
    results = run_rules(ctx, rules)
    known = load_known()
    open_keys = {}
    for k in known.get("open", []):
        if k.get("property") == prop:
            open_keys[k["key"]] = k
    violations, hits = [], []
    for r in results:
        for f in r.findings:
            if f.key in open_keys:
                hits.append(open_keys[f.key])
            else:
                violations.append(f)
    return ctx, results, violations, hits


def main(argv=None):
    ap = argparse.ArgumentParser()
    ap.add_argument("prop")
    ap.add_argument("--tier", default=os.environ.get("VERIF_TIER", "quick"), choices=["quick", "thorough"])
    ap.add_argument("--replay")
    ap.add_argument("--rule")
    ap.add_argument("--no-evidence", action="store_true")
    a = ap.parse_args(argv)
    t0 = time.time()
    prop = a.prop
    try:
        from .props import PROPERTIES
        only = a.rule
        if a.replay:
            data = json.load(open(a.replay))
            keys = {f["key"] for f in data.get("findings", [])}
            rules = sorted({f["rule"] for f in data.get("findings", [])})
            print(f"replaying {prop}: rules {rules} on the current tree")
            ctx = Ctx(Repo(), a.tier)
            again = []
            for rid in rules:
                _, results, violations, hits = decide(prop, a.tier, only_rule=rid, ctx=ctx)
                for f in violations:
                    print("  " + ("[same finding] " if f.key in keys else "[new finding]  ") + f.text())
                    again.append(f)
                for r in results:
                    if r.error:
                        print(f"  ANALYSIS-ERROR {r.rule}: {r.error}")
            if again:
                print(f"VIOLATION property={prop} replay={a.replay}")
                return 1
            print(f"OK property={prop}: the recorded findings do not reproduce on the current tree")
            return 0
        ctx, results, violations, hits = decide(prop, a.tier, only_rule=only)
        selfval = None
        if a.tier == "thorough" and not a.replay and not only:
            from .selfval import run_selfval
            selfval = run_selfval(prop)
        spec = PROPERTIES[prop]
        wall = time.time() - t0
        errors = [r for r in results if r.error]
        for r in results:
            print(f"  {r.rule:14s} instances={len(r.instances):3d} failed={len(r.findings):2d}  "
                  + (f"ANALYSIS-ERROR {r.error}" if r.error else r.what[:100]))
        for h in hits:
            print(f"KNOWN-FINDING: property={prop} {h.get('what', h['key'])}")
        extra = {}
        try:
            ctx.repo.text("tucan/graph_attributes.py")
            extra["attribute_name_spellings"] = getattr(ctx.repo, "attribute_names_note", "")
        except AnalysisError:
            pass
        if selfval is not None:
            extra["self_validation"] = selfval["summary"]
            extra["self_validation_variants"] = selfval["variants"]
        if not a.no_evidence and not only and not a.replay:
            write_evidence(prop, a.tier, spec.get("level", "other"), results, violations, hits, wall,
                           spec["explanation"], spec["assumptions"], extra,
                           checker_cmd=f"/venv/bin/python -m tsa.check {prop} --tier {a.tier}")
        if violations:
            for f in violations:
                print("  " + f.text())
            p = write_violation_replay(prop, violations)
            print(f"VIOLATION property={prop} replay={p}")
            return 1
        if errors:
            print(f"ANALYSIS-ERROR property={prop} " + "; ".join(f"{r.rule}: {r.error}" for r in errors))
            return 2
        if selfval is not None and selfval["disagreements"]:
            for d in selfval["disagreements"]:
                print(f"  self-validation disagreement: {d}")
            print(f"ANALYSIS-ERROR property={prop} checker self-validation failed ({len(selfval['disagreements'])} variants)")
            return 2
        ob = sum(r.obligations for r in results)
        print(f"OK property={prop} tier={a.tier} rules={len(results)} obligations={ob} wall={wall:.2f}s"
              + (f" selfval={selfval['summary']}" if selfval else ""))
        return 0
    except AnalysisError as e:
        print(f"ANALYSIS-ERROR property={prop} {e}")
        return 2
    except (NameError, UnboundLocalError):
        raise
    except Exception:
        traceback.print_exc()
        print(f"ANALYSIS-ERROR property={prop} internal error in the checker (traceback above)")
        return 2


if __name__ == "__main__":
    sys.exit(main())
