"""tsa — TUCAN static analysis.

Everything in this package decides properties from the *source text* of the
repository under analysis (default /repo, override with TUCAN_REPO).  Nothing
under that tree is imported or executed.
"""
