"""Parser wiring rules: R-LISTENERS (with the start-rule clause), R-HANDLERS, R-ESCAPE, R-ALIAS."""
from __future__ import annotations

import ast
from typing import Optional

from ..cfg import cfg_of
from ..gram import grammars, literals_of, rule_refs
from ..model import AnalysisError, ClassInfo, FuncInfo, annotation_name, norm, short
from ..report import Finding, RuleResult
from . import rule
from .common import assigned_names, closure, entry, own_walk, params_of, single_def, sites, try_const
from .readers import reader_entries

PUNCT = {"/", "(", ")", "-", ":", ",", "="}


def _listener_impl(ctx) -> ClassInfo:
    par = ctx.repo.module("tucan.parser.parser")
    for ci in par.classes.values():
        if any(b.endswith("tucanListener") for b in ctx.repo.base_names(ci)):
            return ci
    raise AnalysisError("listener implementation vanished")


def _parser_exception(ctx) -> ClassInfo:
    par = ctx.repo.module("tucan.parser.parser")
    ci = par.classes.get("TucanParserException")
    if ci is None:
        raise AnalysisError("TucanParserException vanished")
    return ci


def _always_raises(ctx, fi: FuncInfo, exc: ClassInfo) -> tuple[bool, str]:
    """every path through fi ends in `raise <exc>(..)`"""
    cfg = cfg_of(fi.node)
    if cfg.reachable(cfg.ENTRY, cfg.EXIT):
        p = cfg.path_avoiding(cfg.ENTRY, cfg.EXIT, [])
        return False, "a path returns normally: " + " ; ".join(cfg.describe(x) for x in (p or [])[1:-1])
    raises = [n for n in own_walk(fi.node) if isinstance(n, ast.Raise)]
    if not raises:
        return False, "no raise statement"
    for r in raises:
        e = r.exc
        callee = e.func if isinstance(e, ast.Call) else e
        rr = ctx.repo.resolve_dotted(fi.module, callee) if callee is not None else None
        if not (rr and rr[0] == "class" and rr[1].fq == exc.fq):
            return False, f"`{short(r)}` raises something other than {exc.name}"
    return True, f"always raises {exc.name}"


@rule("R-LISTENERS")
def r_listeners(ctx) -> RuleResult:
    res = RuleResult("R-LISTENERS", "on every path of graph_from_tucan to the start-rule call: default error listeners removed and a listener whose syntaxError unconditionally raises the parser's exception added, on lexer and parser; fresh stream/lexer/parser/listener per call; the rule invoked ends in EOF")
    repo = ctx.repo
    exc = _parser_exception(ctx)
    ent = entry(ctx, "parse")
    clo = closure(ctx, "parse")
    # constructors of the generated classes, wherever the expression stands
    from .common import parent_map
    built = {}

    def qual_of(fi, func):
        r = repo.resolve_dotted(fi.module, func)
        if r and r[0] == "ext":
            return r[1]
        if r and r[0] == "class":
            return r[1].fq
        if r is None and isinstance(func, ast.Name):
            imp = fi.module.imports.get(func.id)
            return f"{imp[0]}.{imp[1]}" if imp and imp[1] else None
        return None
    for fi in clo:
        pm = None
        for n in own_walk(fi.node):
            if isinstance(n, ast.Call):
                q = qual_of(fi, n.func)
                if q and q.endswith((".tucanLexer", ".tucanParser")):
                    pm = pm or parent_map(fi.node)
                    built[q.rsplit(".", 1)[1]] = (fi, n, pm.get(n))
    for cls in ("tucanLexer", "tucanParser"):
        if cls not in built:
            raise AnalysisError(f"R-LISTENERS: no `{cls}(...)` construction in the closure of graph_from_tucan")

    def listener_classes(f, expr, depth):
        """the classes of the listener objects `expr` (in function f) can stand for: a constructor call, a name bound to one (a
        local, a module-level instance), or a parameter -- then what the callers pass, and for a caller that leaves it out the
        default, where `if p is None: p = Ctor()` in f supplies the object.  None: not read"""
        if depth > 4:
            return None
        if isinstance(expr, ast.Call):
            r = repo.resolve_dotted(f.module, expr.func)
            return [r[1]] if r and r[0] == "class" else None
        if not isinstance(expr, ast.Name):
            return None
        ps_ = params_of(f.node)
        if expr.id not in ps_:
            d_ = single_def(f.node, expr.id)
            if d_ is None:
                r0 = repo.resolve(f.module, expr.id)
                if r0 and r0[0] == "const":
                    d_ = r0[1].assigns.get(r0[2])
            return listener_classes(f, d_, depth + 1) if d_ is not None else None
        k = ps_.index(expr.id)
        out = []
        # what takes the place of a missing / None argument inside f
        fallback = None
        for st in own_walk(f.node):
            if isinstance(st, ast.If) and isinstance(st.test, ast.Compare) and len(st.test.ops) == 1 and isinstance(st.test.ops[0], ast.Is) and isinstance(st.test.left, ast.Name) \
                    and st.test.left.id == expr.id and isinstance(st.test.comparators[0], ast.Constant) and st.test.comparators[0].value is None:
                for b_ in st.body:
                    if isinstance(b_, ast.Assign) and len(b_.targets) == 1 and isinstance(b_.targets[0], ast.Name) and b_.targets[0].id == expr.id:
                        fallback = b_.value
        a_ = f.node.args
        pos_ = [x.arg for x in a_.posonlyargs + a_.args]
        dflt = dict(zip(pos_[len(pos_) - len(a_.defaults):], a_.defaults))
        callers = list(ctx.cg.callers_of(f.fq))
        if not callers:
            return None
        for cs in callers:
            x = cs.node.args[k - (1 if f.cls is not None else 0)] if 0 <= k - (1 if f.cls is not None else 0) < len(cs.node.args) else next((kw.value for kw in cs.node.keywords if kw.arg == expr.id), None)
            if x is None:
                d0 = dflt.get(expr.id)
                if isinstance(d0, ast.Constant) and d0.value is None and fallback is not None:
                    sub = listener_classes(f, fallback, depth + 1)
                else:
                    sub = None
            else:
                sub = listener_classes(cs.caller, x, depth + 1)
                if sub is None and isinstance(x, ast.Name) and fallback is not None:
                    sub = None
            if sub is None:
                return None
            out += sub
        return out

    def listener_checks(what, fi, var, anchor_node, must_return_var=False):
        """remove / add discipline on the object called `var` inside fi"""
        fn = fi.node
        cfg = cfg_of(fn)
        rets = [n for n in own_walk(fn) if isinstance(n, ast.Return)]
        if must_return_var and not (rets and all(isinstance(r.value, ast.Name) and r.value.id == var for r in rets)):
            raise AnalysisError(f"R-LISTENERS: helper {fi.qualname} configures the {what} but does not hand the same object back on every path")
        removes = [n for n in own_walk(fn) if isinstance(n, ast.Call) and isinstance(n.func, ast.Attribute) and n.func.attr == "removeErrorListeners"
                   and isinstance(n.func.value, ast.Name) and n.func.value.id == var]
        adds = [n for n in own_walk(fn) if isinstance(n, ast.Call) and isinstance(n.func, ast.Attribute) and n.func.attr == "addErrorListener"
                and isinstance(n.func.value, ast.Name) and n.func.value.id == var]
        exits = [cfg.node_of(ret) for ret in rets] or [cfg.EXIT]
        ok_rm = bool(removes) and all(any(cfg.dominates(cfg.stmt_node_containing(r), ex) for r in removes) for ex in exits)
        # the default console listener only prints; ANTLR notifies every registered listener in turn, so a raising listener ends
        # the parse whether or not the console listener is still there.  Keeping it is noise on stderr, not a wrong result.
        res.inst(fi.fq, f"{what}: default error listeners removed on every path", "ok",
                 detail="removed" if ok_rm else "kept on some path: errors are printed as well; the raising listener (next instance) still ends the parse")
        good_adds = []
        unread_adds = []
        for a in adds:
            arg = a.args[0] if a.args else None
            lcls_list = listener_classes(fi, arg, 0) if arg is not None else []
            if lcls_list is None:
                lcls_list = []
            all_good = bool(lcls_list)
            if not lcls_list:
                unread_adds.append(a)
            for lcls in lcls_list:
                se = repo.mro_method(lcls, "syntaxError")
                if se is None:
                    res.inst(fi.fq, f"{what}: listener {lcls.name}", "fail", detail="no syntaxError override")
                    res.fail(Finding("R-LISTENERS", fi.module.rel, fi.qualname, norm(a), f"listener {lcls.name} does not override syntaxError: errors are ignored", line=a.lineno))
                    all_good = False
                    continue
                ok, why = _always_raises(ctx, se, exc)
                res.inst(se.fq, f"{what}: {lcls.name}.syntaxError {why}", "ok" if ok else "fail")
                if not ok:
                    res.fail(Finding("R-LISTENERS", se.module.rel, se.qualname, "syntaxError", f"{what} error listener does not unconditionally raise {exc.name}: {why}", line=se.node.lineno))
                    all_good = False
            if all_good:
                good_adds.append(a)
        ok_add = bool(good_adds) and all(any(cfg.dominates(cfg.stmt_node_containing(a), ex) for a in good_adds) for ex in exits)
        # the add must come after the remove (otherwise it is removed again)
        ok_order = ok_add and all(any(cfg.dominates(cfg.stmt_node_containing(r), cfg.stmt_node_containing(a)) for r in removes) for a in good_adds) if removes else ok_add
        res.inst(fi.fq, f"{what}: raising listener registered after the removal on every path", "ok" if ok_add and ok_order else "fail")
        if not ok_add and unread_adds:
            raise AnalysisError(f"R-LISTENERS: cannot tell which listener object `{short(unread_adds[0], 60)}` in {fi.qualname} registers on the {what}")
        if not ok_add:
            res.fail(Finding("R-LISTENERS", fi.module.rel, fi.qualname, f"{var}.addErrorListener(...)",
                             f"no raising error listener is registered on the {what} on every path: a syntax error does not become {exc.name}", line=anchor_node.lineno))
        elif not ok_order:
            res.fail(Finding("R-LISTENERS", fi.module.rel, fi.qualname, f"{var}.removeErrorListeners()", f"the {what}'s raising listener is registered before the listeners are cleared", line=anchor_node.lineno))
    for cls, (fi, call, par_) in built.items():
        what = "lexer" if cls == "tucanLexer" else "parser"
        if isinstance(par_, ast.Assign) and isinstance(par_.targets[0], ast.Name):
            listener_checks(what, fi, par_.targets[0].id, call)
        elif isinstance(par_, ast.Call) and call in par_.args:
            cs = ctx.cg.resolve_call(fi, par_, ctx.cg.local_types(fi), set(params_of(fi.node)))
            if cs.kind != "tucan":
                raise AnalysisError(f"R-LISTENERS: the {what} is constructed inside `{short(par_)}`, whose callee is not part of tucan")
            h = cs.target
            hp = params_of(h.node)
            k = par_.args.index(call)
            if k >= len(hp):
                raise AnalysisError(f"R-LISTENERS: cannot match the {what} argument of `{short(par_)}`")
            # the configuring call itself must be executed on every path of the constructing function
            cfg = cfg_of(fi.node)
            rets = [cfg.node_of(r) for r in own_walk(fi.node) if isinstance(r, ast.Return)] or [cfg.EXIT]
            cn = cfg.stmt_node_containing(par_)
            if not all(cfg.dominates(cn, r) or cn == r for r in rets):
                raise AnalysisError(f"R-LISTENERS: `{short(par_)}` is not on every path of {fi.qualname}")
            listener_checks(what, h, hp[k], call, must_return_var=True)
        else:
            raise AnalysisError(f"R-LISTENERS: the {what} is constructed in a position this rule does not follow: `{short(par_) if par_ is not None else short(call)}`")
        # constructed from the call's own argument: InputStream(<param>) -> lexer -> CommonTokenStream -> parser
        fresh = not any(isinstance(d, ast.Name) and ctx.repo.resolve(fi.module, d.id) and ctx.repo.resolve(fi.module, d.id)[0] == "const" for d in ast.walk(call))
        res.inst(fi.fq, f"{what} object is built inside the call ({short(call)})", "ok" if fresh else "fail")
        if not fresh:
            res.fail(Finding("R-LISTENERS", fi.module.rel, fi.qualname, norm(call), f"the {what} is built from a module-level object: state is shared between calls", line=call.lineno))
    # module-level lexer / parser / listener instances (shared between calls)
    par = repo.module("tucan.parser.parser")
    for name, val in par.assigns.items():
        if isinstance(val, ast.Call):
            r = repo.resolve_dotted(par, val.func)
            t = norm(val.func)
            if any(k in t for k in ("tucanLexer", "tucanParser", "ListenerImpl", "ParseTreeWalker", "InputStream", "CommonTokenStream")):
                res.inst(par.name, f"module-level `{name} = {short(val)}`", "fail")
                res.fail(Finding("R-LISTENERS", par.rel, name, norm(val), "a lexer / parser / listener object is created once at import time and shared by all calls", line=val.lineno))
    # start rule
    G = grammars(ctx)
    starts = []
    for fi in clo:
        lt = ctx.cg.local_types(fi)
        for n in own_walk(fi.node):
            if isinstance(n, ast.Call) and isinstance(n.func, ast.Attribute) and not n.args:
                t = lt.type_of(n.func.value)
                tname = t if isinstance(t, str) else (t.fq if t is not None else "")
                if tname.endswith("tucanParser") and (n.func.attr in G.gen.rule_names or n.func.attr.rstrip("_") in G.gen.rule_names):
                    starts.append((fi, n))
    if not starts:
        raise AnalysisError("R-LISTENERS: no start-rule invocation `parser.<rule>()` found")
    for fi, n in starts:
        rn = n.func.attr if n.func.attr in G.gen.rule_names else n.func.attr.rstrip("_")
        ok = G.gen.consumes_eof(rn)
        res.inst(fi.fq, f"start rule `{rn}` ends in EOF", "ok" if ok else "fail")
        if not ok:
            res.fail(Finding("R-LISTENERS", fi.module.rel, fi.qualname, norm(n), f"rule `{rn}` does not end in EOF: trailing text after a valid prefix is silently ignored", line=n.lineno))
    # the listener is created per call and its state is per instance
    lis = _listener_impl(ctx)
    ctor_sites = [(fi, n) for fi in clo for n in own_walk(fi.node) if isinstance(n, ast.Call) and isinstance(n.func, ast.Name) and n.func.id == lis.name]
    ok = bool(ctor_sites)
    res.inst(ent.fq, f"listener `{lis.name}()` constructed inside the call ({len(ctor_sites)} site)", "ok" if ok else "fail")
    if not ok:
        res.fail(Finding("R-LISTENERS", ent.module.rel, ent.qualname, f"{lis.name}()", "no listener is constructed per call", line=ent.node.lineno))
    init = lis.methods.get("__init__")
    if init is not None:
        for n in own_walk(init.node):
            if isinstance(n, ast.Assign) and isinstance(n.targets[0], ast.Attribute):
                v = n.value
                shared = isinstance(v, ast.Name) and repo.resolve(init.module, v.id) and repo.resolve(init.module, v.id)[0] == "const"
                res.inst(init.fq, short(n), "fail" if shared else "ok", detail="per-instance state")
                if shared:
                    res.fail(Finding("R-LISTENERS", init.module.rel, init.qualname, norm(n), "listener state aliases a module-level object: earlier parses leak into later ones", line=n.lineno))
    res.trusted = ["ANTLR calls every registered listener's syntaxError on a lexer/parser error; without the default listeners nothing else handles it"]
    return res


@rule("R-HANDLERS")
def r_handlers(ctx) -> RuleResult:
    res = RuleResult("R-HANDLERS", "every enter*/exit* method of the listener implementation exists in the generated listener (dispatch is by name); every data-carrying grammar rule lies under a rule that has a handler")
    lis = _listener_impl(ctx)
    G = grammars(ctx)
    gl = ast.parse(ctx.repo.text("tucan/parser/tucanListener.py"))
    base = next((n for n in gl.body if isinstance(n, ast.ClassDef) and n.name == "tucanListener"), None)
    if base is None:
        raise AnalysisError("generated tucanListener class vanished")
    base_methods = {n.name for n in base.body if isinstance(n, ast.FunctionDef)}
    handled = set()
    parent_access: dict[str, set] = {}      # handled rule -> rules it reads through parentCtx
    for name, m in lis.methods.items():
        if name.startswith(("enter", "exit")):
            ok = name in base_methods
            res.inst(m.fq, f"handler `{name}` exists in the generated listener", "ok" if ok else "fail")
            if not ok:
                res.fail(Finding("R-HANDLERS", m.module.rel, m.qualname, name, "handler name is not a method of the generated listener: the parse-tree walker dispatches by name and never calls it", line=m.node.lineno))
            else:
                rn = name[5:] if name.startswith("enter") else name[4:]
                cands = [r for r in G.gen.rule_names if r.capitalize() == rn or (r[:1].upper() + r[1:]) == rn]
                handled |= set(cands)
                for x in ast.walk(m.node):
                    if isinstance(x, ast.Call) and isinstance(x.func, ast.Attribute) and isinstance(x.func.value, ast.Attribute) and x.func.value.attr == "parentCtx":
                        for c in cands:
                            parent_access.setdefault(c, set()).add(x.func.attr)
    # the parser's context classes dispatch with hasattr(listener, "enterX"): names must match the generated parser too
    if not handled:
        raise AnalysisError("R-HANDLERS: listener implementation has no handlers")
    # data-carrying rules, from the generated ATN (what actually runs): rules with a non-punctuation token transition of their own
    from antlr4.atn.Transition import AtomTransition, SetTransition
    from ..gram import _interval_members
    tt = G.token_text()
    atn = G.gen.patn
    own: dict[str, set] = {r: set() for r in G.gen.rule_names}
    for st in atn.states:
        if st is None:
            continue
        for t in st.transitions:
            if isinstance(t, AtomTransition) and t.label_ > 0:
                own[G.gen.rule_names[st.ruleIndex]].add(tt.get(t.label_, str(t.label_)))
            elif isinstance(t, SetTransition):
                for x in _interval_members(t.label):
                    if x > 0:
                        own[G.gen.rule_names[st.ruleIndex]].add(tt.get(x, str(x)))
    data_rules = {r for r, toks in own.items() if toks - PUNCT}
    graph = G.gen.rule_graph()
    # reachability from the start rule without passing through a handled rule
    seen, work = set(), ["tucan"]
    uncovered = []
    while work:
        r = work.pop()
        if r in seen or r in handled:
            continue
        seen.add(r)
        if r in data_rules:
            uncovered.append(r)
        # children that a handled child reads through parentCtx are covered too
        via_parent = set()
        for c in graph.get(r, ()):
            if c in handled:
                via_parent |= parent_access.get(c, set())
        work.extend(x for x in graph.get(r, ()) if x not in via_parent)
    res.inst(lis.fq, f"data-carrying rules ({len(data_rules)}) all lie under a handled rule {sorted(handled)}", "ok" if not uncovered else "fail")
    if uncovered:
        res.fail(Finding("R-HANDLERS", lis.module.rel, lis.name, f"unhandled: {sorted(uncovered)[:6]}",
                         f"text matched by the rules {sorted(uncovered)[:6]} is never looked at by a handler: that part of the string is silently dropped", line=lis.node.lineno))
    res.counts = {"handlers": len(handled), "data_rules": len(data_rules)}
    return res


@rule("R-ESCAPE")
def r_escape(ctx) -> RuleResult:
    res = RuleResult("R-ESCAPE", "in the TUCAN parser's own code every raise is the parser's exception, and every table look-up / int() / subscript that could raise something else is discharged by a grammar or table fact")
    repo = ctx.repo
    lis = _listener_impl(ctx)
    exc = _parser_exception(ctx)
    G = grammars(ctx)
    fis = [m for m in lis.methods.values()] + [f for f in closure(ctx, "parse") if f.module.name == "tucan.parser.parser" and f.cls is None]
    elem_attrs = repo.try_const("tucan.element_attributes", "ELEMENT_ATTRS", None)
    if not isinstance(elem_attrs, dict) or not elem_attrs:
        raise AnalysisError("R-ESCAPE: ELEMENT_ATTRS cannot be evaluated to a constant table")
    from .common import attribute_spelling_tables
    (_sn, _sm), (DNAME, dmap) = attribute_spelling_tables(ctx)
    dmap = dmap or {}
    g_elems = {l for l in literals_of(G.g4, "sum_formula")} - {str(d) for d in range(10)} if "sum_formula" in G.g4 else set()
    g_keys = literals_of(G.g4, "node_property_key") if "node_property_key" in G.g4 else set()

    def digits_only(rule_name: str) -> bool:
        if rule_name not in G.g4:
            return False
        lits = literals_of(G.g4, rule_name)
        refs = set()
        work, seen = [rule_name], set()
        while work:
            r = work.pop()
            if r in seen:
                continue
            seen.add(r)
            for x in rule_refs(G.g4[r]):
                if x in G.g4_lex:
                    refs.add(x)
                elif x in G.g4:
                    work.append(x)
        return all(l.isdigit() for l in lits) and refs <= {"GREATER_THAN_NINE"}

    asserts = []
    for fi in fis:
        for n in own_walk(fi.node):
            if isinstance(n, ast.Raise):
                e = n.exc
                callee = e.func if isinstance(e, ast.Call) else e
                r = repo.resolve_dotted(fi.module, callee) if callee is not None else None
                ok = bool(r and r[0] == "class" and r[1].fq == exc.fq)
                res.inst(fi.fq, short(n, 70), "ok" if ok else "fail", detail="raise of the parser's exception")
                if not ok:
                    res.fail(Finding("R-ESCAPE", fi.module.rel, fi.qualname, norm(n), f"raises something other than {exc.name}", line=n.lineno))
            if isinstance(n, ast.Assert):
                from ..sizedom import implied_by_callers_guard, implied_by_guard
                why_ = implied_by_guard(fi.node, n) or implied_by_callers_guard(ctx, fi, n)
                if why_:
                    res.inst(fi.fq, short(n, 70), "ok", detail=why_)
                else:
                    asserts.append((fi, n))
            if isinstance(n, ast.Subscript) and isinstance(n.ctx, ast.Load) and isinstance(n.value, ast.Name):
                tbl = n.value.id
                if tbl == "ELEMENT_ATTRS":
                    ok = bool(g_elems) and g_elems <= set(elem_attrs)
                    res.inst(fi.fq, short(n), "ok" if ok else "fail", detail=f"grammar's {len(g_elems)} element literals ⊆ table keys")
                    if not ok:
                        res.fail(Finding("R-ESCAPE", fi.module.rel, fi.qualname, norm(n), f"the grammar accepts element symbols {sorted(g_elems - set(elem_attrs))[:5]} that are not in ELEMENT_ATTRS: KeyError instead of {exc.name}", line=n.lineno))
                elif tbl == DNAME:
                    ok = bool(g_keys) and g_keys <= set(dmap)
                    res.inst(fi.fq, short(n), "ok" if ok else "fail", detail=f"grammar's attribute keys {sorted(g_keys)} ⊆ table keys")
                    if not ok:
                        res.fail(Finding("R-ESCAPE", fi.module.rel, fi.qualname, norm(n), f"the grammar accepts attribute keys {sorted(g_keys - set(dmap))} the parser's table lacks: KeyError instead of {exc.name}", line=n.lineno))
            if isinstance(n, ast.Call) and isinstance(n.func, ast.Name) and n.func.id == "int" and n.args:
                # expand local names to the accessor chain they were bound to:  c = e.count(); int(c.getText())
                arg = n.args[0]
                txt = norm(arg)
                for _ in range(3):
                    changed = False
                    for nm in [x for x in ast.walk(ast.parse(txt, mode="eval")) if isinstance(x, ast.Name)]:
                        if nm.id in params_of(fi.node):
                            continue
                        d = single_def(fi.node, nm.id)
                        if d is None:
                            # an element of a typed accessor's list:  for c in ctx.node_index()
                            its = [g.iter for x in ast.walk(fi.node) if isinstance(x, (ast.ListComp, ast.GeneratorExp, ast.SetComp, ast.DictComp)) for g in x.generators
                                   if isinstance(g.target, ast.Name) and g.target.id == nm.id]
                            its += [x.iter for x in ast.walk(fi.node) if isinstance(x, ast.For) and isinstance(x.target, ast.Name) and x.target.id == nm.id]
                            if len(its) == 1:
                                d = its[0]
                        if d is not None and isinstance(d, (ast.Call, ast.Attribute, ast.Subscript)):
                            import re as _re
                            txt2 = _re.sub(rf"\b{nm.id}\b", norm(d), txt)
                            if txt2 != txt:
                                txt, changed = txt2, True
                    if not changed:
                        break
                if "getText" not in txt:
                    continue
                rule_name = None
                if fi.cls is None:
                    pass
                for r in ("node_index", "node_property_value", "count"):
                    if f".{r}(" in txt:
                        rule_name = r
                if rule_name is None and "getChild(1)" in txt:
                    # second child of an element context: every element rule is  'X' count?
                    bad = [r for r, a in G.g4.items() if r not in G.g4_lex and a[0] == "cat" and len(a[1]) == 2 and a[1][0][0] == "tok"
                           and not (a[1][1][0] == "opt" and a[1][1][1] == ("ref", "count"))]
                    rule_name = "count" if not bad else None
                if rule_name is None and fi.cls is not None:
                    # by where the text comes from (origin typing of the listener)
                    from ..origin import OriginTyper, tags as _tags
                    if "origin_typer" not in ctx.cache:
                        ctx.cache["origin_typer"] = OriginTyper(repo, lis, [])
                    tg_ = _tags(ctx.cache["origin_typer"].ty(fi, n.args[0])) - {"ctx", "const"}
                    rule_name = {frozenset({"idx"}): "node_index", frozenset({"val"}): "node_property_value", frozenset({"fml"}): "count"}.get(frozenset(tg_))
                if rule_name is None:
                    raise AnalysisError(f"R-ESCAPE: cannot tell which grammar rule's text `{short(n)}` converts (in {fi.qualname})")
                ok = digits_only(rule_name)
                res.inst(fi.fq, short(n), "ok" if ok else "fail", detail=f"text of rule `{rule_name}` is a digit string by the grammar")
                if not ok:
                    res.fail(Finding("R-ESCAPE", fi.module.rel, fi.qualname, norm(n), "int() of parse-tree text that the grammar does not restrict to digits: ValueError instead of the parser's exception", line=n.lineno))
    if asserts:
        # an assertion that can fail lets AssertionError out instead of the parser's exception.  Shown failing on a sample
        # (what a string stores in the listener, followed with the sample evaluator): reported; not shown: no verdict
        from ..concrete import PState
        from .readers import listener_evaluator
        le = listener_evaluator(ctx)
        witness = None
        if not isinstance(le, str):
            pe, env, lis_, tg, adders_, (key0, _k) = le
            A, B, P = adders_["atoms"].name, adders_["bond"].name, adders_["attr"].name
            progs = [("C2/(1-2)", [f"L.{A}('C', 2)", f"L.{B}(1, 2)"]), ("C2/(2-1)", [f"L.{A}('C', 2)", f"L.{B}(2, 1)"]), ("C2/(1-3)", [f"L.{A}('C', 2)", f"L.{B}(1, 3)"]),
                     ("/(1-2)", [f"L.{B}(1, 2)"]), (f"C//(1:{key0}=13)", [f"L.{A}('C', 1)", f"L.{P}(1, {key0!r}, 13)"]), (f"C//(2:{key0}=13)", [f"L.{A}('C', 1)", f"L.{P}(2, {key0!r}, 13)"]),
                     (f"C//(1:{key0}=13)(1:{key0}=13)", [f"L.{A}('C', 1)", f"L.{P}(1, {key0!r}, 13)", f"L.{P}(1, {key0!r}, 13)"]), ("He/", [f"L.{A}('He', 1)"]), ("/", [])]
            for text, lines_ in progs:
                src = [f"L = {lis_.name}()"] + lines_ + ["g = L.to_graph()"]
                del pe.gaps[:]
                falls, lefts = pe.block(ast.parse("\n".join(src)).body, [PState(dict(env))])
                if any(how == "raise" and v == "AssertionError" for _s, how, v in lefts) and not falls and all(how == "raise" and v == "AssertionError" for _s, how, v in lefts):
                    witness = text
                    break
        for fi_a, n in asserts:
            if witness is not None:
                res.inst(fi_a.fq, short(n, 70), "fail", detail=f"sample {witness!r}")
                res.fail(Finding("R-ESCAPE", fi_a.module.rel, fi_a.qualname, norm(n),
                                 f"an assertion in the parser escapes as AssertionError: following what the string {witness!r} stores in the listener ends in AssertionError on every path", line=n.lineno))
                break
        else:
            fi_a, n = asserts[0]
            raise AnalysisError(f"R-ESCAPE: `{short(n, 60)}` in {fi_a.qualname}: whether this assertion can fail for some string (AssertionError instead of the parser's exception) is not decided "
                                "(it does not fail on the sample strings)")
    if len(res.instances) < 6:
        raise AnalysisError(f"R-ESCAPE: only {len(res.instances)} obligations found in the parser; its shape changed")
    res.notes.append("index subscripts are discharged by R-ORDERING; positions handed to the error listeners by ANTLR are trusted to lie inside the input")
    return res


# --------------------------------------------------------------------------- R-ALIAS


def _memoised_callee(ctx, fi: FuncInfo, call: ast.Call) -> Optional[str]:
    """name of the repository function `call` goes to if that function is wrapped by functools.cache / lru_cache"""
    cs = ctx.cg.resolve_call(fi, call, ctx.cg.local_types(fi), set(params_of(fi.node)))
    if cs.kind != "tucan":
        return None
    for d in cs.target.node.decorator_list:
        nm = norm(d.func if isinstance(d, ast.Call) else d).split(".")[-1]
        if nm in ("cache", "lru_cache", "cached", "memoize", "memoise"):
            return cs.target.name
    return None


def _is_dict_expr(ctx, fi: FuncInfo, e: Optional[ast.expr], depth=0) -> bool:
    if e is None or depth > 3:
        return False
    if isinstance(e, (ast.Dict, ast.DictComp)):
        return True
    if isinstance(e, ast.Call):
        if isinstance(e.func, ast.Name) and e.func.id == "dict":
            return True
        cs = ctx.cg.resolve_call(fi, e, ctx.cg.local_types(fi), set(params_of(fi.node)))
        if cs.kind == "tucan":
            ret = annotation_name(cs.target.node.returns) or ""
            return ret.startswith("dict")
    if isinstance(e, ast.Name):
        return _is_dict_expr(ctx, fi, single_def(fi.node, e.id), depth + 1)
    return False


def _written_through(ctx, fi: FuncInfo, container: ast.expr) -> Optional[tuple]:
    """is a member of this table (a local name, or an attribute of self) written to anywhere it can be reached by name: in
    the function itself, in the functions it is handed to as an argument, in the callers that receive it as (part of) the
    result, and -- for an attribute of self -- in the methods of the class.  -> (function, statement) of the first write
    to a member, or None.  Graph construction from the table copies the member dictionaries (networkx add_nodes_from /
    add_edges_from / set_*_attributes), so a shared member that nobody writes to is not observable."""
    work, seen = [], set()
    if isinstance(container, ast.Name):
        work.append((fi, container.id))
    elif isinstance(container, ast.Attribute) and isinstance(container.value, ast.Name) and container.value.id == "self" and fi.cls is not None:
        for m_ in fi.cls.methods.values():
            work.append((m_, norm(container)))
    else:
        return (fi, container)          # unknown kind of table: assume the worst

    def member_write(f, nm):
        def is_tab(e):
            return norm(e) == nm
        for x in own_walk(f.node):
            # tab[k][a] = v ; tab[k] |= d ; tab[k].update(...) / .pop / .setdefault / .clear
            if isinstance(x, (ast.Assign, ast.AugAssign)):
                tg = x.targets[0] if isinstance(x, ast.Assign) else x.target
                if isinstance(tg, ast.Subscript) and isinstance(tg.value, ast.Subscript) and is_tab(tg.value.value):
                    return x
                if isinstance(x, ast.AugAssign) and isinstance(tg, ast.Subscript) and is_tab(tg.value):
                    return x
            if isinstance(x, ast.Call) and isinstance(x.func, ast.Attribute) and x.func.attr in ("update", "pop", "setdefault", "clear", "popitem", "__setitem__") \
                    and isinstance(x.func.value, ast.Subscript) and is_tab(x.func.value.value):
                return x
            # for k, d in tab.items(): d |= ... / d[a] = v / d.pop(...)      (also .values())
            loops = []
            if isinstance(x, ast.For) and isinstance(x.iter, ast.Call) and isinstance(x.iter.func, ast.Attribute) and x.iter.func.attr in ("items", "values") and is_tab(x.iter.func.value):
                loops.append((x.target, x.body))
            elif isinstance(x, ast.For) and is_tab(x.iter):
                loops.append((x.target, x.body))
            for tgt, body in loops:
                members = {n_.id for n_ in ast.walk(tgt) if isinstance(n_, ast.Name)}
                for st in body:
                    for y in ast.walk(st):
                        if isinstance(y, ast.AugAssign) and isinstance(y.target, ast.Name) and y.target.id in members:
                            return y
                        if isinstance(y, (ast.Assign, ast.AugAssign, ast.Delete)):
                            for t_ in (y.targets if isinstance(y, (ast.Assign, ast.Delete)) else [y.target]):
                                if isinstance(t_, ast.Subscript) and isinstance(t_.value, ast.Name) and t_.value.id in members:
                                    return y
                        if isinstance(y, ast.Call) and isinstance(y.func, ast.Attribute) and y.func.attr in ("update", "pop", "setdefault", "clear", "popitem") \
                                and isinstance(y.func.value, ast.Name) and y.func.value.id in members:
                            return y
            # a member fetched into a name and written through it:  d = tab[k] ... d[a] = v
            if isinstance(x, ast.Assign) and isinstance(x.targets[0], ast.Name) and isinstance(x.value, (ast.Subscript, ast.Call)):
                src = x.value.value if isinstance(x.value, ast.Subscript) else (x.value.func.value if isinstance(x.value.func, ast.Attribute) and x.value.func.attr in ("get", "setdefault") else None)
                if src is not None and is_tab(src):
                    alias = x.targets[0].id
                    for y in own_walk(f.node):
                        if isinstance(y, (ast.Assign, ast.AugAssign)):
                            t_ = y.targets[0] if isinstance(y, ast.Assign) else y.target
                            if (isinstance(t_, ast.Subscript) and isinstance(t_.value, ast.Name) and t_.value.id == alias) or \
                                    (isinstance(y, ast.AugAssign) and isinstance(t_, ast.Name) and t_.id == alias):
                                return y
                        if isinstance(y, ast.Call) and isinstance(y.func, ast.Attribute) and y.func.attr in ("update", "pop", "setdefault", "clear") \
                                and isinstance(y.func.value, ast.Name) and y.func.value.id == alias:
                            return y
        return None
    while work:
        f, nm = work.pop()
        if (f.fq, nm) in seen or len(seen) > 60:
            continue
        seen.add((f.fq, nm))
        w = member_write(f, nm)
        if w is not None:
            return (f, w)
        # tables made from this one keep its members:  s = sorted(tab) ; d = {i: s[i] for i in ...} ; for d in tab: other.append(d)
        for x in own_walk(f.node):
            if isinstance(x, (ast.Assign, ast.AnnAssign)) and x.value is not None:
                tg = x.targets[0] if isinstance(x, ast.Assign) else x.target
                if isinstance(tg, ast.Name) and tg.id != nm and any(norm(y) == nm for y in ast.walk(x.value) if isinstance(y, (ast.Name, ast.Attribute))) \
                        and not (isinstance(x.value, ast.Call) and isinstance(x.value.func, ast.Name) and x.value.func.id in ("len", "sum", "min", "max", "any", "all", "str", "int", "bool", "float")) \
                        and not isinstance(x.value, (ast.Compare, ast.BoolOp, ast.Constant)):
                    work.append((f, tg.id))
        if "." in nm:
            continue
        # handed on as an argument
        for cs in ctx.cg.sites.get(f.fq, []):
            if cs.kind == "tucan":
                tp = params_of(cs.target.node)
                off = 1 if cs.target.cls is not None and tp and tp[0] in ("self", "cls") else 0
                for i_, a_ in enumerate(cs.node.args):
                    if isinstance(a_, ast.Name) and a_.id == nm and i_ + off < len(tp):
                        work.append((cs.target, tp[i_ + off]))
                for k_ in cs.node.keywords:
                    if isinstance(k_.value, ast.Name) and k_.value.id == nm and k_.arg in tp:
                        work.append((cs.target, k_.arg))
            elif cs.kind in ("param", "unknown", "method") and any(isinstance(a_, ast.Name) and a_.id == nm for a_ in cs.node.args) \
                    and not (isinstance(cs.node.func, ast.Attribute) and cs.node.func.attr in ("items", "values", "keys", "get", "copy")):
                if cs.kind != "method":
                    return (f, cs.node)       # goes somewhere that is not followed
        # handed back
        for r in own_walk(f.node):
            if isinstance(r, ast.Return) and r.value is not None:
                pos = None
                if isinstance(r.value, ast.Name) and r.value.id == nm:
                    pos = -1
                elif isinstance(r.value, ast.Tuple):
                    for i_, e_ in enumerate(r.value.elts):
                        if isinstance(e_, ast.Name) and e_.id == nm:
                            pos = i_
                if pos is None:
                    continue
                for g in ctx.cg.funcs.values():
                    for cs in ctx.cg.sites.get(g.fq, []):
                        if cs.kind == "tucan" and cs.target.fq == f.fq:
                            for st in own_walk(g.node):
                                if isinstance(st, ast.Assign) and st.value is cs.node:
                                    tg = st.targets[0]
                                    if pos == -1 and isinstance(tg, ast.Name):
                                        work.append((g, tg.id))
                                    elif pos is not None and pos >= 0 and isinstance(tg, ast.Tuple) and pos < len(tg.elts) and isinstance(tg.elts[pos], ast.Name):
                                        work.append((g, tg.elts[pos].id))
                                    elif pos is not None and pos >= 0 and isinstance(tg, ast.Name):
                                        return (g, st)       # the tuple as a whole goes on: not followed
    return None


def _receiving_table(fn, comp) -> Optional[ast.expr]:
    """the table a comprehension's elements end up in: `T = comp`, `T |= comp` / `T += comp`, `T.update(comp)` /
    `T.extend(comp)`; None when it goes anywhere else (returned, handed on)"""
    for st in own_walk(fn):
        if isinstance(st, ast.Assign) and st.value is comp and len(st.targets) == 1 and isinstance(st.targets[0], (ast.Name, ast.Attribute)):
            return st.targets[0]
        if isinstance(st, ast.AnnAssign) and st.value is comp and isinstance(st.target, (ast.Name, ast.Attribute)):
            return st.target
        if isinstance(st, ast.AugAssign) and st.value is comp and isinstance(st.op, (ast.BitOr, ast.Add)) and isinstance(st.target, (ast.Name, ast.Attribute)):
            return st.target
        if isinstance(st, ast.Call) and isinstance(st.func, ast.Attribute) and st.func.attr in ("update", "extend") and len(st.args) == 1 and st.args[0] is comp \
                and isinstance(st.func.value, (ast.Name, ast.Attribute)):
            return st.func.value
    return None


@rule("R-ALIAS")
def r_alias(ctx) -> RuleResult:
    res = RuleResult("R-ALIAS", "no attribute dictionary object is stored for two atoms or two bonds: a dictionary created outside a loop/comprehension is copied per insertion")
    fis = closure(ctx, "parse", "read_text")
    n = 0

    def classify(fi, val, per_iteration: set):
        """'shared' / 'copied' / 'fresh' for a dictionary-valued expression stored once per iteration, else None;
        members of a tuple (key, value) are looked at one by one"""
        out = []
        for v in (val.elts if isinstance(val, ast.Tuple) else [val]):
            if isinstance(v, ast.Name) and v.id not in per_iteration and _is_dict_expr(ctx, fi, v):
                out.append(("shared", v.id))
            elif isinstance(v, ast.Call) and isinstance(v.func, ast.Attribute) and v.func.attr == "copy" and isinstance(v.func.value, ast.Name) \
                    and v.func.value.id not in per_iteration and _is_dict_expr(ctx, fi, v.func.value):
                out.append(("copied", v.func.value.id))
            elif isinstance(v, ast.Call) and isinstance(v.func, ast.Name) and v.func.id in ("dict", "deepcopy") and v.args and isinstance(v.args[0], ast.Name) \
                    and v.args[0].id not in per_iteration and _is_dict_expr(ctx, fi, v.args[0]):
                out.append(("copied", v.args[0].id))
            elif isinstance(v, ast.Call) and _is_dict_expr(ctx, fi, v) and _memoised_callee(ctx, fi, v) is not None:
                # a function that remembers its results hands the same dictionary object to every caller that asks with the same arguments
                out.append(("shared", f"{_memoised_callee(ctx, fi, v)}(...) [memoised]"))
            elif isinstance(v, (ast.Dict, ast.DictComp)) or (isinstance(v, ast.Call) and _is_dict_expr(ctx, fi, v)) or \
                    (isinstance(v, ast.Name) and v.id in per_iteration and _is_dict_expr(ctx, fi, v)):
                out.append(("fresh", None))
        for kind in ("shared", "copied", "fresh"):
            for k, nm in out:
                if k == kind:
                    return k, nm
        return None, None
    for fi in fis:
        fn = fi.node
        for x in own_walk(fn):
            if isinstance(x, (ast.ListComp, ast.GeneratorExp, ast.SetComp, ast.DictComp)):
                bound = {nm.id for g in x.generators for nm in ast.walk(g.target) if isinstance(nm, ast.Name)}
                val = x.value if isinstance(x, ast.DictComp) else x.elt
                kind, nm = classify(fi, val, bound)
                if kind == "shared":
                    n += 1
                    tab = _receiving_table(fn, x)
                    if tab is None and any(isinstance(r_, ast.Return) and r_.value is x for r_ in own_walk(fn)):
                        # handed back as it is: the names the callers give it
                        homes = []
                        for g in ctx.cg.funcs.values():
                            for cs in ctx.cg.sites.get(g.fq, []):
                                if cs.kind == "tucan" and cs.target.fq == fi.fq:
                                    st_ = next((s_ for s_ in own_walk(g.node) if isinstance(s_, ast.Assign) and s_.value is cs.node and len(s_.targets) == 1
                                                and isinstance(s_.targets[0], ast.Name)), None)
                                    homes.append((g, st_.targets[0]) if st_ is not None else None)
                        if homes and all(h is not None for h in homes) and all(_written_through(ctx, g_, t_) is None for g_, t_ in homes):
                            res.inst(fi.fq, short(x), "ok", detail=f"`{nm}` is stored for several entries of the returned table, and no caller writes to an entry of it (graph construction copies them)")
                            continue
                    if tab is not None and _written_through(ctx, fi, tab) is None:
                        res.inst(fi.fq, short(x), "ok", detail=f"`{nm}` is stored for several entries of `{short(tab)}`, and no entry of that table is written to afterwards (graph construction copies them)")
                        continue
                    res.inst(fi.fq, short(x), "fail")
                    if "[memoised]" in nm:
                        res.fail(Finding("R-ALIAS", fi.module.rel, fi.qualname, norm(x),
                                         f"`{nm.split('(')[0]}` remembers its results, so it hands out one dictionary object per distinct argument: entries made from equal arguments "
                                         "(also those of files read later in the same process) share it, and entries of this table are written to afterwards", line=x.lineno))
                        continue
                    res.fail(Finding("R-ALIAS", fi.module.rel, fi.qualname, norm(x), f"the same dictionary object `{nm}` is inserted once per iteration: all these atoms share their attributes"
                                     if not isinstance(x, ast.DictComp) else f"the same dictionary object `{nm}` becomes the value of every key", line=x.lineno))
                elif kind:
                    n += 1
                    res.inst(fi.fq, short(x), "ok", detail="copied per element" if kind == "copied" else "a new dictionary per element")
            if isinstance(x, ast.Call) and isinstance(x.func, ast.Attribute) and x.func.attr == "fromkeys" and len(x.args) == 2:
                kind, nm = classify(fi, x.args[1], set())
                if kind in ("shared", "fresh", "copied"):
                    n += 1
                    res.inst(fi.fq, short(x), "fail")
                    res.fail(Finding("R-ALIAS", fi.module.rel, fi.qualname, norm(x), "dict.fromkeys gives every key the same dictionary object", line=x.lineno))
            if isinstance(x, (ast.For, ast.While)):
                rebound = set()
                for y in ast.walk(x):
                    if isinstance(y, (ast.Assign, ast.AnnAssign, ast.AugAssign)):
                        tg = y.targets[0] if isinstance(y, ast.Assign) else y.target
                        for nm in ast.walk(tg):
                            if isinstance(nm, ast.Name) and isinstance(nm.ctx, ast.Store):
                                rebound.add(nm.id)
                    if isinstance(y, ast.For):
                        for nm in ast.walk(y.target):
                            if isinstance(nm, ast.Name):
                                rebound.add(nm.id)
                if isinstance(x, ast.For):
                    for nm in ast.walk(x.target):
                        if isinstance(nm, ast.Name):
                            rebound.add(nm.id)
                for y in ast.walk(x):
                    val = None
                    if isinstance(y, ast.Assign) and isinstance(y.targets[0], ast.Subscript):
                        val = y.value
                    elif isinstance(y, ast.Call) and isinstance(y.func, ast.Attribute) and y.func.attr in ("append", "add", "setdefault", "insert") and y.args:
                        val = y.args[-1]
                    if val is None:
                        continue
                    kind, nm = classify(fi, val, rebound)
                    if kind == "shared":
                        # which table receives it, and is a member of that table ever written to?
                        tab = y.targets[0].value if isinstance(y, ast.Assign) else y.func.value
                        wr = _written_through(ctx, fi, tab)
                        if wr is None:
                            n += 1
                            res.inst(fi.fq, short(y), "ok", detail=f"`{nm}` is stored for several entries of `{short(tab)}`, and no entry of that table is written to afterwards (graph construction copies them)")
                            continue
                        n += 1
                        res.inst(fi.fq, short(y), "fail", detail=f"a member is written to in {wr[0].qualname}: `{short(wr[1], 50)}`")
                        res.fail(Finding("R-ALIAS", fi.module.rel, fi.qualname, norm(y), f"the dictionary `{nm}` created outside the loop is stored on every iteration without a copy: the entries share one object", line=y.lineno))
                    elif kind:
                        n += 1
                        res.inst(fi.fq, short(y), "ok", detail="copied per insertion" if kind == "copied" else "a new dictionary per insertion")
    if n < 2:
        raise AnalysisError(f"R-ALIAS: only {n} per-atom / per-bond dictionary insertions recognised (idiom changed)")
    res.counts = {"insertion_sites": n}
    return res


# --------------------------------------------------------------------------- R-REJECT


def _guard_tests(fnode, target) -> list:
    """tests that decide whether `target` is executed: those of the enclosing if / while statements and those of earlier
    statements of the same blocks that leave (return / continue / break / raise) when they hold"""
    out = []

    def leaves(body):
        return bool(body) and isinstance(body[-1], (ast.Return, ast.Continue, ast.Break, ast.Raise))

    def walk(stmts):
        for i, st in enumerate(stmts):
            if st is target or any(x is target for x in ast.walk(st)):
                for prev in stmts[:i]:
                    if isinstance(prev, ast.If) and (leaves(prev.body) or leaves(prev.orelse)):
                        out.append(prev.test)
                if isinstance(st, (ast.If, ast.While)):
                    out.append(st.test)
                if isinstance(st, ast.Match):
                    out.append(st.subject)
                for fld in ("body", "orelse", "finalbody", "handlers", "cases"):
                    sub = getattr(st, fld, None)
                    if isinstance(sub, list):
                        for b_ in sub:
                            if isinstance(b_, (ast.ExceptHandler, ast.match_case)) and any(x is target for x in ast.walk(b_)):
                                if isinstance(b_, ast.ExceptHandler):
                                    out.append(("except", st, b_))
                                walk(b_.body)
                                return
                        if any(x is target for b_ in sub if isinstance(b_, ast.stmt) for x in ast.walk(b_)):
                            walk([b_ for b_ in sub if isinstance(b_, ast.stmt)])
                            return
                return
    walk(fnode.body)
    return out


@rule("R-REJECT")
def r_reject(ctx) -> RuleResult:
    res = RuleResult("R-REJECT", "the TUCAN parser rejects a grammatical string only for a missing atom index, a self-bond or a repeated attribute key: every raise in its own code is decided by indices / sizes, by the two end points of a bond, or by the key being set; none looks at attribute values, elements or counts")
    from ..origin import Map, OriginTyper, S, Seq, tags
    repo = ctx.repo
    lis = _listener_impl(ctx)
    exc = _parser_exception(ctx)
    free = [f for f in closure(ctx, "parse") if f.module.name == lis.module.name and f.cls is None]
    ent = entry(ctx, "parse")
    if ent not in free:
        free.append(ent)
    ot = OriginTyper(repo, lis, free)
    fis = list(lis.methods.values()) + free
    err_listeners = [ci for ci in lis.module.classes.values() if any(b.endswith("ErrorListener") for b in repo.base_names(ci))]
    seen_kinds = set()
    n_sites = 0

    def classify(f, node, depth=0):
        """-> (kind, detail); kind in INDEX / SELFBOND / DUPKEY / VALUE / KEYCONST / UNCOND / UNKNOWN"""
        tests = _guard_tests(f.node, node)
        if not tests:
            return "UNCOND", ""
        g = set()
        notes = []
        selfbond = False
        dupkey = False
        keyconst = None
        for t in tests:
            if isinstance(t, tuple) and t[0] == "except":
                # raise in an exception handler: what the guarded block looks up decides
                _, trystmt, _h = t
                for x in ast.walk(ast.Module(trystmt.body, [])):
                    if isinstance(x, ast.Subscript):
                        g |= set(tags(ot.guard_leaf(f, x.value))) | set(tags(ot.ty(f, x.slice)))
                    elif isinstance(x, ast.Call) and isinstance(x.func, ast.Name) and x.func.id == "int":
                        g |= {"?"}
                continue
            for c in ast.walk(t):
                if isinstance(c, ast.Compare) and len(c.ops) == 1:
                    l_, r_ = c.left, c.comparators[0]
                    tl, tr = ot.ty(f, l_), ot.ty(f, r_)
                    if isinstance(c.ops[0], (ast.Eq, ast.NotEq)) and tags(tl) - {"const"} == {"idx"} and tags(tr) - {"const"} == {"idx"} and isinstance(tl, S) and isinstance(tr, S):
                        selfbond = True
                    if isinstance(c.ops[0], (ast.In, ast.NotIn)) and isinstance(tr, Map) and not (tags(tr.k) - {"key", "const"}) and ("val" in tags(tr.v) or not tags(tr.v)):
                        if "key" in tags(tl):
                            dupkey = True
                        elif tags(tl) <= {"const"}:
                            keyconst = short(c, 50)
                if isinstance(c, ast.Call) and isinstance(c.func, ast.Attribute) and c.func.attr == "get" and c.args:
                    tr = ot.ty(f, c.func.value)
                    if isinstance(tr, Map) and not (tags(tr.k) - {"key", "const"}) and "key" in tags(ot.ty(f, c.args[0])):
                        dupkey = True
            # leaves of the test
            for leaf in _leaves(t):
                lt = ot.guard_leaf(f, leaf)
                g |= set(tags(lt))
                notes.append(f"{short(leaf, 25)}: {','.join(sorted(tags(lt))) or '-'}")
        g.discard("const")
        detail = "; ".join(dict.fromkeys(notes))[:200]
        if "?" in g and g & {"val", "elem", "fml"}:
            # a leaf whose origin the typing lost (it carries every tag): that it may come from a value is the analysis's
            # doing, not the code's
            return "UNKNOWN", detail
        if g & {"val", "elem", "fml"} and not (dupkey and not (g & {"elem", "fml"}) and _only_membership(tests)):
            if "idx" in g and not (g & {"val", "elem"}) and g <= {"idx", "cnt", "fml"}:
                return "INDEX", detail
            return "VALUE", detail
        if keyconst and not dupkey:
            return "KEYCONST", keyconst
        if "?" in g or "ctx" in g or "graph" in g:
            return "UNKNOWN", detail
        if selfbond and g <= {"idx"}:
            return "SELFBOND", detail
        if dupkey:
            return "DUPKEY", detail
        if "idx" in g and g <= {"idx", "cnt"}:
            return "INDEX", detail
        if not g:
            return "UNKNOWN", detail or "the test reads nothing this analysis can name"
        return "UNKNOWN", detail

    def _only_membership(tests):
        for t in tests:
            if isinstance(t, tuple):
                return False
            for c in ast.walk(t):
                if isinstance(c, ast.Subscript):
                    return False
                if isinstance(c, ast.Compare) and not all(isinstance(o, (ast.In, ast.NotIn, ast.Is, ast.IsNot)) for o in c.ops):
                    return False
        return True

    def _leaves(t):
        """operand expressions of a test (names, attributes, subscripts, calls) below boolean operators and comparisons"""
        if isinstance(t, ast.BoolOp):
            for v in t.values:
                yield from _leaves(v)
        elif isinstance(t, ast.UnaryOp):
            yield from _leaves(t.operand)
        elif isinstance(t, ast.Compare):
            for v in [t.left] + list(t.comparators):
                yield from _leaves(v)
        elif isinstance(t, ast.BinOp):
            yield from _leaves(t.left)
            yield from _leaves(t.right)
        elif isinstance(t, ast.NamedExpr):
            yield from _leaves(t.value)
        elif isinstance(t, ast.Constant):
            return
        else:
            yield t

    def raise_sites(f, depth=0, via=None):
        """(function, node, label) of every statement in f that raises: raise statements, and calls of helpers that always raise"""
        for n in own_walk(f.node):
            if isinstance(n, ast.Raise):
                yield f, n, short(n, 60)
            elif isinstance(n, ast.Call) and depth < 2:
                tgt = None
                if isinstance(n.func, ast.Attribute) and isinstance(n.func.value, ast.Name) and n.func.value.id == "self" and n.func.attr in lis.methods:
                    tgt = lis.methods[n.func.attr]
                elif isinstance(n.func, ast.Name):
                    tgt = next((x for x in free if x.name == n.func.id), None)
                if tgt is not None and tgt is not f and _always_raises(ctx, tgt, exc)[0] and not _guard_tests(tgt.node, next((r for r in own_walk(tgt.node) if isinstance(r, ast.Raise)), None) or tgt.node):
                    yield f, n, f"call of {tgt.name} (always raises)"

    for f in fis:
        if f.cls is not None and f.cls in err_listeners:
            continue
        for f_, n, label in raise_sites(f):
            # a helper that always raises is judged where it is called
            if isinstance(n, ast.Raise) and not _guard_tests(f.node, n) and _always_raises(ctx, f, exc)[0]:
                continue
            n_sites += 1
            kind, detail = classify(f_, n)
            if kind == "UNCOND":
                raise AnalysisError(f"R-REJECT: `{label}` in {f.qualname} is not under any test this analysis reads")
            if kind == "UNKNOWN":
                raise AnalysisError(f"R-REJECT: cannot tell what decides `{label}` in {f.qualname} ({detail})")
            ok = kind in ("INDEX", "SELFBOND", "DUPKEY")
            seen_kinds.add(kind)
            res.inst(f.fq, f"`{label}` is decided by {kind.lower()}", "ok" if ok else "fail", detail=detail)
            if not ok:
                what = "the value of an attribute, the element or the count of an atom" if kind == "VALUE" else f"which attribute is present (`{detail}`)"
                res.fail(Finding("R-REJECT", f.module.rel, f.qualname, norm(n)[:120],
                                 f"this rejection depends on {what}: strings of the grammar with existing indices, no self-bond and no repeated key are refused ({detail})", line=n.lineno))
    for ci in err_listeners:
        for m in ci.methods.values():
            if any(isinstance(x, ast.Raise) for x in own_walk(m.node)):
                res.inst(m.fq, "raise in a syntax-error listener (syntax errors)", "ok")
    for kind, what in (("SELFBOND", "a bond of an atom with itself"), ("INDEX", "an index that names no atom"), ("DUPKEY", "an attribute key set twice on one atom")):
        ok = kind in seen_kinds
        res.inst(lis.fq, f"some raise is decided by {kind.lower()}", "ok" if ok else "fail")
        if not ok:
            res.fail(Finding("R-REJECT", lis.module.rel, lis.name, f"no rejection of {what}", f"no raise in the parser's own code is decided by {kind.lower()}: {what} is accepted", line=lis.node.lineno))
    if n_sites < 3:
        raise AnalysisError(f"R-REJECT: only {n_sites} raise sites found in the parser's own code")
    res.counts = {"raise_sites": n_sites, "kinds": sorted(seen_kinds)}
    return res


# --------------------------------------------------------------------------- R-PARSEPATH


@rule("R-PARSEPATH")
def r_parsepath(ctx) -> RuleResult:
    res = RuleResult("R-PARSEPATH", "graph_from_tucan hands back a graph only on paths that went through the generated parser's start rule: nothing else decides what is accepted")
    from ..gram import grammars
    ent = entry(ctx, "parse")
    G = grammars(ctx)
    start = "tucan" if "tucan" in G.g4 else next(iter(G.g4))
    fn = ent.node
    cfg = cfg_of(fn)

    def reaches_start(f, node, depth=0) -> bool:
        """does evaluating `node` (in f) always call the parser's start rule?  The call itself, or a call of a repository
        function on every path of which the start rule is called"""
        for x in ast.walk(node):
            if isinstance(x, ast.Call) and isinstance(x.func, ast.Attribute) and x.func.attr == start and not x.args:
                return True
        if depth > 3:
            return False
        for x in ast.walk(node):
            if isinstance(x, ast.Call):
                cs = ctx.cg.resolve_call(f, x, ctx.cg.local_types(f), set(params_of(f.node)))
                if cs.kind == "tucan":
                    h = cs.target
                    c2 = cfg_of(h.node)
                    pn = [c2.stmt_node_containing(y) for y in own_walk(h.node) if isinstance(y, ast.stmt) and y is not h.node and reaches_start(h, y, depth + 1) and not isinstance(y, (ast.If, ast.For, ast.While, ast.Try, ast.With))]
                    pn = [p for p in pn if p is not None]
                    if pn and c2.path_avoiding(c2.ENTRY, c2.EXIT, pn) is None:
                        return True
        return False
    parse_nodes = []
    parse_stmts = []
    for st in own_walk(fn):
        if isinstance(st, ast.stmt) and st is not fn and not isinstance(st, (ast.If, ast.For, ast.While, ast.Try, ast.With, ast.FunctionDef)) and reaches_start(ent, st):
            n = cfg.node_of(st) if cfg.node_of(st) is not None else cfg.stmt_node_containing(st)
            if n is not None:
                parse_nodes.append(n)
                parse_stmts.append(st)
    if not parse_nodes:
        raise AnalysisError(f"R-PARSEPATH: no statement of graph_from_tucan calls the start rule `{start}` of the generated parser (directly or through a helper)")
    rets = [r for r in own_walk(fn) if isinstance(r, ast.Return) and r.value is not None]
    bad = None
    for r in rets:
        rn = cfg.node_of(r)
        if rn in parse_nodes:
            continue
        p = cfg.path_avoiding(cfg.ENTRY, rn, parse_nodes)
        if p is not None:
            bad = (r, p)
            break
    if bad:
        # a second way to a graph exists.  It is a defect if it takes a string the grammar does not have (or refuses one the
        # serializer writes): the entry point is followed on sample strings around the edge of the grammar's language.
        r, p = bad
        wit, n_in, n_out = _bypass_witness(ctx, ent, parse_stmts, G, start)
        res.counts = {"parse_statements": len(parse_nodes), "returns": len(rets), "sample_strings_outside_grammar": n_out, "sample_strings_inside_grammar": n_in}
        if wit is None:
            raise AnalysisError(f"R-PARSEPATH: `{short(r, 40)}` can be reached without running the generated parser's start rule `{start}` "
                                f"({' ; '.join(cfg.describe(x) for x in p[1:])[:160]}); on {n_out} sample strings outside the grammar and {n_in} inside it that way "
                                "agrees with the grammar, which does not show that it always does")
        res.inst(ent.fq, f"every `return <graph>` is reached only through {len(parse_nodes)} statement(s) that run the start rule `{start}`", "fail")
        res.fail(Finding("R-PARSEPATH", ent.module.rel, ent.qualname, "path: " + " ; ".join(cfg.describe(x) for x in p[1:])[:300],
                         f"a graph is handed back on a path that never runs the generated parser's start rule `{start}`, and that path does not keep to the grammar: {wit}", line=r.lineno))
        return res
    res.inst(ent.fq, f"every `return <graph>` is reached only through {len(parse_nodes)} statement(s) that run the start rule `{start}`", "ok")
    res.counts = {"parse_statements": len(parse_nodes), "returns": len(rets)}
    return res


_BASE_STRINGS = ["/", "CH4/", "ClH/", "CHCl3/(1-2)(1-3)(1-4)(1-5)", "C2H6O/(1-2)(2-3)(1-4)(1-5)(1-6)(2-7)(2-8)(3-9)", "H2O/(1-3)(2-3)/(1:mass=2)",
                 "C2H6O/(1-2)(2-3)/(1:mass=13)(2:rad=3,mass=14)", "He//(1:mass=3)", "BrClFI/", "C12H26/(1-2)(2-13)(10-11)", "CBr4/(1-2)(1-3)(1-4)(1-5)", "H2/(1-2)"]


def _edge_strings(det) -> tuple[list[str], list[str]]:
    """sample strings: the base strings (inside the grammar's language) and their one-step changes that are outside it"""
    import re as _re
    out, seen = [], set()

    def add(x):
        if x not in seen and not det.accepts(x):
            seen.add(x)
            out.append(x)
    for b in _BASE_STRINGS:
        if not det.accepts(b):
            continue
        formula, _, rest = b.partition("/")
        els = _re.findall(r"[A-Z][a-z]?[0-9]*", formula)
        # order and repetition of the elements
        for i in range(len(els) - 1):
            add("".join(els[:i] + [els[i + 1], els[i]] + els[i + 2:]) + "/" + rest)
        for i in range(len(els)):
            add("".join(els[:i + 1] + [els[i]] + els[i + 1:]) + "/" + rest)
            sym = _re.match(r"[A-Z][a-z]?", els[i]).group()
            for cnt in ("1", "0", "01", "02"):
                add("".join(els[:i] + [sym + cnt] + els[i + 1:]) + "/" + rest)
            add("".join(els[:i] + [els[i].lower()] + els[i + 1:]) + "/" + rest)
            add("".join(els[:i] + [els[i].upper()] + els[i + 1:]) + "/" + rest if els[i].upper() != els[i] else b + " ")
        if els:
            add("".join(els[1:] + els[:1]) + "/" + rest)
            add("".join(reversed(els)) + "/" + rest)
            add("".join(sorted(els, key=lambda e_: _re.match(r"[A-Z][a-z]?", e_).group())) + "/" + rest)
        add("Xx" + b)
        add("J" + b)
        # characters around the string and inside it
        for extra in ("\n", " ", "/", "x", ")", "("):
            add(b + extra)
            add(extra + b)
        add(b.replace("/", "", 1))
        add(b.replace("/", " /", 1))
        add(b.replace("(", "( ", 1))
        add(b.replace("-", " - ", 1))
        add(b.replace("(", "", 1))
        add(b.replace(")", "", 1))
        add(b.replace(")(", ")()(", 1))
        add(b.replace(")(", "),(", 1))
        # numbers
        for m in _re.finditer(r"[0-9]+", rest):
            a0, a1 = m.span()
            a0 += len(formula) + 1
            a1 += len(formula) + 1
            for repl in ("0", "0" + m.group(), "-" + m.group(), "+" + m.group(), m.group() + ".0", ""):
                add(b[:a0] + repl + b[a1:])
        # attribute keys and separators
        for k in ("mass", "rad"):
            if k + "=" in b:
                for repl in ("chg=", k.upper() + "=", k + ":", k + " = ", k + "==", "iso=", k[:-1] + "="):
                    add(b.replace(k + "=", repl, 1))
        add(b.replace(":", "=", 1))
        add(b.replace(",", ";", 1))
        add(b.replace(",", ",,", 1))
    inside = [b for b in _BASE_STRINGS if det.accepts(b)]
    return inside, out


def _bypass_witness(ctx, ent, parse_stmts, G, start):
    """follow graph_from_tucan on sample strings with the statements that run the generated parser cut out (a path that
    arrives there is the grammar's business).  -> (description of the first sample on which the other way hands back a graph
    for a string outside the grammar, or raises for a base string inside it; number of samples inside; number outside)"""
    import re as _re
    from ..concrete import UNKNOWN, Opaque, PathEval, PState, _Unknown
    from ..gram import det_of
    from .readers import regex_of
    det = det_of(G.ebnf, start, (), charlevel=True)
    inside, outside = _edge_strings(det)
    if len(inside) < 8 or len(outside) < 100:
        raise AnalysisError(f"R-PARSEPATH: only {len(inside)} / {len(outside)} sample strings inside / outside the grammar (the grammar changed beyond what the samples were made for)")

    def consts_of(f_):
        out_ = {}
        for nm in {x.id for x in ast.walk(f_.node) if isinstance(x, ast.Name)}:
            if nm in params_of(f_.node):
                continue
            v = try_const(ctx, f_, ast.Name(nm, ast.Load()), default=None)
            if v is not None:
                out_.setdefault(nm, v)
            else:
                pat = regex_of(ctx, f_, ast.Name(nm, ast.Load()))
                if pat is not None:
                    try:
                        out_.setdefault(nm, _re.compile(pat))
                    except _re.error:
                        pass
        return out_
    calls, classes = {}, set()
    for f_ in ent.module.functions.values():
        if f_.cls is None and "." not in f_.qualname and f_.fq != ent.fq:
            calls[f_.name] = (f_.node, consts_of(f_))
    for nm in {x.id for x in ast.walk(ent.module.tree) if isinstance(x, ast.Name)}:
        r_ = ctx.repo.resolve_dotted(ent.module, ast.Name(nm, ast.Load()))
        if r_ and r_[0] == "class":
            classes.add(nm)
    ps = params_of(ent.node)
    if len(ps) != 1:
        raise AnalysisError(f"R-PARSEPATH: {ent.qualname} no longer takes the string alone")

    def outcome(text):
        pe = PathEval(calls)
        pe.opaque_classes = classes
        pe.stop = {id(st_): "parse" for st_ in parse_stmts}
        env = consts_of(ent)
        env[ps[0]] = text
        falls, lefts = pe.block(ent.node.body, [PState(env)])
        hows = {how for _s, how, _v in lefts} | ({"falls"} if falls else set())
        return hows, pe.gaps
    # the evaluator must be able to follow the other way at all: a base string has to come out as 'return' or 'stop:parse'
    for text in outside:
        hows, gaps = outcome(text)
        if hows == {"return"}:
            return (f"the string {text!r} is not in the grammar's language, yet `{ent.name}` hands back a graph for it without asking the parser"
                    + (f" (not read on the way: {gaps[0]})" if gaps else "")), len(inside), len(outside)
    for text in inside:
        hows, gaps = outcome(text)
        if hows == {"raise"} and not gaps:
            return f"the string {text!r} is in the grammar's language and names a molecule, yet it is rejected before the parser is asked", len(inside), len(outside)
    return None, len(inside), len(outside)
