"""Structural rules that need only the program model, call graph and CFGs:
R-NOREC, R-GLOBAL, R-COPY, R-NONDET, R-SEED, R-RETRY, R-CARRY, R-LABELORDER,
R-FIXPOINT, R-OWNFIRST."""
from __future__ import annotations

import ast
from typing import Optional

from ..cfg import cfg_of
from ..model import AnalysisError, FuncInfo, NotConst, Repo, norm, short
from ..report import Finding, RuleResult
from . import rule
from .common import (PUBLIC, all_public_closure, assigned_names, closure, entry, ext_calls, kwarg, names_in, own_walk,
                     params_of, single_def, sites, strip_wrappers, try_const)

# --------------------------------------------------------------------------- R-NOREC


def _address_taken(ctx) -> set[str]:
    """tucan functions referenced as values (not as the callee of a call): possible
    targets of indirect calls"""
    out = set()
    for fi in ctx.cg.funcs.values():
        callee_ids = {id(c.func) for c in own_walk(fi.node) if isinstance(c, ast.Call)}
        for n in own_walk(fi.node):
            if isinstance(n, (ast.Name, ast.Attribute)) and id(n) not in callee_ids and isinstance(getattr(n, "ctx", None), ast.Load):
                if isinstance(n, ast.Attribute) and isinstance(n.value, ast.Name) and n.value.id == "self":
                    if fi.cls is not None:
                        m = ctx.repo.mro_method(fi.cls, n.attr)
                        if m is not None:
                            out.add(m.fq)
                    continue
                if isinstance(n, ast.Name) and n.id in params_of(fi.node):
                    continue
                r = ctx.repo.resolve_dotted(fi.module, n)
                if r and r[0] == "func":
                    out.add(r[1].fq)
    return out


def _param_targets(ctx, fi: FuncInfo, pname: str, taken: set, depth=0) -> Optional[set]:
    """tucan functions that can be bound to parameter `pname` of fi, from the arguments at fi's call sites
    (builtins, classes, library functions and lambdas contribute nothing); None when this cannot be told"""
    cg = ctx.cg
    if depth > 4 or fi.fq in taken:
        return None             # fi itself is passed around: it may be called with anything
    callers = cg.callers_of(fi.fq)
    if not callers:
        return None
    names = [a.arg for a in fi.node.args.posonlyargs + fi.node.args.args]
    if pname not in names:
        return None
    idx = names.index(pname) - (1 if fi.cls is not None else 0)
    out: set = set()

    def classify(caller: FuncInfo, arg) -> Optional[set]:
        if isinstance(arg, ast.Lambda):
            return set()
        if isinstance(arg, ast.Constant):
            return set()
        if isinstance(arg, ast.Call) and norm(arg.func).split(".")[-1] == "partial" and arg.args:
            return classify(caller, arg.args[0])
        if isinstance(arg, ast.Name) and arg.id in params_of(caller.node):
            return _param_targets(ctx, caller, arg.id, taken, depth + 1)
        if isinstance(arg, (ast.Name, ast.Attribute)):
            r = ctx.repo.resolve_dotted(caller.module, arg)
            if r is None:
                return None
            return {r[1].fq} if r[0] == "func" else set() if r[0] in ("builtin", "ext", "class") else None
        return None
    for cs in callers:
        arg = cs.node.args[idx] if 0 <= idx < len(cs.node.args) and not any(isinstance(a, ast.Starred) for a in cs.node.args) else None
        for k in cs.node.keywords:
            if k.arg == pname:
                arg = k.value
        if arg is None:
            d = fi.node.args.defaults
            di = names.index(pname) - (len(names) - len(d))
            if 0 <= di < len(d):
                arg = d[di]
                got = classify(fi, arg)
            else:
                return None
        else:
            got = classify(cs.caller, arg)
        if got is None:
            return None
        out |= got
    return out


def recursion_findings(ctx, fqs: list[str]) -> list[list[str]]:
    cg = ctx.cg
    edges = {q: set(cg.edges.get(q, ())) for q in fqs}
    taken = _address_taken(ctx)
    for q in fqs:
        for cs in cg.sites.get(q, []):
            if cs.kind == "param":
                tg = _param_targets(ctx, cg.funcs[q], cs.target, taken)
                edges[q] |= taken if tg is None else tg
            elif cs.kind == "unknown":
                edges[q] |= taken      # an indirect call may reach any address-taken tucan function
    saved = cg.edges
    cg.edges = {**saved, **edges}
    try:
        return cg.sccs(fqs)
    finally:
        cg.edges = saved


def _descends_into_one_value(ctx, fi) -> bool:
    """every call of the function to itself passes a member of one of its own parameters (the variable of a loop or
    comprehension over that parameter itself), and nothing else: a conversion of a nested attribute value"""
    ps = set(params_of(fi.node))
    members = set()
    for n in own_walk(fi.node):
        if isinstance(n, ast.comprehension) and isinstance(n.iter, ast.Name) and n.iter.id in ps and isinstance(n.target, ast.Name):
            members.add(n.target.id)
        elif isinstance(n, ast.For) and isinstance(n.iter, ast.Name) and n.iter.id in ps and isinstance(n.target, ast.Name):
            members.add(n.target.id)
    rebound = {t for t, defs in assigned_names(fi.node).items()} & (ps | members)
    calls = [cs for cs in ctx.cg.sites.get(fi.fq, []) if cs.kind == "tucan" and cs.target.fq == fi.fq]
    if not calls or rebound - members:
        return False
    if any(cs.kind in ("param", "unknown") for cs in ctx.cg.sites.get(fi.fq, [])):
        return False
    return all(len(cs.node.args) == 1 and not cs.node.keywords and isinstance(cs.node.args[0], ast.Name) and cs.node.args[0].id in members for cs in calls)


_FIXTURE_NOREC = '''
def _fx_a(n):
    return _fx_b(n - 1) if n else 0

def _fx_b(n):
    return _fx_a(n)
'''


@rule("R-NOREC")
def r_norec(ctx) -> RuleResult:
    res = RuleResult("R-NOREC", "no call-graph cycle among tucan functions reachable from the public entry points (recursion depth would grow with the input)")
    fis = all_public_closure(ctx)
    fqs = [f.fq for f in fis]
    cycles = recursion_findings(ctx, fqs)
    nested = [c for c in cycles if len(c) == 1 and _descends_into_one_value(ctx, ctx.cg.funcs[c[0]])]
    cycles = [c for c in cycles if c not in nested]
    for c in nested:
        res.inst(c[0], "calls itself only on the members of its own argument: depth = how deeply that one value is nested, not the size of the molecule", "ok")
    for f in fis:
        incyc = [c for c in cycles if f.fq in c]
        res.inst(f.fq, "not on a call cycle", "fail" if incyc else "ok")
    for c in cycles:
        fi = ctx.cg.funcs[c[0]]
        # name the call expression that closes the cycle
        site = next((cs for cs in ctx.cg.sites[c[0]] if cs.kind == "tucan" and cs.target.fq in c), None)
        node = site.node if site else fi.node
        res.fail(Finding("R-NOREC", fi.module.rel, fi.qualname, " -> ".join(x.split(".", 1)[1] for x in c + [c[0]]),
                         "recursive call cycle reachable from a public entry point; its depth is input dependent "
                         "(refinement rounds / graph size), so large inputs end in RecursionError",
                         line=getattr(node, "lineno", None), extra={"call": short(node)}))
    # positive fixture: the detector must see a planted cycle on every run
    fx = Repo(ctx.repo.root, {**ctx.repo.overlay, "tucan/_tsa_fixture_norec.py": _FIXTURE_NOREC})
    fcg = fx.callgraph()
    planted = fcg.sccs([q for q in fcg.funcs if "_tsa_fixture_norec" in q])
    if not planted:
        raise AnalysisError("R-NOREC self-test: planted recursion fixture not detected")
    res.counts = {"functions_in_public_closure": len(fis), "cycles": len(cycles), "fixture_cycles_detected": len(planted)}
    res.notes.append("indirect calls are resolved to every address-taken tucan function (none today)")
    return res


# --------------------------------------------------------------------------- R-GLOBAL

MUTATORS = {"append", "extend", "insert", "pop", "popitem", "remove", "clear", "update", "setdefault", "add", "discard",
            "sort", "reverse", "appendleft", "extendleft", "popleft", "__setitem__", "__delitem__"}
MUTABLE_CTORS = {"list", "dict", "set", "deque", "Counter", "defaultdict", "bytearray"}


def _is_mutable_literal(e: ast.expr) -> bool:
    if isinstance(e, (ast.List, ast.Dict, ast.Set, ast.ListComp, ast.DictComp, ast.SetComp)):
        return True
    if isinstance(e, ast.Call) and isinstance(e.func, ast.Name) and e.func.id in MUTABLE_CTORS:
        return True
    return False


def _root_name(e: ast.expr) -> Optional[str]:
    while isinstance(e, (ast.Subscript, ast.Attribute)):
        e = e.value
    return e.id if isinstance(e, ast.Name) else None


@rule("R-GLOBAL")
def r_global(ctx) -> RuleResult:
    res = RuleResult("R-GLOBAL", "no global/nonlocal, no store to module or class attributes, no mutation of module-level containers, mutable defaults or class-level containers from function bodies")
    fis = [f for f in ctx.cg.funcs.values() if f.module.name not in ("tucan.visualization",)]
    n_sites = _global_scan(ctx, res, fis)
    # positive fixture: planted shared-state writes must be seen on every run
    fx_src = "CACHE = {}\n\ndef _fx(k, acc=[]):\n    CACHE[k] = 1\n    acc.append(k)\n    return acc\n"
    fx = Repo(ctx.repo.root, {**ctx.repo.overlay, "tucan/_tsa_fixture_global.py": fx_src})
    sub = type(ctx)(fx, ctx.tier)
    fres = RuleResult("fixture")
    _global_scan(sub, fres, [fx.func("tucan._tsa_fixture_global._fx")])
    if len(fres.findings) < 2:
        raise AnalysisError("R-GLOBAL self-test: planted shared-state writes not detected")
    res.counts.update({"functions": len(fis), "store_and_mutator_sites": n_sites, "fixture_hits": len(fres.findings)})
    return res


def _global_scan(ctx, res: RuleResult, fis) -> int:
    repo = ctx.repo
    n_sites = 0
    for fi in fis:
        fn = fi.node
        params = set(params_of(fn))
        local = set(assigned_names(fn)) | params
        # aliases of module-level objects: x = MODULE_NAME
        alias: dict[str, tuple] = {}
        for n in own_walk(fn):
            if isinstance(n, ast.Assign) and len(n.targets) == 1 and isinstance(n.targets[0], ast.Name):
                src = n.value
                # x = TABLE.get(k, default) / TABLE.setdefault(..) / TABLE[k]: x may be an element of the module-level table
                if isinstance(src, ast.Call) and isinstance(src.func, ast.Attribute) and src.func.attr in ("get", "setdefault", "pop", "values", "items"):
                    src = src.func.value
                rn = _root_name(src) if isinstance(src, (ast.Name, ast.Subscript, ast.Attribute)) else None
                if rn and rn not in local:
                    r = repo.resolve(fi.module, rn)
                    if r and r[0] == "const":
                        alias[n.targets[0].id] = r

        def module_object(name: str):
            if name in alias:
                return alias[name]
            if name in local:
                return None
            r = repo.resolve(fi.module, name)
            if r and r[0] == "const":
                return r
            return None

        def mutable_default(name: str):
            a = fn.args
            pos = a.posonlyargs + a.args
            for p, d in zip(pos[len(pos) - len(a.defaults):], a.defaults):
                if p.arg == name and _is_mutable_literal(d):
                    return d
            for p, d in zip(a.kwonlyargs, a.kw_defaults):
                if d is not None and p.arg == name and _is_mutable_literal(d):
                    return d
            return None

        def class_level(e: ast.expr):
            # self.X / cls.X / Class.X where X is assigned a mutable literal in the class body
            if isinstance(e, ast.Attribute) and isinstance(e.value, ast.Name) and fi.cls is not None:
                owner = e.value.id
                first = fn.args.args[0].arg if fn.args.args else None
                if owner == first or owner == fi.cls.name:
                    for st in fi.cls.node.body:
                        if isinstance(st, (ast.Assign, ast.AnnAssign)):
                            tg = st.targets[0] if isinstance(st, ast.Assign) else st.target
                            if isinstance(tg, ast.Name) and tg.id == e.attr and st.value is not None and _is_mutable_literal(st.value):
                                # instance attribute of the same name assigned in __init__ shadows it
                                init = fi.cls.methods.get("__init__")
                                if init and any(isinstance(x, ast.Attribute) and isinstance(x.ctx, ast.Store) and x.attr == e.attr
                                                for x in ast.walk(init.node)):
                                    return None
                                return st
            return None

        bad: list[tuple[ast.AST, str]] = []
        for dec in fn.decorator_list:
            dn = norm(dec.func if isinstance(dec, ast.Call) else dec)
            if dn.split(".")[-1] in ("lru_cache", "cache", "cached_property", "memoize", "memoized"):
                # harmless when the function maps immutable scalars to an immutable scalar: every parameter and the result
                # annotated str / int / float / bool / bytes (no object a caller could change or empty)
                scalar = ("str", "int", "float", "bool", "bytes")
                all_params = fn.args.posonlyargs + fn.args.args + fn.args.kwonlyargs
                if dn.split(".")[-1] in ("lru_cache", "cache") and fi.cls is None and all_params and not fn.args.vararg and not fn.args.kwarg \
                        and all(a.annotation is not None and norm(a.annotation) in scalar for a in all_params) \
                        and fn.returns is not None and norm(fn.returns) in scalar \
                        and not any(isinstance(x, (ast.Global, ast.Nonlocal)) for x in ast.walk(fn)):
                    continue
                bad.append((dec, f"`@{dn}` keeps results (keyed by argument identity/equality) across calls: a later call can see objects an earlier call created or emptied"))
        for n in own_walk(fn):
            if isinstance(n, (ast.Global, ast.Nonlocal)):
                bad.append((n, f"`{norm(n)}`: function rebinds shared state"))
            tgts = []
            if isinstance(n, ast.Assign):
                tgts = n.targets
            elif isinstance(n, (ast.AugAssign, ast.AnnAssign)):
                tgts = [n.target]
            elif isinstance(n, ast.Delete):
                tgts = n.targets
            for t in tgts:
                for sub in ([t] if not isinstance(t, (ast.Tuple, ast.List)) else t.elts):
                    if isinstance(sub, (ast.Subscript, ast.Attribute)):
                        n_sites += 1
                        rn = _root_name(sub)
                        if rn:
                            mo = module_object(rn)
                            if mo is not None:
                                bad.append((n, f"store into module-level object {mo[1].name}.{mo[2]}"))
                            r = repo.resolve(fi.module, rn) if rn not in local else None
                            if r and r[0] in ("mod", "class", "extmod"):
                                bad.append((n, f"store to an attribute of {r[0]} {rn}"))
                            if isinstance(sub, ast.Subscript) and mutable_default(rn) is not None:
                                bad.append((n, f"store into mutable default argument {rn}"))
                        base = sub.value if isinstance(sub, ast.Subscript) else None
                        if base is not None and class_level(base) is not None:
                            bad.append((n, f"store into class-level container {norm(base)}"))
                    elif isinstance(sub, ast.Name) and isinstance(n, ast.AugAssign):
                        mo = module_object(sub.id) if sub.id not in local - set(alias) else None
                        if sub.id in alias and isinstance(n.op, (ast.Add, ast.BitOr)):
                            bad.append((n, f"in-place update of module-level object via alias {sub.id}"))
            if isinstance(n, ast.Call) and isinstance(n.func, ast.Attribute) and n.func.attr in MUTATORS:
                n_sites += 1
                recv = n.func.value
                rn = _root_name(recv)
                if rn:
                    mo = module_object(rn)
                    if mo is not None:
                        bad.append((n, f"`.{n.func.attr}()` mutates module-level object {mo[1].name}.{mo[2]}"))
                    if isinstance(recv, ast.Name) and mutable_default(rn) is not None:
                        bad.append((n, f"`.{n.func.attr}()` mutates mutable default argument {rn}"))
                if class_level(recv) is not None:
                    bad.append((n, f"`.{n.func.attr}()` mutates class-level container {norm(recv)}"))
        res.inst(fi.fq, "no shared-state write", "fail" if bad else "ok")
        for n, msg in bad:
            res.fail(Finding("R-GLOBAL", fi.module.rel, fi.qualname, norm(n), msg, line=getattr(n, "lineno", None)))
    return n_sites


# --------------------------------------------------------------------------- R-COPY


def _fresh_graph_expr(ctx, fi: FuncInfo, e: ast.expr, depth=0) -> bool:
    """expression certainly denotes a graph object created inside this call"""
    if depth > 4:
        return False
    if isinstance(e, ast.Call):
        r = ctx.repo.resolve_dotted(fi.module, e.func)
        if r and r[0] == "ext" and r[1] in ("networkx.Graph", "networkx.convert_node_labels_to_integers"):
            return True
        if r and r[0] == "ext" and r[1] == "networkx.relabel_nodes":
            c = kwarg(e, "copy")
            return c is None or (isinstance(c, ast.Constant) and c.value is True)
        if isinstance(e.func, ast.Attribute) and e.func.attr == "copy" and not e.args:
            return True
        if r and r[0] == "func":
            rets = [n.value for n in own_walk(r[1].node) if isinstance(n, ast.Return) and n.value is not None]
            return bool(rets) and all(_fresh_graph_expr(ctx, r[1], x, depth + 1) for x in rets)
        return False
    if isinstance(e, ast.Name):
        d = single_def(fi.node, e.id)
        return d is not None and _fresh_graph_expr(ctx, fi, d, depth + 1)
    return False


@rule("R-COPY")
def r_copy(ctx) -> RuleResult:
    res = RuleResult("R-COPY", "every nx.relabel_nodes / convert_node_labels_to_integers in a public closure works on a copy (copy=True literal or default) or on a provably fresh graph")
    fis = all_public_closure(ctx)
    n = 0
    for cs in ext_calls(ctx, fis, names={"networkx.relabel_nodes"}):
        n += 1
        c = kwarg(cs.node, "copy")
        if c is None and len(cs.node.args) >= 3:
            c = cs.node.args[2]
        ok = c is None or (isinstance(c, ast.Constant) and c.value is True)
        if not ok:
            ok = bool(cs.node.args) and _fresh_graph_expr(ctx, cs.caller, cs.node.args[0])
        res.inst(cs.caller.fq, short(cs.node), "ok" if ok else "fail")
        if not ok:
            res.fail(Finding("R-COPY", cs.caller.module.rel, cs.caller.qualname, norm(cs.node),
                             "relabel_nodes with copy not provably True on a graph that is not provably fresh: the caller's graph is renamed in place",
                             line=cs.node.lineno))
    if n == 0:
        raise AnalysisError("R-COPY: no relabel_nodes site found in the public closures (anchor vanished)")
    res.counts = {"relabel_sites": n}
    res.trusted = ["networkx.relabel_nodes default copy=True (re-derived from the installed source in the thorough tier)"]
    return res


# --------------------------------------------------------------------------- R-NONDET / R-SEED

NONDET_PREFIX = ("random.", "secrets.", "uuid.", "numpy.random.")
NONDET_NAMES = {"time.time", "time.time_ns", "time.monotonic", "time.perf_counter", "time.process_time", "time.localtime",
                "time.gmtime", "time.ctime", "time.strftime", "datetime.datetime.now", "datetime.datetime.utcnow",
                "datetime.datetime.today", "datetime.date.today", "os.urandom", "os.getpid", "os.getenv", "os.environ.get",
                "os.times", "os.getcwd", "threading.get_ident", "platform.node", "socket.gethostname"}
NONDET_BUILTINS = {"id", "hash", "input"}
RNG_STATE_SETTERS = {"random.seed"}
CLOCK = {"datetime.datetime.now", "datetime.datetime.utcnow", "datetime.datetime.today", "datetime.date.today",
         "time.time", "time.localtime", "time.strftime", "time.gmtime", "time.ctime"}


# igraph methods that start from random positions / make random choices (igraph reference manual: layout_auto picks
# Fruchterman-Reingold or DrL for graphs that are not small and connected); they draw from Python's global `random`
IGRAPH_RANDOM_METHODS = {"layout_auto", "layout_drl", "layout_fruchterman_reingold", "layout_fruchterman_reingold_3d", "layout_grid_fruchterman_reingold",
                         "layout_graphopt", "layout_lgl", "layout_random", "layout_random_3d", "layout_davidson_harel", "layout_umap",
                         "community_label_propagation", "community_multilevel", "community_leiden", "community_infomap", "community_spinglass",
                         "rewire", "rewire_edges"}
IGRAPH_RANDOM_LAYOUT_NAMES = {"auto", "automatic", "drl", "fr", "fruchterman_reingold", "fr3d", "grid_fr", "graphopt", "lgl", "random", "random_3d", "dh", "davidson_harel", "umap"}


def nx_random_functions(ctx) -> dict:
    """name -> seed parameter (name or position) of the functions of the installed networkx that take a random state
    (decorated with np_random_state / py_random_state in its source): called without a seed they draw from the global
    generators"""
    if "nx_random_functions" in ctx.cache:
        return ctx.cache["nx_random_functions"]
    import pathlib
    import sys
    out = {}
    root = next((pathlib.Path(p) / "networkx" for p in sys.path if p and (pathlib.Path(p) / "networkx" / "__init__.py").is_file()), None)
    if root is not None:
        for f in root.rglob("*.py"):
            if "tests" in f.parts:
                continue
            try:
                src = f.read_text()
            except OSError:
                continue
            if "random_state" not in src:
                continue
            try:
                tree = ast.parse(src)
            except SyntaxError:
                continue
            for fn in ast.walk(tree):
                if isinstance(fn, ast.FunctionDef):
                    for d in fn.decorator_list:
                        if isinstance(d, ast.Call) and norm(d.func).split(".")[-1] in ("np_random_state", "py_random_state") and d.args and isinstance(d.args[0], ast.Constant):
                            a = d.args[0].value
                            names = [x.arg for x in fn.args.posonlyargs + fn.args.args]
                            out[fn.name] = (a if isinstance(a, str) else (names[a] if isinstance(a, int) and a < len(names) else "seed"), a if isinstance(a, int) else (names.index(a) if a in names else None))
    ctx.cache["nx_random_functions"] = out
    return out


def nondet_source(ctx, fi: FuncInfo, n: ast.AST) -> Optional[str]:
    if isinstance(n, ast.Call):
        r = ctx.repo.resolve_dotted(fi.module, n.func)
        if r and r[0] == "ext" and r[1].startswith("networkx."):
            nm = r[1].split(".")[-1]
            rf = nx_random_functions(ctx)
            if nm in rf:
                pname, ppos = rf[nm]
                sv = kwarg(n, pname)
                if sv is None and ppos is not None and ppos < len(n.args):
                    sv = n.args[ppos]
                if sv is None or (isinstance(sv, ast.Constant) and sv.value is None):
                    return f"{r[1]} without a seed (draws from the global random state)"
        if isinstance(n.func, ast.Attribute) and n.func.attr in IGRAPH_RANDOM_METHODS and not (r and r[0] in ("func", "class")):
            return f"igraph {n.func.attr} (starts from random positions / random choices)"
        if isinstance(n.func, ast.Attribute) and n.func.attr == "layout" and n.args and isinstance(n.args[0], ast.Constant) and n.args[0].value in IGRAPH_RANDOM_LAYOUT_NAMES:
            return f"igraph layout({n.args[0].value!r}) (starts from random positions)"
        if r and r[0] == "ext":
            q = r[1]
            if q in RNG_STATE_SETTERS:
                return None
            if q in ("random.Random", "numpy.random.default_rng", "numpy.random.RandomState"):
                return None if RngModel(ctx).gen_kind(fi, n) == "seeded" else q
            if q.startswith(NONDET_PREFIX) or q in NONDET_NAMES:
                return q
        if r and r[0] == "builtin" and r[1] in NONDET_BUILTINS:
            return r[1]
        if isinstance(n.func, ast.Attribute) and n.func.attr in RNG_METHODS and isinstance(n.func.value, ast.Name):
            k = RngModel(ctx).gen_kind(fi, n.func.value)
            if k in ("global", "unseeded"):
                return f"random.{n.func.attr}"
            if k and k.startswith("param:"):
                # a generator handed in by the callers: a source unless every call site passes a seeded generator
                M = RngModel(ctx)
                p = k[6:]
                tp = params_of(fi.node)
                for cs in ctx.cg.callers_of(fi.fq):
                    idx = tp.index(p) - (1 if fi.cls is not None and isinstance(cs.node.func, ast.Attribute) else 0)
                    arg = cs.node.args[idx] if 0 <= idx < len(cs.node.args) else kwarg(cs.node, p)
                    ka = M.gen_kind(cs.caller, arg) if arg is not None else "global"
                    if ka != "seeded" and not (ka or "").startswith("param:"):
                        return f"random.{n.func.attr}"
                return None
    if isinstance(n, (ast.Attribute, ast.Subscript)):
        base = n.value if isinstance(n, ast.Subscript) else n
        r = ctx.repo.resolve_dotted(fi.module, base) if isinstance(base, (ast.Name, ast.Attribute)) else None
        if r and r[0] == "ext" and r[1] in ("os.environ", "sys.argv", "sys.flags.hash_randomization"):
            return r[1]
    return None


class NondetFlow:
    """may-flow of nondeterministic values inside one function, with
    interprocedural summaries (returns-nondet, taints-parameter)."""

    SINK_EXEMPT_CALLS = {"print", "logging.debug", "logging.info", "logging.warning", "logging.error", "warnings.warn"}

    def __init__(self, ctx):
        self.ctx = ctx
        self.summ: dict[str, dict] = {}
        self.stack: set[str] = set()

    def summary(self, fi: FuncInfo) -> dict:
        if fi.fq in self.summ:
            return self.summ[fi.fq]
        if fi.fq in self.stack:
            return {"ret": [], "params": {}, "pflows": {}, "pret": set()}
        self.stack.add(fi.fq)
        try:
            s = self._analyse(fi)
        finally:
            self.stack.discard(fi.fq)
        self.summ[fi.fq] = s
        return s

    def _analyse(self, fi: FuncInfo) -> dict:
        ctx = self.ctx
        fn = fi.node
        params = params_of(fn)
        # origins: name -> list of (source description, ast node)
        tainted: dict[str, list] = {}
        # what the caller hands in is followed too (marker origins "param:<name>"): which parameters end up in which
        # other (mutated) parameter, and which in the result
        markers = {p_: ast.Name(p_, ast.Load()) for p_ in params}
        for p_ in params:
            tainted[p_] = [("param:" + p_, fi, markers[p_])]

        def expr_origins(e: ast.AST) -> list:
            out = []
            for n in own_walk(e):
                src = nondet_source(ctx, fi, n)
                if src:
                    out.append((src, fi, n))
                if isinstance(n, ast.Name) and n.id in tainted and isinstance(n.ctx, ast.Load):
                    out += tainted[n.id]
                if isinstance(n, ast.Call):
                    cs = ctx.cg.resolve_call(fi, n, ctx.cg.local_types(fi), set(params))
                    if cs.kind == "tucan":
                        sm_ = self.summary(cs.target)
                        out += sm_["ret"]
                        # arguments that the callee passes on into its result
                        tps = params_of(cs.target.node)
                        off_ = 1 if cs.target.cls is not None and isinstance(n.func, ast.Attribute) else 0
                        for i_, a_ in enumerate(n.args):
                            if i_ + off_ < len(tps) and tps[i_ + off_] in sm_.get("pret", ()):
                                out += expr_origins(a_)
            return out

        changed = True
        rounds = 0
        while changed and rounds < 8:
            changed = False
            rounds += 1

            def taint(name, origins):
                nonlocal changed
                if not origins:
                    return
                cur = tainted.setdefault(name, [])
                for o in origins:
                    if not any(o[2] is c[2] for c in cur):
                        cur.append(o)
                        changed = True
            for n in own_walk(fn):
                if isinstance(n, ast.Assign):
                    o = expr_origins(n.value)
                    for t in n.targets:
                        for nm in ([t.id] if isinstance(t, ast.Name) else [_root_name(t)] if isinstance(t, (ast.Subscript, ast.Attribute)) else
                                   [x.id for x in ast.walk(t) if isinstance(x, ast.Name)]):
                            if nm:
                                taint(nm, o)
                elif isinstance(n, ast.AnnAssign) and n.value is not None:
                    nm = n.target.id if isinstance(n.target, ast.Name) else _root_name(n.target)
                    if nm:
                        taint(nm, expr_origins(n.value))
                elif isinstance(n, ast.AugAssign):
                    nm = n.target.id if isinstance(n.target, ast.Name) else _root_name(n.target)
                    if nm:
                        taint(nm, expr_origins(n.value))
                elif isinstance(n, ast.NamedExpr):
                    taint(n.target.id, expr_origins(n.value))
                elif isinstance(n, (ast.For, ast.comprehension)):
                    o = expr_origins(n.iter)
                    for x in ast.walk(n.target):
                        if isinstance(x, ast.Name):
                            taint(x.id, o)
                elif isinstance(n, ast.Call):
                    cs = ctx.cg.resolve_call(fi, n, ctx.cg.local_types(fi), set(params))
                    if cs.kind == "tucan":
                        s = self.summary(cs.target)
                        tparams = params_of(cs.target.node)
                        off = 1 if cs.target.cls is not None and isinstance(n.func, ast.Attribute) else 0
                        for i, a in enumerate(n.args):
                            pi = i + off
                            if pi < len(tparams):
                                # callee taints this parameter on its own, or passes our tainted args into it
                                o = list(s["params"].get(tparams[pi], []))
                                # ... or what we hand in at another position ends up in it
                                for src_p in s.get("pflows", {}).get(tparams[pi], ()):
                                    if src_p in tparams:
                                        j = tparams.index(src_p) - off
                                        if 0 <= j < len(n.args):
                                            o += expr_origins(n.args[j])
                                rn = _root_name(a) if isinstance(a, (ast.Name, ast.Subscript, ast.Attribute)) else None
                                if rn:
                                    taint(rn, o)
                    elif ((cs.kind == "ext" and cs.target == "random.shuffle") or (isinstance(n.func, ast.Attribute) and n.func.attr == "shuffle"
                                                                                     and nondet_source(ctx, fi, n))) and n.args:
                        rn = _root_name(n.args[0])
                        if rn:
                            taint(rn, [("random.shuffle", fi, n)])
                    elif isinstance(n.func, ast.Attribute) and n.func.attr in MUTATORS | {"write", "writelines"}:
                        rn = _root_name(n.func.value)
                        o = []
                        for a in list(n.args) + [k.value for k in n.keywords]:
                            o += expr_origins(a)
                        if rn:
                            taint(rn, o)
        ret = []
        for n in own_walk(fn):
            if isinstance(n, ast.Return) and n.value is not None:
                ret += expr_origins(n.value)
            if isinstance(n, ast.Expr) and isinstance(n.value, (ast.Yield, ast.YieldFrom)) and n.value.value is not None:
                ret += expr_origins(n.value.value)
        is_marker = lambda o: isinstance(o[0], str) and o[0].startswith("param:")
        pflows = {p: {o[0][6:] for o in tainted.get(p, []) if is_marker(o) and o[0][6:] != p} for p in params}
        pret = {o[0][6:] for o in ret if is_marker(o)}
        return {"ret": [o for o in ret if not is_marker(o)],
                "params": {p: [o for o in tainted[p] if not is_marker(o)] for p in params if p in tainted and any(not is_marker(o) for o in tainted[p])},
                "pflows": {p: v for p, v in pflows.items() if v}, "pret": pret,
                "tainted": {k: [o for o in v if not is_marker(o)] for k, v in tainted.items()}}


RNG_METHODS = {"shuffle", "random", "randint", "randrange", "choice", "choices", "sample", "uniform", "getrandbits", "gauss",
               "normalvariate", "betavariate", "expovariate", "triangular", "randbytes"}


class RngModel:
    """Which calls draw from the interpreter-wide RNG, from a generator seeded by the caller's seed, or from a
    generator handed in as a parameter.  Accepted idioms: `random.seed(<seed parameter>)` followed by module-level
    draws, and `rng = random.Random(<seed parameter>)` with every draw going through `rng` (passed down explicitly)."""

    def __init__(self, ctx):
        self.ctx = ctx
        self.summ: dict[str, dict] = {}
        self.stack: set[str] = set()
        self.fallback_global: set = set()       # (function, parameter) whose None means "the module-level generator"

    def gen_kind(self, fi: FuncInfo, e: ast.expr, depth=0) -> Optional[str]:
        """'seeded' | 'unseeded' | 'global' | 'param:<name>' | None (not an RNG object)"""
        ctx = self.ctx
        params = set(params_of(fi.node))
        if depth > 4:
            return None
        if isinstance(e, ast.Call):
            r = ctx.repo.resolve_dotted(fi.module, e.func)
            if r and r[0] == "ext" and r[1] in ("random.Random", "random.SystemRandom", "numpy.random.default_rng", "numpy.random.RandomState"):
                if r[1] == "random.SystemRandom" or not e.args:
                    return "unseeded"
                a = e.args[0]
                if names_in(a) and names_in(a) <= params and not any(isinstance(x, ast.Call) for x in ast.walk(a)):
                    return "seeded"
                if isinstance(a, ast.Constant):
                    return "seeded"
                return "unseeded"
            return None
        # `(rng or random).shuffle(..)`, `(rng if rng is not None else random)`: the parameter, falling back to the module-level
        # generator when it is not given
        alts = None
        if isinstance(e, ast.BoolOp) and isinstance(e.op, ast.Or) and len(e.values) == 2:
            alts = (e.values[0], e.values[1])
        elif isinstance(e, ast.IfExp):
            alts = (e.body, e.orelse)
        if alts is not None:
            ka, kb = self.gen_kind(fi, alts[0], depth + 1), self.gen_kind(fi, alts[1], depth + 1)
            for k1, k2 in ((ka, kb), (kb, ka)):
                if k1 and k1.startswith("param:") and k2 == "global":
                    self.fallback_global.add((fi.fq, k1[6:]))
                    return k1
            if ka == kb:
                return ka
            return "unseeded" if "unseeded" in (ka, kb) else None
        if isinstance(e, (ast.Name, ast.Attribute)):
            r = ctx.repo.resolve_dotted(fi.module, e) if not (isinstance(e, ast.Name) and (e.id in params or e.id in assigned_names(fi.node))) else None
            if r and r[0] == "extmod" and r[1] == "random":
                return "global"
            if isinstance(e, ast.Name):
                if e.id in params:
                    return f"param:{e.id}"
                d = single_def(fi.node, e.id)
                if d is not None:
                    return self.gen_kind(fi, d, depth + 1)
        return None

    def summary(self, fi: FuncInfo) -> dict:
        """{'global': [(fi, node, text)], 'params': {param: [(fi, node)]}, 'unseeded': [...]}"""
        if fi.fq in self.summ:
            return self.summ[fi.fq]
        if fi.fq in self.stack:
            return {"global": [], "params": {}, "unseeded": []}
        self.stack.add(fi.fq)
        try:
            out = {"global": [], "params": {}, "unseeded": []}
            ctx = self.ctx
            params = params_of(fi.node)
            for n in own_walk(fi.node):
                if not isinstance(n, ast.Call):
                    continue
                r = ctx.repo.resolve_dotted(fi.module, n.func) if isinstance(n.func, (ast.Name, ast.Attribute)) else None
                if r and r[0] == "ext" and r[1].startswith(("random.", "numpy.random.")):
                    q = r[1]
                    if q in RNG_STATE_SETTERS or q.split(".")[-1] in ("Random", "SystemRandom", "default_rng", "RandomState", "getstate", "setstate"):
                        continue
                    out["global"].append((fi, n, q))
                    continue
                if isinstance(n.func, ast.Attribute) and n.func.attr in RNG_METHODS:
                    k = self.gen_kind(fi, n.func.value)
                    if k == "global":
                        out["global"].append((fi, n, f"random.{n.func.attr}"))
                    elif k == "unseeded":
                        out["unseeded"].append((fi, n, f"unseeded generator .{n.func.attr}()"))
                    elif k and k.startswith("param:"):
                        out["params"].setdefault(k[6:], []).append((fi, n))
                    continue
                cs = ctx.cg.resolve_call(fi, n, ctx.cg.local_types(fi), set(params))
                if cs.kind == "tucan":
                    s = self.summary(cs.target)
                    for (f2, n2, q) in s["global"]:
                        out["global"].append((fi, n, f"{q} in {f2.qualname}"))
                    for (f2, n2, q) in s["unseeded"]:
                        out["unseeded"].append((fi, n, f"{q} in {f2.qualname}"))
                    tp = params_of(cs.target.node)
                    off = 1 if cs.target.cls is not None and isinstance(n.func, ast.Attribute) else 0
                    for p, uses in s["params"].items():
                        idx = tp.index(p) - off
                        arg = n.args[idx] if 0 <= idx < len(n.args) else kwarg(n, p)
                        if arg is None:
                            # default value of the callee's parameter
                            a = cs.target.node.args
                            pos = a.posonlyargs + a.args
                            d = None
                            for pp, dd in zip(pos[len(pos) - len(a.defaults):], a.defaults):
                                if pp.arg == p:
                                    d = dd
                            k = self.gen_kind(cs.target, d) if d is not None else None
                            if isinstance(d, ast.Constant) and d.value is None and (cs.target.fq, p) in self.fallback_global:
                                k = "global"
                            if d is not None and k is None:
                                rr = ctx.repo.resolve_dotted(cs.target.module, d) if isinstance(d, (ast.Name, ast.Attribute)) else None
                                k = "global" if rr and rr[0] == "extmod" and rr[1] == "random" else None
                        else:
                            k = self.gen_kind(fi, arg)
                            if isinstance(arg, ast.Constant) and arg.value is None and (cs.target.fq, p) in self.fallback_global:
                                k = "global"
                        if k == "global":
                            out["global"].append((fi, n, f"random.* through parameter `{p}` of {cs.target.qualname} (argument omitted: default is the module-level generator)"
                                                  if arg is None else f"random.* through parameter `{p}` of {cs.target.qualname}"))
                        elif k == "unseeded":
                            out["unseeded"].append((fi, n, f"unseeded generator passed as `{p}` of {cs.target.qualname}"))
                        elif k and k.startswith("param:"):
                            out["params"].setdefault(k[6:], []).append((fi, n))
                        elif k is None:
                            out["unseeded"].append((fi, n, f"unknown object passed as generator `{p}` of {cs.target.qualname}"))
            self.summ[fi.fq] = out
            return out
        finally:
            self.stack.discard(fi.fq)


def _seed_ok(ctx, fi: FuncInfo) -> tuple[bool, str, Optional[ast.AST]]:
    """every draw reachable from `fi` comes from a generator seeded with fi's seed parameter: module-level draws are
    dominated by random.seed(<expr over parameters>), other draws go through random.Random(<parameter>)"""
    fn = fi.node
    cfg = cfg_of(fn)
    params = set(params_of(fn))
    M = RngModel(ctx)
    s = M.summary(fi)
    if s["unseeded"]:
        f2, n2, q = s["unseeded"][0]
        return False, f"draws from an unseeded generator ({q})", n2
    seeds, good = [], []
    for n in own_walk(fn):
        if isinstance(n, ast.Call):
            r = ctx.repo.resolve_dotted(fi.module, n.func)
            if r and r[0] == "ext" and r[1] == "random.seed":
                seeds.append(n)
                if len(n.args) >= 1 and names_in(n.args[0]) and names_in(n.args[0]) <= params and not any(isinstance(x, ast.Call) for x in ast.walk(n.args[0])):
                    good.append(n)
    for sd in seeds:
        if sd not in good:
            return False, "random.seed is called with something other than the seed parameter", sd
    seed_nodes = [cfg.stmt_node_containing(x) for x in good]
    # `if seed is not None: random.seed(seed)`: for every seed value the caller can name, the generator is seeded; None is
    # the documented way of asking for no seeding.  The if statement then stands for the seeding.
    for x in good:
        for st in own_walk(fn):
            if isinstance(st, ast.If) and not st.orelse and len(st.body) == 1 and any(y is x for y in ast.walk(st.body[0])) \
                    and isinstance(st.test, ast.Compare) and len(st.test.ops) == 1 and isinstance(st.test.ops[0], ast.IsNot) \
                    and isinstance(st.test.comparators[0], ast.Constant) and st.test.comparators[0].value is None \
                    and isinstance(st.test.left, ast.Name) and st.test.left.id in names_in(x.args[0]):
                seed_nodes.append(cfg.node_of(st))
    n_global = 0
    for f2, node, q in s["global"]:
        n_global += 1
        d = cfg.stmt_node_containing(node)
        if not any(sn is not None and d is not None and sn != d and cfg.dominates(sn, d) for sn in seed_nodes):
            return False, f"a draw from the interpreter-wide generator ({q}) is not preceded by random.seed(<seed parameter>) on every path", node
    total = n_global + sum(len(v) for v in s["params"].values())
    seeded_gens = [n for n in own_walk(fn) if isinstance(n, ast.Call) and M.gen_kind(fi, n) == "seeded"]
    if n_global == 0 and not seeded_gens and not s["params"]:
        raise AnalysisError("R-SEED: no random draw is found in what the permutation helper calls (the drawing function is reached in a way this rule does not follow, or the helper no longer permutes)")
    how = f"random.seed({short(good[0].args[0])})" if good else (f"{short(seeded_gens[0])}" if seeded_gens else "caller-provided generator")
    return True, f"{n_global} module-level drawing call(s) dominated by {how}; other draws go through the seeded generator", good[0] if good else (seeded_gens[0] if seeded_gens else None)


@rule("R-SEED")
def r_seed(ctx) -> RuleResult:
    res = RuleResult("R-SEED", "in the permutation helper, random.seed(<seed parameter>) dominates every RNG draw")
    fi = entry(ctx, "permute")
    ok, why, node = _seed_ok(ctx, fi)
    res.inst(fi.fq, why, "ok" if ok else "fail")
    if not ok:
        res.fail(Finding("R-SEED", fi.module.rel, fi.qualname, norm(node) if node is not None else "random.seed",
                         f"{why}: the same seed no longer gives the same permutation", line=getattr(node, "lineno", None)))
    return res


def _header_timestamp_ok(ctx, origin) -> tuple[Optional[bool], str]:
    """The clock value may reach the output only as part of the 2nd line of the header block: in its function it flows
    into exactly one emitted line (an append to the list parameter or a yield, at the top level of the function), that
    emission is the second one, and the function is the first tucan function the public writer calls.
    Returns (True, why) / (False, why) / (None, why) when the emitting code is not of a form this rule reads."""
    src, fi, node = origin
    fn = fi.node
    params = params_of(fn)
    is_gen = any(isinstance(x, (ast.Yield, ast.YieldFrom)) for x in own_walk(fn))
    lst = params[0] if params else None
    emits = []
    for st in fn.body:
        for n in own_walk(st):
            app = isinstance(n, ast.Call) and isinstance(n.func, ast.Attribute) and n.func.attr == "append" and isinstance(n.func.value, ast.Name) \
                and lst is not None and n.func.value.id == lst
            yld = isinstance(n, ast.Yield)
            if app or yld:
                if not isinstance(st, ast.Expr):
                    return None, "header lines are emitted under control flow"
                emits.append(n)
            if isinstance(n, ast.YieldFrom) or (isinstance(n, ast.Call) and isinstance(n.func, ast.Attribute) and n.func.attr in ("extend", "insert")
                                                  and isinstance(n.func.value, ast.Name) and n.func.value.id == lst):
                return None, "header lines are emitted in bulk"
    if not emits:
        # a list literal returned whole:  return [name, f"..{clock}..", "", version]
        rets = [r for r in own_walk(fn) if isinstance(r, ast.Return) and isinstance(r.value, (ast.List, ast.Tuple))]
        if len(rets) == 1 and rets[0] in fn.body:
            emits = list(rets[0].value.elts)
        else:
            return None, "clock read outside a line-emitting helper"
    hit = [i for i, a in enumerate(emits) if any(x is node for x in ast.walk(a))]
    if len(hit) != 1:
        # the clock may pass through a local first:  now = datetime.now(); lines.append(f"..{now:%m%d}..")
        flow0 = NondetFlow(ctx)
        t0 = flow0.summary(fi).get("tainted", {})
        carriers = {k for k, v in t0.items() if any(o[2] is node for o in v)} - {lst}
        hit = [i for i, a in enumerate(emits) if any(isinstance(x, ast.Name) and x.id in carriers for x in ast.walk(a))]
        if len(hit) != 1:
            return (False if len(hit) > 1 else None), "clock value does not flow into exactly one emitted header line"
        others = []
    else:
        # any other use of a variable tainted by the clock?
        flow = NondetFlow(ctx)
        t = flow.summary(fi).get("tainted", {})
        others = [k for k, v in t.items() if k != lst and any(o[2] is node for o in v)]
    if others:
        return False, f"clock value is also stored in {others}"
    if hit[0] != 1:
        return False, f"clock value is in header line {hit[0] + 1}, the format's timestamp field is in line 2"
    w = entry(ctx, "write")
    # in the writer: this helper is the first tucan function called, outside any loop or branch
    calls = sorted((cs for cs in sites(ctx, w) if cs.kind == "tucan"), key=lambda cs: (cs.node.lineno, cs.node.col_offset))
    if fi.fq == w.fq:
        return None, "header written inline in the writer"
    # evaluation order: arguments of a call come before the call itself; take the innermost-first order
    def eval_key(cs):
        return (cs.node.end_lineno, cs.node.end_col_offset)
    # only calls that can emit lines count: those that are handed the list the header helper appends to
    mine = [cs for cs in calls if cs.target.fq == fi.fq]
    out_name = None
    if mine and lst is not None and params.index(lst) < len(mine[0].node.args) and isinstance(mine[0].node.args[params.index(lst)], ast.Name):
        out_name = mine[0].node.args[params.index(lst)].id
    if out_name is not None:
        calls = [cs for cs in calls if any(isinstance(a, ast.Name) and a.id == out_name for a in cs.node.args)]
        direct = [n_ for n_ in own_walk(w.node) if isinstance(n_, ast.Call) and isinstance(n_.func, ast.Attribute) and n_.func.attr in ("append", "extend", "insert")
                  and isinstance(n_.func.value, ast.Name) and n_.func.value.id == out_name]
        if direct and mine and min((d.lineno, d.col_offset) for d in direct) < (mine[0].node.lineno, mine[0].node.col_offset):
            return False, "lines are emitted before the header helper is called"
    first = None
    for cs in sorted(calls, key=lambda c: (c.node.lineno, c.node.col_offset)):
        inner = [c2 for c2 in calls if c2 is not cs and any(x is c2.node for x in ast.walk(cs.node))]
        if not inner:
            first = cs
            break
    if first is None:
        return None, "writer calls no helper"
    if first.target.fq != fi.fq:
        # the header helper may itself be wrapped:  lines.extend(_header_lines())
        return (False if any(cs.target.fq == fi.fq for cs in calls) else None), "header helper is not the first call of the writer"
    from .common import parent_map
    pm = parent_map(w.node)
    cur = pm.get(first.node)
    while cur is not None and cur is not w.node:
        if isinstance(cur, (ast.For, ast.While, ast.If, ast.Try, ast.ListComp, ast.GeneratorExp)):
            return None, "header helper is called under control flow"
        cur = pm.get(cur)
    return True, "timestamp confined to header line 2"


@rule("R-NONDET")
def r_nondet(ctx) -> RuleResult:
    res = RuleResult("R-NONDET", "no value from random/time/environment/id/hash sources reaches the result of a public operation (named exceptions: molfile header timestamp; seeded RNG of the permutation helper)")
    flow = NondetFlow(ctx)
    n_sources = 0
    seen_src = set()
    for key in PUBLIC:
        fi = entry(ctx, key)
        clo = closure(ctx, key)
        for f in clo:
            for n in own_walk(f.node):
                s = nondet_source(ctx, f, n)
                if s and id(n) not in seen_src:
                    seen_src.add(id(n))
                    n_sources += 1
        s = flow.summary(fi)
        origins = list(s["ret"])
        for p, o in s["params"].items():
            origins += o
        uniq = []
        for o in origins:
            if not any(o[2] is u[2] for u in uniq):
                uniq.append(o)
        verdict = "ok"
        for o in uniq:
            src, ofi, node = o
            accepted = None
            if key == "write" and src in CLOCK:
                ok, why = _header_timestamp_ok(ctx, o)
                accepted = why if ok else None
                if ok is None:
                    raise AnalysisError(f"R-NONDET: a clock value reaches the written molfile; whether it stays inside the header timestamp cannot be read off the code ({why}, {ofi.qualname})")
                if not ok:
                    res.fail(Finding("R-NONDET", ofi.module.rel, ofi.qualname, norm(node),
                                     f"clock value reaches the written molfile outside the header timestamp ({why})",
                                     line=node.lineno, path=[src, f"{PUBLIC[key]} result"]))
                    verdict = "fail"
                    continue
            elif key == "permute" and src.startswith("random."):
                ok, why, _ = _seed_ok(ctx, fi)
                accepted = "RNG seeded from the seed parameter (R-SEED)" if ok else None
                if not ok:
                    res.fail(Finding("R-NONDET", ofi.module.rel, ofi.qualname, norm(node),
                                     f"unseeded RNG draw reaches the permutation result ({why})", line=node.lineno,
                                     path=[src, f"{PUBLIC[key]} result"]))
                    verdict = "fail"
                    continue
            if accepted is None:
                res.fail(Finding("R-NONDET", ofi.module.rel, ofi.qualname, norm(node),
                                 f"value of nondeterministic source {src} reaches the result of {PUBLIC[key].rsplit('.', 1)[1]}",
                                 line=getattr(node, "lineno", None), path=[src, f"{ofi.qualname}", f"{PUBLIC[key]} result"]))
                verdict = "fail"
            else:
                res.notes.append(f"{key}: {src} in {ofi.qualname} accepted: {accepted}")
        res.inst(fi.fq, f"result free of nondeterministic sources ({len(uniq)} flows examined)", verdict)
    # positive fixture: a clock value returned from a function must be seen by the flow analysis
    fx_src = "import time\n\ndef _fx():\n    t = time.time()\n    out = []\n    out.append(t)\n    return out\n"
    fx = Repo(ctx.repo.root, {**ctx.repo.overlay, "tucan/_tsa_fixture_nondet.py": fx_src})
    sub = type(ctx)(fx, ctx.tier)
    if not NondetFlow(sub).summary(fx.func("tucan._tsa_fixture_nondet._fx"))["ret"]:
        raise AnalysisError("R-NONDET self-test: planted clock flow not detected")
    res.counts = {"source_sites_in_public_closures": n_sources, "public_operations": len(PUBLIC)}
    return res


# --------------------------------------------------------------------------- R-RETRY


def _eval_enforce(e: ast.expr, edges: int, density: float, env: dict, fi, ctx):
    """partial evaluation of the enforce condition over (number of edges, density)"""
    if isinstance(e, ast.BoolOp):
        vals = [_eval_enforce(v, edges, density, env, fi, ctx) for v in e.values]
        return all(vals) if isinstance(e.op, ast.And) else any(vals)
    if isinstance(e, ast.UnaryOp) and isinstance(e.op, ast.Not):
        return not _eval_enforce(e.operand, edges, density, env, fi, ctx)
    if isinstance(e, ast.Compare):
        left = _eval_enforce(e.left, edges, density, env, fi, ctx)
        for op, c in zip(e.ops, e.comparators):
            right = _eval_enforce(c, edges, density, env, fi, ctx)
            ok = {ast.Eq: left == right, ast.NotEq: left != right, ast.Lt: left < right, ast.LtE: left <= right,
                  ast.Gt: left > right, ast.GtE: left >= right}.get(type(op))
            if ok is None:
                raise AnalysisError(f"enforce condition: operator {type(op).__name__}")
            if not ok:
                return False
            left = right
        return True
    if isinstance(e, ast.Constant):
        return e.value
    if isinstance(e, ast.Name) and e.id in env:
        return _eval_enforce(env[e.id], edges, density, env, fi, ctx)
    if isinstance(e, ast.Call):
        if isinstance(e.func, ast.Attribute) and e.func.attr in ("number_of_edges", "size") and not e.args:
            return edges
        r = ctx.repo.resolve_dotted(fi.module, e.func)
        if r and r[0] == "ext" and r[1] == "networkx.density":
            return density
        if r and r[0] == "ext" and r[1] == "networkx.number_of_edges":
            return edges
        if isinstance(e.func, ast.Name) and e.func.id == "len" and e.args and isinstance(e.args[0], ast.Attribute) and e.args[0].attr == "edges":
            return edges
        if r and r[0] == "func" and not e.keywords:
            # a helper of the repository that asks the question: its single `return <expression>` is evaluated in its place
            body = [st for st in r[1].node.body if not (isinstance(st, ast.Expr) and isinstance(st.value, ast.Constant))]
            if len(body) == 1 and isinstance(body[0], ast.Return) and body[0].value is not None:
                return _eval_enforce(body[0].value, edges, density, {}, r[1], ctx)

            # guard clauses:  if <test>: return <expr>  ...  return <expr>
            def run(stmts):
                for st in stmts:
                    if isinstance(st, ast.If):
                        branch = st.body if _eval_enforce(st.test, edges, density, {}, r[1], ctx) else st.orelse
                        v_ = run(branch)
                        if v_ is not None:
                            return v_
                    elif isinstance(st, ast.Return) and st.value is not None:
                        return ("v", _eval_enforce(st.value, edges, density, {}, r[1], ctx))
                    else:
                        raise AnalysisError(f"enforce condition: cannot evaluate `{short(e)}`")
                return None
            if all(isinstance(st, (ast.If, ast.Return)) for st in body):
                v_ = run(body)
                if v_ is not None:
                    return v_[1]
    raise AnalysisError(f"enforce condition: cannot evaluate `{short(e)}`")


@rule("R-RETRY")
def r_retry(ctx) -> RuleResult:
    res = RuleResult("R-RETRY", "permutation helper: when the graph has >= 2 edges and is not complete, `return` is reachable only over the false edge of `<arg>.edges == <result>.edges`")
    fi = entry(ctx, "permute")
    fn = fi.node
    cfg = cfg_of(fn)
    params = params_of(fn)
    if not params:
        raise AnalysisError("permute_molecule has no parameter")
    m = params[0]
    rets = [n for n in own_walk(fn) if isinstance(n, ast.Return)]
    if not rets:
        raise AnalysisError("permute_molecule has no return")
    env = {}
    for name, defs in assigned_names(fn).items():
        if len(defs) == 1 and isinstance(defs[0], ast.Assign):
            env[name] = defs[0].value

    def is_edge_eq(test: ast.expr, var: str) -> Optional[bool]:
        """True if test is `<m>.edges == <var>.edges` (either order); returns polarity: True for ==, False for !="""
        if isinstance(test, ast.Compare) and len(test.ops) == 1 and isinstance(test.ops[0], (ast.Eq, ast.NotEq)):
            a, b = test.left, test.comparators[0]

            def edge_of(x):
                if isinstance(x, ast.Attribute) and x.attr == "edges" and isinstance(x.value, ast.Name):
                    return x.value.id
                if isinstance(x, ast.Call) and isinstance(x.func, ast.Attribute) and x.func.attr == "edges" and not x.args and isinstance(x.func.value, ast.Name):
                    return x.func.value.id
                # set(m.edges) / sorted(m.edges) / list(...)
                if isinstance(x, ast.Call) and isinstance(x.func, ast.Name) and x.func.id in ("set", "frozenset", "sorted", "list") and x.args:
                    return edge_of(x.args[0])
                return None
            ea, eb = edge_of(a), edge_of(b)
            if {ea, eb} == {m, var} and ea != eb:
                return isinstance(test.ops[0], ast.Eq)
        return None

    def edge_kind(f_, x, depth=0):
        """how an expression holds bonds: 'view' (a graph's edge view: compares without regard to orientation), 'sorted'
        (a set of pairs put in value order), 'raw' (pairs as stored), None (not a bond collection this rule reads)"""
        if depth > 5 or x is None:
            return None
        if isinstance(x, ast.Attribute) and x.attr == "edges":
            return "view"
        if isinstance(x, ast.Call) and isinstance(x.func, ast.Attribute) and x.func.attr == "edges" and not x.args and not x.keywords:
            return "view"
        if isinstance(x, ast.Name):
            ds = [d_ for d_ in assigned_names(f_.node).get(x.id, []) if isinstance(d_, (ast.Assign, ast.AnnAssign)) and d_.value is not None]
            ks = {edge_kind(f_, d_.value, depth + 1) for d_ in ds}
            return ks.pop() if len(ks) == 1 else None
        if isinstance(x, ast.Call) and isinstance(x.func, ast.Name) and x.func.id in ("set", "frozenset", "list", "sorted", "tuple") and x.args:
            k_ = edge_kind(f_, x.args[0], depth + 1)
            return "raw" if k_ == "view" else k_
        if isinstance(x, (ast.SetComp, ast.ListComp, ast.GeneratorExp)) and len(x.generators) == 1:
            src_k = edge_kind(f_, x.generators[0].iter, depth + 1)
            if src_k is None:
                return None
            el = x.elt
            ordered = (isinstance(el, ast.Call) and isinstance(el.func, ast.Name) and el.func.id in ("tuple", "frozenset") and el.args
                       and (el.func.id == "frozenset" or (isinstance(el.args[0], ast.Call) and isinstance(el.args[0].func, ast.Name) and el.args[0].func.id == "sorted"))) \
                or (isinstance(el, ast.Tuple) and len(el.elts) == 2 and all(isinstance(c_, ast.Call) and isinstance(c_.func, ast.Name) and c_.func.id in ("min", "max") for c_ in el.elts))
            if ordered:
                return "sorted"
            if isinstance(el, ast.Name) or (isinstance(el, ast.Tuple) and all(isinstance(c_, (ast.Name, ast.Subscript)) for c_ in el.elts)):
                return "raw" if src_k in ("view", "raw") else src_k
            return None
        if isinstance(x, ast.Call):
            cs_ = ctx.cg.resolve_call(f_, x, ctx.cg.local_types(f_), set(params_of(f_.node)))
            if cs_.kind == "tucan":
                rs_ = [r_.value for r_ in own_walk(cs_.target.node) if isinstance(r_, ast.Return) and r_.value is not None]
                ks = set()
                for r_ in rs_:
                    k_ = edge_kind(cs_.target, r_, depth + 1)
                    if k_ is None and isinstance(r_, (ast.SetComp, ast.ListComp, ast.GeneratorExp)) and any(edge_kind(f_, a_, depth + 1) is not None for a_ in x.args):
                        # a comprehension over a parameter: the element form decides
                        probe = ast.SetComp(r_.elt, [ast.comprehension(r_.generators[0].target, ast.Attribute(ast.Name("_g", ast.Load()), "edges", ast.Load()), [], 0)])
                        k_ = edge_kind(cs_.target, ast.fix_missing_locations(ast.copy_location(probe, r_)), depth + 1)
                    ks.add(k_)
                return ks.pop() if len(ks) == 1 else None
        return None

    for ret in rets:
        cand_vars = set()
        if isinstance(ret.value, ast.Name):
            cand_vars = {ret.value.id}
        elif isinstance(ret.value, ast.Call):
            # return build(m, candidate): the candidate is what the retry loop draws again
            loop_assigned = {nm for w_ in own_walk(fn) if isinstance(w_, ast.While) for x_ in ast.walk(w_) if isinstance(x_, ast.Name) and isinstance(x_.ctx, ast.Store) for nm in [x_.id]}
            cand_vars = {a_.id for a_ in ret.value.args if isinstance(a_, ast.Name) and a_.id in loop_assigned}
        if not cand_vars:
            raise AnalysisError(f"R-RETRY: cannot tell which candidate `{short(ret)}` hands back (neither a name nor a call on something the retry loop draws again)")
        var = sorted(cand_vars)[0]
        rn = cfg.node_of(ret)
        # guard tests: nodes T with is_edge_eq; the "accepting" edge is false for ==, true for !=
        guards = {}
        for n, a in cfg.ast.items():
            if cfg.kind[n] == "test" and hasattr(a, "test"):
                pol = is_edge_eq(a.test, var)
                if pol is None and isinstance(a.test, ast.UnaryOp) and isinstance(a.test.op, ast.Not) and is_edge_eq(a.test.operand, var) is not None:
                    pol = not is_edge_eq(a.test.operand, var)          # `not (same bonds)`: the test the other way round
                if pol is None and isinstance(a.test, ast.Compare) and len(a.test.ops) == 1 and isinstance(a.test.ops[0], (ast.Eq, ast.NotEq)):
                    # the general form: one side holds the bonds of the argument, the other mentions the candidate
                    l_, r_ = a.test.left, a.test.comparators[0]
                    kl, kr = edge_kind(fi, l_), edge_kind(fi, r_)
                    mentions = lambda e_: bool({x_.id for x_ in ast.walk(e_) if isinstance(x_, ast.Name)} & cand_vars)  # noqa: E731
                    if kl is not None and kr is not None and (mentions(l_) != mentions(r_)):
                        if {kl, kr} == {"sorted", "raw"}:
                            res.inst(fi.fq, short(a.test, 70), "fail")
                            res.fail(Finding("R-RETRY", fi.module.rel, fi.qualname, norm(a.test),
                                             "the changed-bond-set test compares pairs put in value order with pairs as the graph stores them: for a graph whose atoms are not stored "
                                             "in label order the two never compare equal, the loop never retries, and a permutation that leaves the bond set unchanged is returned", line=a.test.lineno))
                            guards[n] = "false" if isinstance(a.test.ops[0], ast.Eq) else "true"
                            continue
                        if kl == kr and kl in ("view", "sorted"):
                            pol = isinstance(a.test.ops[0], ast.Eq)
                        else:
                            raise AnalysisError(f"R-RETRY: cannot tell whether `{short(a.test, 60)}` compares the two bond sets without regard to orientation ({kl} vs {kr})")
                if pol is not None:
                    guards[n] = "false" if pol else "true"
        # any other loop that draws the candidate again: whether it ends for every molecule is not something this rule reads
        for w_ in own_walk(fn):
            if isinstance(w_, ast.While) and isinstance(w_.test, ast.Constant) and w_.test.value is True and not w_.orelse \
                    and any(cfg.node_of(x_) in guards for x_ in ast.walk(w_) if isinstance(x_, (ast.If, ast.While))) \
                    and not any(isinstance(x_, ast.Break) for x_ in ast.walk(w_)):
                # `while True:` left only by a return: the changed-bond-set test sits inside; which returns it lets through is
                # what the reachability check below decides, and the loop goes round exactly as `while <same bonds>:` does
                continue
            if isinstance(w_, ast.While) and cfg.node_of(w_) not in guards and \
                    any(isinstance(x_, ast.Name) and isinstance(x_.ctx, ast.Store) and x_.id in cand_vars for x_ in ast.walk(w_)):
                raise AnalysisError(f"R-RETRY: `while {short(w_.test, 60)}` draws the candidate again under a test that is not the changed-bond-set test; "
                                    "whether that loop ends for every molecule (identical atoms, one atom) is not decided")
        # enforce tests: `if <cond>` whose cond evaluates True for (edges>=2, density<1)
        enforce_nodes = {}
        unevaluated_tests = []
        for n, a in cfg.ast.items():
            if cfg.kind[n] == "test" and hasattr(a, "test") and n not in guards:
                try:
                    vals = {(e, d): bool(_eval_enforce(a.test, e, d, env, fi, ctx)) for e, d in
                            ((0, 0.0), (1, 1.0), (1, 0.3), (2, 0.5), (2, 0.67), (3, 1.0), (3, 0.5), (6, 0.4), (10, 0.99))}
                except AnalysisError:
                    unevaluated_tests.append(a)
                    continue
                enforce_nodes[n] = vals
        # Remove from the CFG: the accepting edges of guards, and the false edges of enforce tests whose
        # condition holds on all of the property's domain.  If the return is still reachable, some path
        # returns a candidate without the edge-set check.
        g = cfg.g.copy()
        must = [(e, d) for (e, d) in ((2, 0.5), (2, 0.67), (3, 0.5), (6, 0.4), (10, 0.99))]
        for n, acc in guards.items():
            for _, t, d in list(g.out_edges(n, data=True)):
                if d.get("label") in (acc, "both"):
                    # after the accepting edge the candidate must not be reassigned before return: checked below
                    g.remove_edge(n, t)
        for n, vals in enforce_nodes.items():
            # a test that comes out the same way on the whole domain of the property: its other edge is never taken there
            dead = "false" if all(vals[k] for k in must) else "true" if not any(vals[k] for k in must) else None
            if dead:
                for _, t, d in list(g.out_edges(n, data=True)):
                    if d.get("label") == dead:
                        g.remove_edge(n, t)
        import networkx as nx
        reach = rn in nx.descendants(g, cfg.ENTRY)
        ok = bool(guards) and not reach
        why = ""
        if not guards:
            why = f"no test comparing {m}.edges with {var}.edges guards the return"
        elif reach:
            p = nx.shortest_path(g, cfg.ENTRY, rn)
            # only a test that asks about the argument molecule can be the enforce test in a form this rule does not evaluate
            on_path = [t_ for t_ in unevaluated_tests if cfg.node_of(t_) in p and m in {x_.id for x_ in ast.walk(t_.test) if isinstance(x_, ast.Name)}]
            if on_path:
                raise AnalysisError(f"R-RETRY: the test `{short(on_path[0].test, 60)}` lies on the way to the return without the changed-bond-set test; what it asks about the molecule "
                                    "(at least two bonds and not complete?) is not evaluated")
            why = "a path reaches the return without passing the changed-edge-set test: " + " ; ".join(cfg.describe(x) for x in p[1:])
        # between the accepting edge and the return the candidate is not reassigned
        if ok:
            for n, acc in guards.items():
                for _, t, d in cfg.g.out_edges(n, data=True):
                    if d.get("label") in (acc, "both"):
                        # nodes on paths t..rn that avoid guards
                        sub = cfg.g.subgraph([x for x in cfg.g.nodes if x not in guards or x == n])
                        on = ({t} | nx.descendants(sub, t)) & ({rn} | nx.ancestors(sub, rn)) if t != rn else set()
                        for x in on:
                            a = cfg.ast.get(x)
                            if a is not None and isinstance(a, (ast.Assign, ast.AugAssign)) and var in {nm for tg in (a.targets if isinstance(a, ast.Assign) else [a.target]) for nm in names_in(tg)}:
                                ok = False
                                why = f"candidate {var} is reassigned after the edge-set test ({cfg.describe(x)})"
        res.inst(fi.fq, f"{short(ret)} guarded by {[cfg.describe(n) for n in guards]}", "ok" if ok else "fail",
                 detail=f"enforce tests: {[cfg.describe(n) for n in enforce_nodes]}")
        if not ok:
            res.fail(Finding("R-RETRY", fi.module.rel, fi.qualname, norm(ret), why, line=ret.lineno))
    return res


# --------------------------------------------------------------------------- R-PERMSAMPLE


@rule("R-PERMSAMPLE")
def r_permsample(ctx) -> RuleResult:
    """sample semantics of the permutation helper: it is followed on small sample molecules whose labels are not 0..n-1, with
    one possible outcome of the random draws.  Judged is only what must hold for every outcome: the result lives on the
    argument's labels, is isomorphic to it with all atom and bond data, lists its atoms in label order, and the argument is
    as it was.  Reported when every path ends wrong; what the evaluator cannot follow is skipped."""
    res = RuleResult("R-PERMSAMPLE", "permutation helper, on sample molecules with labels other than 0..n-1: same label set, isomorphic with all atom and bond data, atoms in label order, argument unchanged")
    import copy
    import itertools
    from ..concrete import PState, SampleGraph, SampleNx, SampleRandom
    from .common import sample_evaluator
    fi = entry(ctx, "permute")
    ps = params_of(fi.node)
    const = lambda n_: ctx.repo.const("tucan.graph_attributes", n_)  # noqa: E731
    SYM, CHG_, MASS_, BT = const("ELEMENT_SYMBOL"), const("CHG"), const("MASS"), const("BOND_TYPE")

    def make(nodes, edges):
        g = SampleGraph()
        for n_, d_ in nodes:
            g.add_node(n_, **d_)
        for a_, b_, t_ in edges:
            g.add_edge(a_, b_, **{BT: t_})
        return g
    samples = [
        ("a formate-like fragment labelled 3, 7, 10, 12 (a component taken out of a larger graph)",
         [(3, {SYM: "C"}), (7, {SYM: "O", CHG_: -1}), (10, {SYM: "H", MASS_: 2}), (12, {SYM: "O"})], [(3, 7, 1), (3, 10, 1), (3, 12, 2)]),
        ("hydrogen peroxide numbered from 1 as in a molfile", [(1, {SYM: "H"}), (2, {SYM: "O"}), (3, {SYM: "O"}), (4, {SYM: "H", MASS_: 3})], [(1, 2, 1), (2, 3, 1), (3, 4, 1)]),
        ("water listed as 2, 0, 1", [(2, {SYM: "O"}), (0, {SYM: "H"}), (1, {SYM: "H", MASS_: 2})], [(2, 0, 1), (2, 1, 1)]),
        ("two atoms with identical records (H2 as the TUCAN parser makes it)", [(0, {SYM: "H"}), (1, {SYM: "H"})], [(0, 1, 1)]),
    ]

    def iso(a: SampleGraph, b: SampleGraph) -> bool:
        an, bn = list(a._nodes), list(b._nodes)
        if len(an) != len(bn):
            return False
        ae = {frozenset((x, y)): d for x, y, d in a._edge_list()}
        be = {frozenset((x, y)): d for x, y, d in b._edge_list()}
        if len(ae) != len(be):
            return False
        for perm in itertools.permutations(bn):
            f = dict(zip(an, perm))
            if all(a._nodes[x] == b._nodes[f[x]] for x in an) and all(frozenset(f[x] for x in e_) in be and be[frozenset(f[x] for x in e_)] == d for e_, d in ae.items()):
                return True
        return False
    n = 0
    for what, nodes, edges in samples:
        rnd = SampleRandom()
        pe, env = sample_evaluator(ctx, fi, {"nx": SampleNx(), "random": rnd})
        g = make(nodes, edges)
        before = copy.deepcopy((g._nodes, {k: dict(v) for k, v in g._adj.items()}))
        e = dict(env)
        e[ps[0]] = g
        for p_ in ps[1:]:
            e.setdefault(p_, 0.42)
        del pe.gaps[:]
        try:
            falls, lefts = pe.block(fi.node.body, [PState(e)])
        except (NameError, UnboundLocalError):
            raise
        except Exception as ex:
            import math
            if "loop does not end on the sample" in str(ex) and len(nodes) == 2 and len(rnd.seen_orders) >= math.factorial(len(nodes)) and not pe.gaps:
                # two atoms: both orders were drawn, again and again, and each kept a retry loop going -- whatever the
                # generator draws, the call does not come back for this molecule
                n += 1
                res.inst(fi.fq, f"sample: {what}", "fail", detail="a retry loop goes on for both orders of the two atoms")
                res.fail(Finding("R-PERMSAMPLE", fi.module.rel, fi.qualname, f"sample: {what}",
                                 f"following the permutation helper on a sample molecule ({what}): a retry loop goes round again for each of the two possible orders of the atoms, "
                                 "so the call does not end for this molecule whatever is drawn", line=fi.node.lineno))
                continue
            res.inst(fi.fq, f"sample: {what}", "ok", detail=f"not followed by the sample evaluator ({type(ex).__name__})")
            continue
        outs = [v for _s, how, v in lefts if how == "return"]
        if pe.gaps or falls or len(outs) != len(lefts) or not outs or not all(isinstance(v, SampleGraph) for v in outs):
            res.inst(fi.fq, f"sample: {what}", "ok", detail="not followed by the sample evaluator" + (f": {pe.gaps[0]}" if pe.gaps else ""))
            continue
        n += 1
        problems = []
        for v in outs:
            if set(v._nodes) != set(g._nodes):
                problems.append(f"the result's labels are {sorted(v._nodes, key=repr)}, the argument's are {sorted(g._nodes, key=repr)}")
            elif not iso(g, v):
                problems.append("the result is not the argument under a renaming of its atoms: an atom or bond attribute, or a bond, is not carried along")
            elif list(v._nodes) != sorted(v._nodes):
                problems.append(f"the result lists its atoms as {list(v._nodes)}, not in label order")
            elif (g._nodes, {k: dict(x) for k, x in g._adj.items()}) != before:
                problems.append("the argument is changed by the call")
        bad = len(problems) == len(outs)
        res.inst(fi.fq, f"sample: {what}", "fail" if bad else "ok", detail=problems[0] if bad else "")
        if bad:
            res.fail(Finding("R-PERMSAMPLE", fi.module.rel, fi.qualname, f"sample: {what}",
                             f"following the permutation helper on a sample molecule ({what}), whatever the draw: {problems[0]}", line=fi.node.lineno))
    res.counts = {"samples": n}
    res.trusted = ["the sample evaluator's models of networkx and of one outcome of the random draws (concrete.py)"]
    return res


# --------------------------------------------------------------------------- R-CARRY / R-LABELORDER


def _trace_view(fi: FuncInfo, e: ast.expr, depth=0):
    """-> (kind, graph name, data?, sorted?, key?) for an expression that (through list/sorted/
    local single-definition variables, or a comprehension over such) is `<g>.nodes(...)` / `<g>.edges(...)` /
    `<g>.nodes` / `<g>.edges`.  For a comprehension, `data?` says whether every element carries the attribute
    dictionary of the item it was made from, `sorted?` whether the labels inserted come from a sorted()/range() sequence."""
    is_sorted = False
    sort_key = None
    while True:
        if isinstance(e, ast.Call) and isinstance(e.func, ast.Name) and e.func.id in ("list", "tuple", "iter") and e.args:
            e = e.args[0]
            continue
        if isinstance(e, ast.Call) and isinstance(e.func, ast.Name) and e.func.id == "sorted" and e.args:
            is_sorted = True
            sort_key = kwarg(e, "key")
            if kwarg(e, "reverse") is not None and not (isinstance(kwarg(e, "reverse"), ast.Constant) and kwarg(e, "reverse").value is False):
                sort_key = ast.Constant("reverse")
            e = e.args[0]
            continue
        if isinstance(e, ast.Name) and depth < 5:
            d = single_def(fi.node, e.id)
            if d is None:
                return None
            r = _trace_view(fi, d, depth + 1)
            if r is None:
                return None
            k, g, data, s, key = r
            return (k, g, data, s or is_sorted, key if s else sort_key)
        break
    if isinstance(e, (ast.GeneratorExp, ast.ListComp)) and len(e.generators) == 1 and depth < 5:
        return _trace_comprehension(fi, e, is_sorted, sort_key, depth)
    view = None
    data = False
    if isinstance(e, ast.Call) and isinstance(e.func, ast.Attribute) and e.func.attr in ("nodes", "edges") and isinstance(e.func.value, ast.Name):
        view = (e.func.attr, e.func.value.id)
        d = kwarg(e, "data")
        if d is None and e.args:
            d = e.args[0]
        data = isinstance(d, ast.Constant) and d.value is True
    elif isinstance(e, ast.Call) and isinstance(e.func, ast.Attribute) and e.func.attr == "data" and isinstance(e.func.value, ast.Attribute) \
            and e.func.value.attr in ("nodes", "edges") and isinstance(e.func.value.value, ast.Name):
        view = (e.func.value.attr, e.func.value.value.id)
        d = e.args[0] if e.args else kwarg(e, "data")
        data = d is None or (isinstance(d, ast.Constant) and d.value is True)
    elif isinstance(e, ast.Attribute) and e.attr in ("nodes", "edges") and isinstance(e.value, ast.Name):
        view = (e.attr, e.value.id)
    elif isinstance(e, ast.Name):
        view = ("nodes", e.id) if False else None
    elif isinstance(e, ast.Call) and isinstance(e.func, ast.Attribute) and e.func.attr == "items" and isinstance(e.func.value, ast.Attribute) \
            and e.func.value.attr == "nodes":
        view = ("nodes", e.func.value.value.id if isinstance(e.func.value.value, ast.Name) else None)
        data = True
    if view is None:
        return None
    return (view[0], view[1], data, is_sorted, sort_key)


def _label_sequence_sorted(fi: FuncInfo, e: ast.expr, depth=0) -> Optional[bool]:
    """is the sequence `e` of labels in ascending order?  True: sorted(..) without key/reverse or range(..);
    False: a view / list of the graph's nodes in insertion order or anything shuffled; None: unknown"""
    if depth > 5:
        return None
    if isinstance(e, ast.Call) and isinstance(e.func, ast.Name):
        if e.func.id == "sorted" and e.args and kwarg(e, "key") is None and (kwarg(e, "reverse") is None or (isinstance(kwarg(e, "reverse"), ast.Constant) and kwarg(e, "reverse").value is False)):
            return True
        if e.func.id == "range":
            return True
        if e.func.id in ("list", "tuple", "iter") and e.args:
            return _label_sequence_sorted(fi, e.args[0], depth + 1)
        if e.func.id in ("reversed", "set", "frozenset"):
            return False
    if isinstance(e, ast.Name):
        defs = assigned_names(fi.node).get(e.id, [])
        # a list that is shuffled in place is not sorted
        for n in own_walk(fi.node):
            if isinstance(n, ast.Call) and isinstance(n.func, ast.Attribute) and n.func.attr in ("shuffle", "reverse") and n.args and isinstance(n.args[0], ast.Name) and n.args[0].id == e.id:
                return False
            if isinstance(n, ast.Call) and isinstance(n.func, ast.Attribute) and n.func.attr == "sort" and isinstance(n.func.value, ast.Name) and n.func.value.id == e.id:
                return True
        d = single_def(fi.node, e.id)
        if d is not None:
            return _label_sequence_sorted(fi, d, depth + 1)
        return None
    if isinstance(e, ast.Attribute) and e.attr in ("nodes",):
        return False
    if isinstance(e, ast.Call) and isinstance(e.func, ast.Attribute) and e.func.attr in ("nodes", "keys"):
        return False
    return None


def _trace_comprehension(fi: FuncInfo, e, is_sorted, sort_key, depth):
    """((label, data) for ... in <source>) used to rebuild a graph"""
    g = e.generators[0]
    it = g.iter
    elt = e.elt
    # edges: (f(a), f(b), d) for a, b, d in <g>.edges(data=True)
    src = _trace_view(fi, it, depth + 1)
    tnames = [t.id for t in (g.target.elts if isinstance(g.target, ast.Tuple) else [g.target]) if isinstance(t, ast.Name)]
    if src is not None and src[0] == "edges":
        k, gname, data, s, key = src
        carries = data and isinstance(elt, ast.Tuple) and len(elt.elts) == 3 and isinstance(elt.elts[2], ast.Name) and len(tnames) == 3 and elt.elts[2].id == tnames[2]
        return ("edges", gname, bool(carries) and not g.ifs, is_sorted or s, sort_key)
    if src is not None and src[0] == "nodes" and isinstance(g.target, ast.Name) and isinstance(elt, ast.Tuple) and len(elt.elts) == 2 \
            and isinstance(elt.elts[0], ast.Name) and elt.elts[0].id == g.target.id and isinstance(elt.elts[1], ast.Subscript):
        src = None       # (n, <g>.nodes[n]) for n in <labels>: handled below
    if src is not None and src[0] == "nodes":
        k, gname, data, s, key = src
        carries = data and isinstance(elt, ast.Tuple) and len(elt.elts) == 2 and isinstance(elt.elts[1], ast.Name) and len(tnames) == 2 and elt.elts[1].id == tnames[1]
        same_label = isinstance(elt, ast.Tuple) and isinstance(elt.elts[0], ast.Name) and tnames and elt.elts[0].id == tnames[0]
        return ("nodes", gname, bool(carries) and not g.ifs, (is_sorted or (s and key is None and same_label)), sort_key if is_sorted else key)
    # nodes: (new, <g>.nodes[old]) for old, new in zip(A, B)
    if isinstance(it, ast.Call) and isinstance(it.func, ast.Name) and it.func.id == "zip" and len(it.args) == 2 and isinstance(elt, ast.Tuple) and len(elt.elts) == 2 \
            and isinstance(g.target, ast.Tuple) and len(tnames) == 2:
        lab, dat = elt.elts
        gname = None
        carries = False
        if isinstance(dat, ast.Subscript) and isinstance(dat.value, ast.Attribute) and dat.value.attr == "nodes" and isinstance(dat.value.value, ast.Name) \
                and isinstance(dat.slice, ast.Name) and dat.slice.id in tnames:
            gname = dat.value.value.id
            carries = not g.ifs
        if isinstance(lab, ast.Name) and lab.id in tnames and gname is not None:
            which = it.args[tnames.index(lab.id)]
            srt = _label_sequence_sorted(fi, which)
            if srt is None:
                return None
            return ("nodes", gname, carries, bool(srt) or is_sorted, sort_key)
    # nodes: (n, <g>.nodes[n]) for n in <seq>
    if isinstance(g.target, ast.Name) and isinstance(elt, ast.Tuple) and len(elt.elts) == 2 and isinstance(elt.elts[0], ast.Name) and elt.elts[0].id == g.target.id:
        dat = elt.elts[1]
        if isinstance(dat, ast.Subscript) and isinstance(dat.value, ast.Attribute) and dat.value.attr == "nodes" and isinstance(dat.value.value, ast.Name) \
                and isinstance(dat.slice, ast.Name) and dat.slice.id == g.target.id:
            srt = _label_sequence_sorted(fi, it)
            if srt is None:
                return None
            return ("nodes", dat.value.value.id, not g.ifs, bool(srt) or is_sorted, sort_key)
    return None


def _rebuild_sites(ctx):
    """(function, graph variable, add_nodes_from call, add_edges_from call) for graphs built from scratch"""
    out = []
    for fi in closure(ctx, "permute"):
        fn = fi.node
        for name, defs in assigned_names(fn).items():
            for d in defs:
                v = d.value if isinstance(d, (ast.Assign, ast.AnnAssign)) else None
                if isinstance(v, ast.Call):
                    r = ctx.repo.resolve_dotted(fi.module, v.func)
                    if r and r[0] == "ext" and r[1] == "networkx.Graph" and not v.args:
                        addn = [n for n in own_walk(fn) if isinstance(n, ast.Call) and isinstance(n.func, ast.Attribute)
                                and n.func.attr in ("add_nodes_from", "add_node") and isinstance(n.func.value, ast.Name) and n.func.value.id == name]
                        adde = [n for n in own_walk(fn) if isinstance(n, ast.Call) and isinstance(n.func, ast.Attribute)
                                and n.func.attr in ("add_edges_from", "add_edge", "add_weighted_edges_from") and isinstance(n.func.value, ast.Name) and n.func.value.id == name]
                        out.append((fi, name, addn, adde))
    return out


@rule("R-CARRY")
def r_carry(ctx) -> RuleResult:
    res = RuleResult("R-CARRY", "permutation helper: a graph rebuilt from another takes its nodes from nodes(data=True) and its edges from edges(data=True) of the source (all attributes carried)")
    sites_ = _rebuild_sites(ctx)
    relabels = list(ext_calls(ctx, closure(ctx, "permute"), names={"networkx.relabel_nodes"}))
    if not sites_ and not relabels:
        raise AnalysisError("R-CARRY: neither a graph rebuild nor a relabel found in the permutation helper (anchor vanished)")
    for fi, g, addn, adde in sites_:
        for kind, calls, want in (("nodes", addn, "nodes"), ("edges", adde, "edges")):
            if not calls:
                res.inst(fi.fq, f"{g}: {kind} added", "fail")
                res.fail(Finding("R-CARRY", fi.module.rel, fi.qualname, f"{g} = nx.Graph()", f"rebuilt graph never receives the source's {kind}", line=fi.node.lineno))
                continue
            for c in calls:
                if c.func.attr in ("add_node", "add_edge"):
                    raise AnalysisError(f"R-CARRY: element-wise rebuild `{short(c)}` is not an accepted idiom")
                tv = _trace_view(fi, c.args[0]) if c.args else None
                if tv is None:
                    raise AnalysisError(f"R-CARRY: cannot trace the source of `{short(c)}`")
                k, src, data, _, _ = tv
                ok = (k == want) and data
                res.inst(fi.fq, short(c), "ok" if ok else "fail", detail=f"source {src}.{k}(data={data})")
                if not ok:
                    res.fail(Finding("R-CARRY", fi.module.rel, fi.qualname, norm(c),
                                     f"rebuilt graph takes its {kind} from {src}.{k} without data: {'atom' if kind == 'nodes' else 'bond'} attributes are dropped"
                                     if k == want else f"rebuilt graph takes its {kind} from {src}.{k}", line=c.lineno))
    for cs in relabels:
        res.inst(cs.caller.fq, short(cs.node), "ok", detail="relabel_nodes copies node and edge data (summary)")
    res.trusted = ["networkx: add_nodes_from/add_edges_from with (.., dict) tuples store the attribute dicts; relabel_nodes(copy=True) carries all data"]
    return res


@rule("R-LABELORDER")
def r_labelorder(ctx) -> RuleResult:
    res = RuleResult("R-LABELORDER", "permutation helper: the returned graph lists its atoms in ascending label order (nodes inserted from sorted(...nodes(data=True)))")
    fi0 = entry(ctx, "permute")
    # the function producing the value returned by the public helper
    sites_ = _rebuild_sites(ctx)
    if not sites_:
        raise AnalysisError("R-LABELORDER: no graph rebuild in the permutation helper; cannot establish node order")
    # every return of the public helper must come (through tucan calls) from a function whose returned graph is a rebuild site
    rebuilt = {(fi.fq, g) for fi, g, _, _ in sites_}

    def returns_rebuilt(fi: FuncInfo, depth=0):
        """True: every returned graph is a rebuild; False: some returned graph positively is something else (a parameter, the
        result of a relabelling / copy); None: a returned value is not followed"""
        if depth > 5:
            return None
        rets = [n.value for n in own_walk(fi.node) if isinstance(n, ast.Return) and n.value is not None]
        if not rets:
            return None
        verdict = True
        for r in rets:
            if isinstance(r, ast.Name):
                if (fi.fq, r.id) in rebuilt:
                    continue
                if r.id in params_of(fi.node) and not assigned_names(fi.node).get(r.id):
                    return False
                defs = assigned_names(fi.node).get(r.id, [])
                vals = [d.value for d in defs if isinstance(d, ast.Assign)]
                if not vals or len(vals) != len(defs):
                    verdict = None
                    continue
                for v in vals:
                    c_ = _call_returns_rebuilt(fi, v, depth) if isinstance(v, ast.Call) else None
                    if c_ is False:
                        return False
                    if c_ is None:
                        verdict = None
            elif isinstance(r, ast.Call):
                c_ = _call_returns_rebuilt(fi, r, depth)
                if c_ is False:
                    return False
                if c_ is None:
                    verdict = None
            else:
                verdict = None
        return verdict

    def _call_returns_rebuilt(fi, call, depth):
        cs = ctx.cg.resolve_call(fi, call, ctx.cg.local_types(fi), set(params_of(fi.node)))
        if cs.kind == "tucan":
            return returns_rebuilt(cs.target, depth + 1)
        if cs.kind == "ext" and cs.target in ("networkx.relabel_nodes", "networkx.convert_node_labels_to_integers"):
            return False            # renames in place of the old listing order
        if isinstance(call.func, ast.Attribute) and call.func.attr == "copy" and not call.args:
            return False
        return None

    ok0 = returns_rebuilt(fi0)
    if ok0 is None:
        raise AnalysisError("R-LABELORDER: a value the permutation helper returns is not followed back to the function that makes it")
    res.inst(fi0.fq, "every returned graph comes from the label-ordered rebuild", "ok" if ok0 else "fail")
    if not ok0:
        res.fail(Finding("R-LABELORDER", fi0.module.rel, fi0.qualname, "return", "a returned graph does not come from the rebuild that orders atoms by label", line=fi0.node.lineno))
    for fi, g, addn, adde in sites_:
        for c in addn:
            tv = _trace_view(fi, c.args[0]) if c.args else None
            if tv is None:
                raise AnalysisError(f"R-LABELORDER: cannot trace `{short(c)}`")
            k, src, data, is_sorted, key = tv
            # a key that takes the label out of the (label, data) pair orders like no key at all (labels are unique)
            by_label = key is not None and (norm(key) in ("itemgetter(0)", "operator.itemgetter(0)") or
                                            (isinstance(key, ast.Lambda) and len(key.args.args) == 1 and isinstance(key.body, ast.Subscript) and isinstance(key.body.value, ast.Name)
                                             and key.body.value.id == key.args.args[0].arg and isinstance(key.body.slice, ast.Constant) and key.body.slice.value == 0))
            ok = is_sorted and (key is None or by_label) and k == "nodes"
            res.inst(fi.fq, short(c), "ok" if ok else "fail", detail=f"sorted={is_sorted} key={norm(key) if key is not None else None}")
            if not ok:
                res.fail(Finding("R-LABELORDER", fi.module.rel, fi.qualname, norm(c),
                                 "nodes are not inserted in ascending label order (needs sorted(<g>.nodes(data=True)) without key/reverse)", line=c.lineno))
        # the first insertion into the fresh graph must be the node insertion (edges first would fix the order)
        first = None
        for n in sorted((x for x in own_walk(fi.node) if isinstance(x, ast.Call) and isinstance(x.func, ast.Attribute) and isinstance(x.func.value, ast.Name)
                         and x.func.value.id == g and x.func.attr.startswith("add_")), key=lambda x: (x.lineno, x.col_offset)):
            first = n
            break
        if first is not None and first.func.attr not in ("add_nodes_from",):
            res.fail(Finding("R-LABELORDER", fi.module.rel, fi.qualname, norm(first), "edges are inserted before the sorted nodes: node order follows the edge list", line=first.lineno))
    return res


# --------------------------------------------------------------------------- R-FIXPOINT / R-OWNFIRST


def _partition_key(ctx) -> str:
    return ctx.repo.const("tucan.graph_attributes", "PARTITION")


def _step_function(ctx) -> FuncInfo:
    """the one-step refinement function: in closure(canonicalize), the function that writes the PARTITION node attribute"""
    part = _partition_key(ctx)
    cands = []
    for fi in closure(ctx, "canonicalize"):
        for cs in sites(ctx, fi):
            if cs.kind == "ext" and cs.target == "networkx.set_node_attributes":
                nm = cs.node.args[2] if len(cs.node.args) >= 3 else kwarg(cs.node, "name")
                if nm is not None and try_const(ctx, fi, nm) == part:
                    cands.append(fi)
        # the attribute written atom by atom:  G.nodes[a][PARTITION] = ...
        for n in own_walk(fi.node):
            if isinstance(n, (ast.Assign, ast.AugAssign)):
                for tg in (n.targets if isinstance(n, ast.Assign) else [n.target]):
                    if isinstance(tg, ast.Subscript) and isinstance(tg.value, ast.Subscript) and isinstance(tg.value.value, ast.Attribute) \
                            and tg.value.value.attr in ("nodes", "_node") and try_const(ctx, fi, tg.slice) == part and fi not in cands:
                        cands.append(fi)
    cands = list({c.fq: c for c in cands}.values())
    if len(cands) > 1:
        # helpers of the step function (called by it) are part of it
        tops = [c for c in cands if not any(c.fq in ctx.cg.closure([o.fq]) for o in cands if o.fq != c.fq)]
        cands = tops or cands
    if len(set(cands)) != 1:
        raise AnalysisError(f"R-FIXPOINT: expected exactly one function writing the partition attribute, found {[c.fq for c in set(cands)]}")
    return cands[0]


def _is_step_call(ctx, fi: FuncInfo, call: ast.Call, step: FuncInfo) -> Optional[ast.expr]:
    """if `call` is step(<g>, PARTITION) return <g>"""
    cs = ctx.cg.resolve_call(fi, call, ctx.cg.local_types(fi), set(params_of(fi.node)))
    if cs.kind == "tucan" and cs.target.fq == step.fq and call.args:
        attr = call.args[1] if len(call.args) > 1 else kwarg(call, "attribute")
        if attr is not None and try_const(ctx, fi, attr) == _partition_key(ctx):
            return call.args[0]
    return None


@rule("R-FIXPOINT")
def r_fixpoint(ctx) -> RuleResult:
    res = RuleResult("R-FIXPOINT", "the refinement driver hands out a partition only when its class count equals that of its one-step refinement (or after >= number_of_nodes rounds)")
    step = _step_function(ctx)
    canon = entry(ctx, "canonicalize")
    part = _partition_key(ctx)
    # drivers: what canonicalize_molecule calls (directly) that reaches the step function
    drivers = []
    for cs in sites(ctx, canon):
        if cs.kind == "tucan" and cs.target.fq != step.fq and step.fq in ctx.cg.closure([cs.target.fq]) and cs.target not in drivers:
            drivers.append(cs.target)
    if not drivers:
        raise AnalysisError("R-FIXPOINT: canonicalize_molecule calls no function that iterates the refinement step (anchor vanished)")
    from ..fixsym import FixSym, Undecided
    for fi in drivers:
        try:
            fs_ = FixSym(ctx, step, part, lambda f, c: _is_step_call(ctx, f, c, step))
            outs = fs_.run(fi)
        except Undecided as ex:
            # forms the path-sensitive interpreter does not read: the idiom-based reading (plain loops / recursion)
            _idiom_driver(ctx, fi, step, res, why=str(ex))
            continue
        if not outs:
            raise AnalysisError(f"R-FIXPOINT: {fi.qualname} neither returns nor yields a partition on any path this rule follows")
        if fs_.silent_ends:
            # the driver can end without having handed out anything: its caller takes the last partition handed out
            bounded = [lp for lp in own_walk(fi.node) if isinstance(lp, ast.For) and isinstance(lp.iter, ast.Call) and isinstance(lp.iter.func, ast.Name) and lp.iter.func.id == "range"
                       and lp.iter.args and all(isinstance(a_, ast.Constant) for a_ in lp.iter.args)]
            if bounded:
                lp = bounded[0]
                res.inst(fi.fq, short(lp, 60), "fail", detail="a fixed number of rounds, nothing handed out when they run out")
                res.fail(Finding("R-FIXPOINT", fi.module.rel, fi.qualname, norm(lp.iter),
                                 f"`for ... in {short(lp.iter)}` bounds the number of refinement rounds by a constant and nothing is handed out when the rounds run out: a molecule that needs more rounds "
                                 "(a long chain) leaves the caller without a partition", line=lp.lineno))
                continue
            raise AnalysisError(f"R-FIXPOINT: {fi.qualname} can end without handing out a partition on some path; whether that path can be taken is not decided")
        pending = []
        for o in outs:
            t = o.term
            if not (isinstance(t, tuple) and t[0] == "g"):
                raise AnalysisError(f"R-FIXPOINT: cannot relate what `{short(o.node)}` in {o.fi.qualname} hands out to the chain of refinements ({t})")
            k = t[1]
            stable = False
            partial = None
            for op, x, y in o.facts:
                if op != "eq":
                    continue
                for a_, b_ in ((x, y), (y, x)):
                    if isinstance(a_, tuple) and isinstance(b_, tuple) and a_[0] == b_[0] == "cnt" and a_[1] == b_[1] and {a_[2], b_[2]} in ({k, k - 1}, {k, k + 1}):
                        if isinstance(a_[1], str) and a_[1].startswith("partial:"):
                            partial = fs_.partial_counts.get(a_[1][len("partial:"):], "it does not count all classes")
                        else:
                            stable = True
            if partial and not stable:
                res.inst(o.fi.fq, short(o.node), "fail", detail=partial)
                res.fail(Finding("R-FIXPOINT", o.fi.module.rel, o.fi.qualname, norm(o.node),
                                 f"a partition is handed out when a partial class count did not change between it and its refinement ({partial}): the classes of the other atoms "
                                 "may still split, the returned partition need not be stable", line=o.node.lineno))
                continue
            if stable:
                res.inst(o.fi.fq, short(o.node), "ok", detail="on every path to it the class count equals that of the neighbouring refinement")
            else:
                pending.append(o)
        if pending:
            # not shown stable by a class-count comparison: the size-bounded and the discrete idiom are read the old way
            sub = RuleResult("idiom")
            try:
                _idiom_driver(ctx, fi, step, sub, why="")
            except AnalysisError:
                sub = None
            if sub is not None and sub.instances and not sub.findings:
                for i_ in sub.instances:
                    res.instances.append(i_)
            else:
                for o in pending:
                    res.inst(o.fi.fq, short(o.node), "fail")
                    res.fail(Finding("R-FIXPOINT", o.fi.module.rel, o.fi.qualname, norm(o.node),
                                     "a partition is handed out on a path on which its class count was not found equal to that of its one-step refinement: "
                                     "the returned partition need not be stable", line=o.node.lineno))
    return res


def _idiom_driver(ctx, fi: FuncInfo, step: FuncInfo, res: RuleResult, why: str):
    """the idiom-based reading: the driver (or a function it is the only caller of) calls the step directly"""
    cands = [fi] + [ctx.cg.funcs[q] for q in ctx.cg.closure([fi.fq]) if q != step.fq]
    direct = [f for f in cands if any(isinstance(n, ast.Call) and _is_step_call(ctx, f, n, step) is not None for n in own_walk(f.node))]
    direct = list({f.fq: f for f in direct}.values())
    if not direct:
        raise AnalysisError(f"R-FIXPOINT: no function refines by the partition attribute (anchor vanished){'; ' + why if why else ''}")
    if [f.fq for f in direct] != [fi.fq]:
        raise AnalysisError(f"R-FIXPOINT: the refinement step is wrapped by {direct[0].qualname}; the iteration around it is not of a form this rule reads"
                            + (f" ({why})" if why else ""))
    _check_driver(ctx, fi, step, res)


def _check_driver(ctx, fi: FuncInfo, step: FuncInfo, res: RuleResult):
    fn = fi.node
    cfg = cfg_of(fn)
    outs = []   # (cfg node, expr) for yield / return of a value
    for n in own_walk(fn):
        if isinstance(n, ast.Return) and n.value is not None:
            outs.append((n, n.value))
        elif isinstance(n, ast.Expr) and isinstance(n.value, ast.Yield) and n.value.value is not None:
            outs.append((n, n.value.value))
    recursive_tail = [n for n in own_walk(fn) if isinstance(n, (ast.YieldFrom, ast.Return)) and
                      isinstance(getattr(n, "value", None), ast.Call) and
                      ctx.cg.resolve_call(fi, n.value, ctx.cg.local_types(fi), set(params_of(fn))).kind == "tucan" and
                      ctx.cg.resolve_call(fi, n.value, ctx.cg.local_types(fi), set(params_of(fn))).target.fq == fi.fq]
    outs = [(n, e) for n, e in outs if not (isinstance(n, ast.Return) and any(n is r for r in recursive_tail))]
    if not outs:
        raise AnalysisError(f"R-FIXPOINT: {fi.qualname} neither returns nor yields a partition")
    defs = assigned_names(fn)

    def step_defs(var: str):
        """[(assign node, source graph expr)] for `var = step(src, PARTITION)`"""
        out = []
        for d in defs.get(var, []):
            if isinstance(d, ast.Assign) and isinstance(d.value, ast.Call):
                src = _is_step_call(ctx, fi, d.value, step)
                if src is not None:
                    out.append((d, src))
        return out

    def count_call(e: ast.expr) -> Optional[tuple[str, str]]:
        """(counting function text, argument variable) for `f(x)` / `len(set(...x...))`"""
        if isinstance(e, ast.Call) and len(e.args) == 1 and isinstance(e.args[0], ast.Name) and not e.keywords:
            return (norm(e.func), e.args[0].id)
        return None

    for node, e in outs:
        if not isinstance(e, ast.Name):
            if isinstance(e, ast.Call) and _is_step_call(ctx, fi, e, step) is not None:
                # handing out step(...) directly without a stability test
                res.inst(fi.fq, short(node), "fail")
                res.fail(Finding("R-FIXPOINT", fi.module.rel, fi.qualname, norm(node), "a partition is handed out without a stability test", line=node.lineno))
                continue
            raise AnalysisError(f"R-FIXPOINT: cannot relate `{short(node)}` in {fi.qualname} to the refinement step")
        var = e.id
        on = cfg.node_of(node)
        verdict = None
        why = ""
        # idiom (i): dominated by the true edge of  count(var) == count(src)  where var = step(src)
        for tn, ta in cfg.ast.items():
            if cfg.kind[tn] != "test" or not hasattr(ta, "test"):
                continue
            t = ta.test
            pol = None
            if isinstance(t, ast.Compare) and len(t.ops) == 1 and isinstance(t.ops[0], (ast.Eq, ast.NotEq)):
                a, b = count_call(t.left), count_call(t.comparators[0])
                if a and b and a[0] == b[0] and a[1] != b[1]:
                    sd = step_defs(var)
                    other = b[1] if a[1] == var else a[1] if b[1] == var else None
                    if other is not None and sd and all(isinstance(src, ast.Name) and src.id == other for _, src in sd):
                        pol = isinstance(t.ops[0], ast.Eq)
                    else:
                        # also accept: handing out the *previous* partition when counts are equal (it is stable too)
                        sd2 = step_defs(other) if other else []
                        if other and sd2 and all(isinstance(src, ast.Name) and src.id == var for _, src in sd2):
                            pol = isinstance(t.ops[0], ast.Eq)
            if pol is None:
                continue
            want = "true" if pol else "false"
            # every path entry -> out node passes edge (tn --want--> ...): remove that edge and test reachability
            g = cfg.g.copy()
            for _, tgt, d in list(g.out_edges(tn, data=True)):
                if d.get("label") in (want, "both"):
                    g.remove_edge(tn, tgt)
            import networkx as nx
            if on not in nx.descendants(g, cfg.ENTRY):
                # and no redefinition of var/other between test and output
                verdict = "ok"
                why = f"guarded by {cfg.describe(tn)} ({want} edge)"
                break
        if verdict is None:
            # idiom (ii): loop `for _ in range(<g>.number_of_nodes())` containing var = step(var) and output after the loop
            for ln, la in cfg.ast.items():
                if cfg.kind[ln] == "for" and isinstance(la.iter, ast.Call) and isinstance(la.iter.func, ast.Name) and la.iter.func.id == "range" and len(la.iter.args) == 1:
                    bound = la.iter.args[0]
                    bt = norm(bound)
                    inloop = any(isinstance(x, ast.Assign) and any(d is x for d, _ in step_defs(var)) for x in own_walk(la))
                    if not inloop:
                        continue
                    if ("number_of_nodes()" in bt or bt.startswith("len(")) and not isinstance(bound, ast.Constant):
                        if cfg.dominates(ln, on):
                            verdict, why = "ok", f"{bt} refinement rounds"
                    elif isinstance(bound, ast.Constant):
                        verdict, why = "fail", f"constant cap of {bound.value} refinement rounds"
        if verdict is None:
            # idiom (iii): the partition is discrete (every atom alone): count(var) == number of nodes, which is stable
            for tn, ta in cfg.ast.items():
                if cfg.kind[tn] != "test" or not hasattr(ta, "test"):
                    continue
                disc = _discrete_test(ctx, fi, ta.test, var)
                if disc is None:
                    continue
                import networkx as nx
                g = cfg.g.copy()
                for _, tgt, d in list(g.out_edges(tn, data=True)):
                    if d.get("label") in ("true", "both"):
                        g.remove_edge(tn, tgt)
                if on not in nx.descendants(g, cfg.ENTRY):
                    if disc:
                        verdict, why = "ok", f"guarded by {cfg.describe(tn)}: every atom is alone in its class"
                    else:
                        verdict, why = "fail", f"guarded by {cfg.describe(tn)}, which does not say that every atom is alone in its class (off by one against the class counter)"
                    break
        if verdict is None:
            sd = step_defs(var)
            if sd:
                verdict, why = "fail", "a refinement is handed out with no stability test and no size-bounded iteration"
            elif var in params_of(fn) or any(isinstance(d, ast.Assign) and isinstance(d.value, ast.Name) for d in defs.get(var, [])):
                verdict, why = "fail", "a partition is handed out without comparing it with its refinement"
            else:
                raise AnalysisError(f"R-FIXPOINT: cannot relate `{short(node)}` in {fi.qualname} to the refinement step")
        res.inst(fi.fq, short(node), verdict, detail=why)
        if verdict != "ok":
            res.fail(Finding("R-FIXPOINT", fi.module.rel, fi.qualname, norm(node), why + ": the returned partition need not be stable", line=node.lineno))
    # the iteration must continue from the refined partition: the recursive call / loop back edge feeds step's result
    for r in recursive_tail:
        arg = r.value.args[0] if r.value.args else None
        ok = isinstance(arg, ast.Name) and bool(step_defs(arg.id))
        res.inst(fi.fq, short(r), "ok" if ok else "fail", detail="continues from the refined partition")
        if not ok:
            res.fail(Finding("R-FIXPOINT", fi.module.rel, fi.qualname, norm(r), "refinement continues from something other than the refined partition", line=r.lineno))


def _counter_offset(ctx, fi: FuncInfo, call: ast.Call) -> Optional[int]:
    """what a class-counting call returns relative to the number of classes: max(ids) -> -1, len(set(ids)) -> 0"""
    cs = ctx.cg.resolve_call(fi, call, ctx.cg.local_types(fi), set(params_of(fi.node)))
    if cs.kind != "tucan":
        return None
    rets = [n.value for n in own_walk(cs.target.node) if isinstance(n, ast.Return) and n.value is not None]
    if len(rets) != 1:
        return None
    r = rets[0]
    if isinstance(r, ast.Call) and isinstance(r.func, ast.Name) and r.func.id == "max" and kwarg(r, "key") is None:
        return -1
    if isinstance(r, ast.Call) and isinstance(r.func, ast.Name) and r.func.id == "len" and r.args and isinstance(r.args[0], ast.Call) \
            and isinstance(r.args[0].func, ast.Name) and r.args[0].func.id in ("set", "frozenset"):
        return 0
    if isinstance(r, ast.BinOp) and isinstance(r.op, ast.Add) and isinstance(r.right, ast.Constant) and isinstance(r.left, ast.Call) \
            and isinstance(r.left.func, ast.Name) and r.left.func.id == "max":
        return -1 + r.right.value
    return None


def _discrete_test(ctx, fi: FuncInfo, test: ast.expr, var: str) -> Optional[bool]:
    """`count(var) == var.number_of_nodes() + k`: True if that means 'as many classes as atoms', False if it is such a
    comparison but off, None if the test is something else"""
    if not (isinstance(test, ast.Compare) and len(test.ops) == 1 and isinstance(test.ops[0], ast.Eq)):
        return None
    sides = [test.left, test.comparators[0]]
    cnt = next((x for x in sides if isinstance(x, ast.Call) and len(x.args) == 1 and isinstance(x.args[0], ast.Name) and x.args[0].id == var
                and _counter_offset(ctx, fi, x) is not None), None)
    if cnt is None:
        return None
    other = sides[1] if sides[0] is cnt else sides[0]
    k = 0
    if isinstance(other, ast.BinOp) and isinstance(other.op, (ast.Add, ast.Sub)) and isinstance(other.right, ast.Constant) and isinstance(other.right.value, int):
        k = other.right.value if isinstance(other.op, ast.Add) else -other.right.value
        other = other.left
    t = norm(other)
    if t not in (f"{var}.number_of_nodes()", f"len({var})", f"len({var}.nodes)", f"{var}.order()"):
        return None
    return _counter_offset(ctx, fi, cnt) == k


@rule("R-OWNFIRST")
def r_ownfirst(ctx) -> RuleResult:
    """decided by following the step function with the K-domain interpreter (keyshape.py): the roles of its values are
    read off whatever way the code is cut into functions, loops and comprehensions"""
    from ..keyshape import KeyInterp, Undecided
    res = RuleResult("R-OWNFIRST", "refinement key = (own value, sorted neighbour values); class id = rank among the sorted set of keys (dense 0..k-1)")
    step = _step_function(ctx)
    K = KeyInterp(ctx, _partition_key(ctx))
    try:
        K.run(step)
    except Undecided as ex:
        raise AnalysisError(f"R-OWNFIRST: cannot follow {step.qualname}: {ex}")
    if not K.keys:
        raise AnalysisError(f"R-OWNFIRST: no per-atom refinement key seen in {step.qualname}")
    if not K.sinks:
        raise AnalysisError(f"R-OWNFIRST: {step.qualname} does not write the partition attribute in a way this rule follows")
    seen = set()
    for segs, node, f in K.keys:
        sig = (f.fq, getattr(node, "lineno", 0), segs)
        if sig in seen:
            continue
        seen.add(sig)

        def flat(sg):
            out = []
            for s_ in sg:
                out.extend(flat(s_[1]) if s_[0] == "nested" else [s_])
            return out
        fl = flat(segs)
        kinds_ = [s_[0] for s_ in fl]
        if any(k_ in ("keysorted",) for k_ in kinds_) or not fl:
            raise AnalysisError(f"R-OWNFIRST: key `{short(node)}` in {f.qualname} is ordered by a key function this rule does not follow")
        ok1 = kinds_[0] == "own" and kinds_.count("own") == 1 and "mixed-sorted" not in kinds_
        res.inst(f.fq, f"key starts with the atom's own value: {short(node, 60)}", "ok" if ok1 else "fail", detail=f"shape {fl}")
        if not ok1:
            res.fail(Finding("R-OWNFIRST", f.module.rel, f.qualname, norm(node), "refinement key does not start with the atom's own class: classes may merge across rounds", line=getattr(node, "lineno", None)))
        unsorted = [s_ for s_ in fl if s_[0] == "nbr" and s_[1] != "sorted"]
        has_nbr = any(s_[0] == "nbr" for s_ in fl)
        ok2 = has_nbr and not unsorted
        res.inst(f.fq, f"neighbour values sorted: {short(node, 60)}", "ok" if ok2 else "fail")
        if not ok2:
            why = "neighbour values are not sorted" if has_nbr else "the key holds no neighbour values"
            if any(s_[0] == "nbr" and s_[1] == "partial" for s_ in fl):
                why = "only part of the neighbours enters the key (which part depends on the listing order)"
            res.fail(Finding("R-OWNFIRST", f.module.rel, f.qualname, norm(node), f"{why}: the key depends on neighbour listing order", line=getattr(node, "lineno", None)))
    # ranks
    quals = {(q, getattr(n, "lineno", 0), f.fq): (q, n, f) for q, n, f in K.ranks}
    if not quals:
        raise AnalysisError(f"R-OWNFIRST: cannot see how {step.qualname} turns keys into class numbers")
    for q, n, f in quals.values():
        ok = q == "dense"
        why = {"dense": "rank over sorted(set(keys))", "listing": "rank table is not built over a sorted sequence: class ids depend on listing order",
               "dup": "rank table is built over keys with duplicates: class ids are not dense"}.get(q, q)
        res.inst(f.fq, "class id = rank among sorted(set(keys))", "ok" if ok else "fail", detail=why)
        if not ok:
            res.fail(Finding("R-OWNFIRST", f.module.rel, f.qualname, norm(n), why, line=getattr(n, "lineno", None)))
    for what, n, f in K.sinks:
        if what != "class":
            raise AnalysisError(f"R-OWNFIRST: what `{short(n)}` writes under the partition attribute is not recognisably the atom's class ({what})")
        res.inst(f.fq, f"`{short(n, 60)}` writes each atom's class", "ok")
    return res


def _dense_rank(ctx, fi: FuncInfo, set_call: ast.Call) -> tuple[bool, str]:
    fn = fi.node

    def resolve(e, depth=0):
        if isinstance(e, ast.Name) and depth < 6:
            d = single_def(fn, e.id)
            if d is not None:
                return resolve(d, depth + 1)
        return e
    vals = resolve(set_call.args[1]) if len(set_call.args) > 1 else None
    # dict(zip(nodes, partitions))  or {n: p for n, p in zip(..)}
    parts = None
    if isinstance(vals, ast.Call) and isinstance(vals.func, ast.Name) and vals.func.id == "dict" and vals.args:
        z = resolve(vals.args[0])
        if isinstance(z, ast.Call) and isinstance(z.func, ast.Name) and z.func.id == "zip" and len(z.args) == 2:
            parts = resolve(z.args[1])
    elif isinstance(vals, ast.DictComp):
        z = resolve(vals.generators[0].iter)
        if isinstance(z, ast.Call) and isinstance(z.func, ast.Name) and z.func.id == "zip" and len(z.args) == 2 and \
                isinstance(vals.generators[0].target, ast.Tuple) and norm(vals.value) == norm(vals.generators[0].target.elts[1]):
            parts = resolve(z.args[1])
        elif isinstance(vals.value, ast.Subscript):
            parts = vals   # {atom: rank[key(atom)] ...}
    if parts is None:
        raise AnalysisError(f"R-OWNFIRST: cannot see how `{short(set_call)}` pairs atoms with classes")
    # parts = [rank[k] for k in keys]
    sub = None
    if isinstance(parts, ast.ListComp) and isinstance(parts.elt, ast.Subscript):
        sub = parts.elt
        keys_expr = resolve(parts.generators[0].iter)
    elif isinstance(parts, ast.DictComp) and isinstance(parts.value, ast.Subscript):
        sub = parts.value
        keys_expr = None
    if sub is None:
        raise AnalysisError(f"R-OWNFIRST: class values `{short(parts)}` are not rank look-ups")
    rank = resolve(sub.value)
    # rank = dict(zip(U, range(len(U))))  |  {k: i for i, k in enumerate(U)}  with U = sorted(set(keys))
    U = None
    if isinstance(rank, ast.Call) and isinstance(rank.func, ast.Name) and rank.func.id == "dict" and rank.args:
        z = resolve(rank.args[0])
        if isinstance(z, ast.Call) and isinstance(z.func, ast.Name) and z.func.id == "zip" and len(z.args) == 2:
            a, b = z.args
            rb = resolve(b)
            if isinstance(rb, ast.Call) and isinstance(rb.func, ast.Name) and rb.func.id == "list" and rb.args:
                rb = rb.args[0]
            if isinstance(rb, ast.Call) and isinstance(rb.func, ast.Name) and rb.func.id == "range" and len(rb.args) == 1 and \
                    norm(rb.args[0]) == f"len({norm(a)})":
                U = a
            elif isinstance(rb, ast.Call) and norm(rb.func) in ("itertools.count", "count") and not rb.args:
                U = a
            else:
                return False, f"ranks `{short(b)}` are not 0..len-1 over `{short(a)}`"
    elif isinstance(rank, ast.DictComp) and len(rank.generators) == 1:
        it = resolve(rank.generators[0].iter)
        tg = rank.generators[0].target
        if isinstance(it, ast.Call) and isinstance(it.func, ast.Name) and it.func.id == "enumerate" and len(it.args) == 1 and not it.keywords \
                and isinstance(tg, ast.Tuple) and len(tg.elts) == 2 and norm(rank.key) == norm(tg.elts[1]) and norm(rank.value) == norm(tg.elts[0]):
            U = it.args[0]
    if U is None:
        raise AnalysisError(f"R-OWNFIRST: rank table `{short(rank)}` not recognised")
    Ur = resolve(U)
    if not (isinstance(Ur, ast.Call) and isinstance(Ur.func, ast.Name) and Ur.func.id == "sorted" and Ur.args and kwarg(Ur, "key") is None):
        return False, f"rank table is built over `{short(Ur)}`, not over a sorted sequence: class ids depend on listing order"
    inner = resolve(Ur.args[0])
    if not (isinstance(inner, ast.Call) and isinstance(inner.func, ast.Name) and inner.func.id in ("set", "frozenset") and inner.args):
        return False, f"rank table is built over `{short(inner)}`: duplicates make class ids non-dense"
    return True, f"rank over sorted(set({short(inner.args[0], 40)}))"


# --------------------------------------------------------------------------- R-FAILSITES


@rule("R-FAILSITES")
def r_failsites(ctx) -> RuleResult:
    """canonicalisation and serialisation contain no statement that can reject a molecule: no raise, no size limit,
    no lowered recursion limit; the one assertion present is discharged by the traversal's own loop condition"""
    res = RuleResult("R-FAILSITES", "canonicalize_molecule / serialize_molecule contain no raise, no size guard and no assertion other than the label-count check that the traversal loop discharges; the parser raises only its own exception")
    fis = closure(ctx, "canonicalize", "serialize")
    n = 0
    for fi in fis:
        fn = fi.node
        for x in own_walk(fn):
            if isinstance(x, ast.Raise):
                n += 1
                out_of_domain = _raise_outside_domain(ctx, fi, x)
                res.inst(fi.fq, short(x), "ok" if out_of_domain else "fail", detail=out_of_domain or "")
                if not out_of_domain:
                    res.fail(Finding("R-FAILSITES", fi.module.rel, fi.qualname, norm(x), "the identifier pipeline can reject a molecule with an exception", line=x.lineno))
            elif isinstance(x, ast.Assert):
                n += 1
                ok, why = _assert_discharged(ctx, fi, x)
                res.inst(fi.fq, short(x), "ok" if ok else "fail", detail=why)
                if not ok:
                    res.fail(Finding("R-FAILSITES", fi.module.rel, fi.qualname, norm(x), f"assertion may fail for some molecule: {why}", line=x.lineno))
            elif isinstance(x, ast.Call):
                r = ctx.repo.resolve_dotted(fi.module, x.func)
                if r and r[0] == "ext" and r[1] in ("sys.setrecursionlimit", "sys.exit", "os._exit", "signal.alarm", "resource.setrlimit"):
                    n += 1
                    res.inst(fi.fq, short(x), "fail")
                    res.fail(Finding("R-FAILSITES", fi.module.rel, fi.qualname, norm(x), f"`{r[1]}` inside the pipeline limits the molecules it can process", line=x.lineno))
            elif isinstance(x, (ast.If, ast.While)) and _is_size_guard(x.test):
                n += 1
                res.inst(fi.fq, short(x.test), "fail")
                res.fail(Finding("R-FAILSITES", fi.module.rel, fi.qualname, norm(x.test), "behaviour depends on a size threshold of the molecule: large inputs take a different path", line=x.lineno))
        res.inst(fi.fq, "no rejecting construct", "ok") if not any(i["function"] == fi.fq for i in res.instances) else None
    res.counts = {"functions": len(fis), "sites": n}
    res.notes.append("index / key errors inside the pipeline are not decided here (enumerated only through R-BIJ, R-KEYS, R-ATTRREAD)")
    return res


def _raise_outside_domain(ctx, fi: FuncInfo, r: ast.Raise) -> Optional[str]:
    """why the raise cannot be reached for a molecule with at least one atom passed as a graph (the property's domain), or None:
    its guards hold only for an empty molecule / collection (evaluated with the size set to 1, 2 and 5000), or test the
    argument's type"""
    from ..concrete import ceval
    from .common import parent_map
    pm = parent_map(fi.node)
    guards = []
    cur, child = pm.get(r), r
    while cur is not None and cur is not fi.node:
        if isinstance(cur, ast.If):
            in_body = any(child is b_ or any(z is child for z in ast.walk(b_)) for b_ in cur.body)
            guards.append((cur.test, in_body))
        elif isinstance(cur, (ast.For, ast.While, ast.Try, ast.With)):
            pass
        child, cur = cur, pm.get(cur)
    # guard clause form:  if ok: return ...  (earlier at the same level) is not read; only enclosing tests are
    if not guards:
        return None
    params = set(params_of(fi.node))
    for test, pol in guards:
        size_calls = {}
        for z in ast.walk(test):
            if isinstance(z, ast.Call) and ((isinstance(z.func, ast.Name) and z.func.id == "len" and len(z.args) == 1) or
                                            (isinstance(z.func, ast.Attribute) and z.func.attr in ("number_of_nodes", "order", "__len__") and not z.args)):
                size_calls[norm(z)] = z
        if size_calls:
            try:
                vals = [bool(ceval(test, {}, {k: n_ for k in size_calls})) for n_ in (1, 2, 5000)]
            except (NameError, UnboundLocalError):
                raise
            except Exception:
                continue
            if all(v != pol for v in vals):
                return f"guarded by `{short(test, 50)}`: reachable for an empty molecule only"
        t = test
        neg = False
        while isinstance(t, ast.UnaryOp) and isinstance(t.op, ast.Not):
            t, neg = t.operand, not neg
        if isinstance(t, ast.Name) and t.id in params and (neg == pol):
            return f"guarded by `{short(test, 50)}`: reachable for an empty argument only"
        if isinstance(t, ast.Call) and isinstance(t.func, ast.Name) and t.func.id == "isinstance" and t.args and isinstance(t.args[0], ast.Name) and t.args[0].id in params and (neg == pol):
            return f"guarded by `{short(test, 50)}`: a type check of the argument"
    return None


def _is_size_guard(test: ast.expr) -> bool:
    """comparison of a node/edge count (or len of the graph) with a constant >= 16"""
    for c in ast.walk(test):
        if isinstance(c, ast.Compare) and len(c.ops) == 1 and isinstance(c.ops[0], (ast.Gt, ast.GtE, ast.Lt, ast.LtE)):
            sides = [c.left, c.comparators[0]]
            consts = [s for s in sides if isinstance(s, ast.Constant) and isinstance(s.value, int) and s.value >= 16]
            sizes = [s for s in sides if isinstance(s, ast.Call) and ((isinstance(s.func, ast.Attribute) and s.func.attr in ("number_of_nodes", "number_of_edges", "order", "size"))
                                                                     or (isinstance(s.func, ast.Name) and s.func.id == "len"))]
            if consts and sizes:
                return True
    return False


def _assert_discharged(ctx, fi: FuncInfo, a: ast.Assert) -> tuple[bool, str]:
    """`assert len(M) == len(G.nodes)` after `while unexplored := sorted([k for k, v in G.nodes(data=EXPLORED) if not v])`:
    the loop only exits when every node is explored, and every explored node was given an entry of M"""
    t = a.test
    if _is_size_guard(t):
        return False, "the assertion limits the size of the molecule"
    from ..sizedom import assertion_holds
    why_ = assertion_holds(ctx, fi, a)
    if why_:
        return True, why_
    if not (isinstance(t, ast.Compare) and len(t.ops) == 1 and isinstance(t.ops[0], ast.Eq)):
        raise AnalysisError(f"R-FAILSITES: cannot decide whether `{short(a)}` in {fi.qualname} holds for every molecule (not the label-count check this rule knows)")
    sides = [norm(t.left), norm(t.comparators[0])]
    m = [s for s in sides if s.startswith("len(") and not s.endswith(".nodes)")]
    if not m:
        raise AnalysisError(f"R-FAILSITES: cannot decide whether `{short(a)}` in {fi.qualname} holds for every molecule (not the label-count check this rule knows)")
    mapping = m[0][4:-1]
    fn = fi.node
    cfg = cfg_of(fn)
    explored = ctx.repo.try_const("tucan.graph_attributes", "EXPLORED")
    loops = [w for w in own_walk(fn) if isinstance(w, ast.While) and isinstance(w.test, ast.NamedExpr)]
    # form C: a loop over *all* nodes; each pass starts a queue with that node and the first thing the traversal does with a
    # node taken from the queue is to give it a label (unless it has one): so every node has a label after its own pass
    gname = params_of(fn)[0] if params_of(fn) else None
    all_nodes = {gname, f"sorted({gname})", f"{gname}.nodes", f"sorted({gname}.nodes)", f"sorted({gname}.nodes())", f"{gname}.nodes()", f"list({gname})", f"sorted(list({gname}))"}
    for lp in [x for x in own_walk(fn) if isinstance(x, ast.For)]:
        if norm(lp.iter) not in all_nodes or not isinstance(lp.target, ast.Name):
            continue
        x_ = lp.target.id
        q_ = None
        for st_ in lp.body:
            if isinstance(st_, ast.Assign) and isinstance(st_.targets[0], ast.Name) and norm(st_.value) in (f"deque([{x_}])", f"[{x_}]", f"collections.deque([{x_}])"):
                q_ = st_.targets[0].id
        wl = next((w for w in lp.body if isinstance(w, ast.While) and q_ is not None and norm(w.test) in (q_, f"len({q_}) > 0", f"len({q_})")), None)
        if wl is None:
            continue
        body = list(wl.body)
        if not (body and isinstance(body[0], ast.Assign) and isinstance(body[0].targets[0], ast.Name) and norm(body[0].value) in (f"{q_}.pop()", f"{q_}.popleft()", f"{q_}.pop(0)")):
            continue
        a_ = body[0].targets[0].id
        rest = body[1:]
        if rest and isinstance(rest[0], ast.If) and norm(rest[0].test) == f"{a_} in {mapping}" and len(rest[0].body) == 1 and isinstance(rest[0].body[0], ast.Continue) and not rest[0].orelse:
            rest = rest[1:]
        if rest and isinstance(rest[0], ast.Assign) and isinstance(rest[0].targets[0], ast.Subscript) and norm(rest[0].targets[0].value) == mapping and norm(rest[0].targets[0].slice) == a_:
            # nothing else touches the queue between its creation and the loop, and the pass is not left before the loop
            i_q = next(i for i, st_ in enumerate(lp.body) if isinstance(st_, ast.Assign) and isinstance(st_.targets[0], ast.Name) and st_.targets[0].id == q_)
            i_w = lp.body.index(wl)
            between = lp.body[i_q + 1:i_w]
            before = lp.body[:i_q]
            ok_before = all(isinstance(b_, ast.If) and norm(b_.test) == f"{x_} in {mapping}" and len(b_.body) == 1 and isinstance(b_.body[0], ast.Continue) and not b_.orelse for b_ in before)
            if not between and ok_before and cfg.node_of(lp) is not None and cfg.node_of(a) is not None and cfg.dominates(cfg.node_of(lp), cfg.node_of(a)) \
                    and not any(isinstance(y, (ast.Break, ast.Return)) for y in ast.walk(lp)):
                return True, f"every node starts a queue in its own pass of `{short(lp, 40)}` and the first node taken from a queue is labelled unless it has a label"
    if not loops:
        raise AnalysisError(f"R-FAILSITES: `{short(a)}` in {fi.qualname}: the traversal that fills `{mapping}` is not written as the `while unexplored := ...` loop this rule reads; "
                            "whether every node has a label at that point is neither proved nor refuted")
    matched_form = False
    why_not = "no loop shows that every node has received a label before this point"
    for w in loops:
        comp = w.test.value
        while isinstance(comp, ast.Call) and isinstance(comp.func, ast.Name) and comp.func.id in ("sorted", "list", "tuple") and comp.args:
            comp = comp.args[0]
        if not (isinstance(comp, (ast.ListComp, ast.GeneratorExp)) and len(comp.generators) == 1 and len(comp.generators[0].ifs) == 1):
            continue
        it = comp.generators[0].iter
        cond = comp.generators[0].ifs[0]
        marks = []          # (statement node, key text)
        d = kwarg(it, "data") if isinstance(it, ast.Call) else None
        if d is not None and try_const(ctx, fi, d) == explored and isinstance(cond, ast.UnaryOp) and isinstance(cond.op, ast.Not):
            # form A: nodes whose EXPLORED attribute is false
            for s_ in ast.walk(w):
                if isinstance(s_, ast.Assign) and isinstance(s_.targets[0], ast.Subscript) and try_const(ctx, fi, s_.targets[0].slice) == explored \
                        and isinstance(s_.value, ast.Constant) and s_.value.value is True and isinstance(s_.targets[0].value, ast.Subscript):
                    marks.append((s_, norm(s_.targets[0].value.slice)))
        elif isinstance(cond, ast.Compare) and len(cond.ops) == 1 and isinstance(cond.ops[0], ast.NotIn) and isinstance(cond.comparators[0], ast.Name) \
                and isinstance(comp.generators[0].target, ast.Name) and norm(cond.left) == comp.generators[0].target.id:
            # form B: nodes that are not yet in a local set of explored nodes
            sname = cond.comparators[0].id
            for s_ in ast.walk(w):
                if isinstance(s_, ast.Expr) and isinstance(s_.value, ast.Call) and isinstance(s_.value.func, ast.Attribute) and s_.value.func.attr == "add" \
                        and isinstance(s_.value.func.value, ast.Name) and s_.value.func.value.id == sname and s_.value.args:
                    marks.append((s_, norm(s_.value.args[0])))
            # nothing else may put nodes into the set (update / |=) or take them out
            if any(isinstance(x, ast.Call) and isinstance(x.func, ast.Attribute) and isinstance(x.func.value, ast.Name) and x.func.value.id == sname
                   and x.func.attr in ("update", "discard", "remove", "clear", "pop") for x in own_walk(fn)):
                continue
        else:
            continue
        matched_form = True
        # inside the loop: every marking of a node as explored goes together with a store M[x] = .. in the same block
        stores = [s_ for s_ in ast.walk(w) if isinstance(s_, ast.Assign) and isinstance(s_.targets[0], ast.Subscript) and norm(s_.targets[0].value) == mapping]
        if not stores or not marks:
            why_not = "inside the traversal loop no label is stored, or no node is marked explored"
            continue
        all_paired = True
        for mk, key_m in marks:
            mn = cfg.node_of(mk)
            paired = False
            for st_ in stores:
                sn = cfg.node_of(st_)
                if sn is not None and mn is not None and norm(st_.targets[0].slice) == key_m and (cfg.dominates(sn, mn) or cfg.dominates(mn, sn)):
                    paired = True
            if not paired:
                all_paired = False
                why_not = f"`{short(mk)}` marks a node explored on a path that does not store its label"
        if not all_paired:
            continue
        wn = cfg.node_of(w)
        an = cfg.node_of(a)
        if wn is not None and an is not None and cfg.dominates(wn, an):
            return True, "the traversal loop exits only when no node is unexplored, and a node is marked explored together with receiving its label"
    if not matched_form:
        raise AnalysisError(f"R-FAILSITES: `{short(a)}` in {fi.qualname}: no loop of the form `while unexplored := <nodes not yet explored>` found; "
                            "whether every node has a label at that point is neither proved nor refuted")
    return False, why_not



# --------------------------------------------------------------------------- R-REBUILD


def _norm_desc(d):
    """zip(X, range(..)) numbers X by position: the same map as enumerate(X)"""
    if isinstance(d, tuple) and d and d[0] == "zip":
        b = d[2].replace(" ", "")
        if b.startswith("range(") or b.startswith("list(range("):
            return ("enum", d[1])
    return d


def _mapping_descriptor(fi: FuncInfo, e: ast.expr, depth=0):
    return _norm_desc(_mapping_descriptor0(fi, e, depth))


def _mapping_descriptor0(fi: FuncInfo, e: ast.expr, depth=0):
    """descriptor of an old->new label map: ('zip', A, B) for dict(zip(A, B)); ('enum', X) for {old: new for new, old in enumerate(X)}"""
    if depth > 4 or e is None:
        return None
    if isinstance(e, ast.Name):
        if single_def(fi.node, e.id) is None and e.id in params_of(fi.node) and e.id not in assigned_names(fi.node):
            return ("var", e.id)            # a map handed in by the caller: the same object wherever it is used
        return _mapping_descriptor0(fi, single_def(fi.node, e.id), depth + 1)
    if isinstance(e, ast.Call) and isinstance(e.func, ast.Name) and e.func.id == "dict" and e.args:
        z = e.args[0]
        if isinstance(z, ast.Call) and isinstance(z.func, ast.Name) and z.func.id == "zip" and len(z.args) == 2:
            return ("zip", norm(z.args[0]), norm(z.args[1]))
    if isinstance(e, ast.DictComp) and len(e.generators) == 1:
        g = e.generators[0]
        if isinstance(g.iter, ast.Call) and isinstance(g.iter.func, ast.Name) and g.iter.func.id == "enumerate" and isinstance(g.target, ast.Tuple) and len(g.target.elts) == 2:
            new, old = g.target.elts
            if norm(e.key) == norm(old) and norm(e.value) == norm(new):
                return ("enum", norm(g.iter.args[0]))
        if isinstance(g.iter, ast.Call) and isinstance(g.iter.func, ast.Name) and g.iter.func.id == "zip" and len(g.iter.args) == 2 and isinstance(g.target, ast.Tuple):
            a, b = g.target.elts
            if norm(e.key) == norm(a) and norm(e.value) == norm(b):
                return ("zip", norm(g.iter.args[0]), norm(g.iter.args[1]))
    return None


@rule("R-REBUILD")
def r_rebuild(ctx) -> RuleResult:
    res = RuleResult("R-REBUILD", "wherever a graph is rebuilt from another inside the pipeline, nodes and bond endpoints go through the same label map (or both keep their labels)")
    fis = [f for f in all_public_closure(ctx) if f.name != "graph_from_molecule"]
    n = 0
    for fi in fis:
        fn = fi.node
        for name, defs in assigned_names(fn).items():
            for d in defs:
                v = d.value if isinstance(d, (ast.Assign, ast.AnnAssign)) else None
                if not isinstance(v, ast.Call):
                    continue
                r = ctx.repo.resolve_dotted(fi.module, v.func)
                if not (r and r[0] == "ext" and r[1] == "networkx.Graph" and not v.args):
                    continue
                addn = [c for c in own_walk(fn) if isinstance(c, ast.Call) and isinstance(c.func, ast.Attribute) and c.func.attr == "add_nodes_from" and isinstance(c.func.value, ast.Name) and c.func.value.id == name]
                adde = [c for c in own_walk(fn) if isinstance(c, ast.Call) and isinstance(c.func, ast.Attribute) and c.func.attr == "add_edges_from" and isinstance(c.func.value, ast.Name) and c.func.value.id == name]
                node_src = addn[0].args[0] if addn and addn[0].args else None
                if not addn:
                    # `for ..: G.add_node(label, **src.nodes[key])`  ==  add_nodes_from((label, src.nodes[key]) for ..)
                    for lp in [x for x in own_walk(fn) if isinstance(x, ast.For)]:
                        for c in ast.walk(lp):
                            if isinstance(c, ast.Call) and isinstance(c.func, ast.Attribute) and c.func.attr == "add_node" and isinstance(c.func.value, ast.Name) and c.func.value.id == name and c.args:
                                data = next((k.value for k in c.keywords if k.arg is None), None)
                                if data is not None:
                                    node_src = ast.GeneratorExp(ast.Tuple([c.args[0], data], ast.Load()), [ast.comprehension(lp.target, lp.iter, [], 0)])
                                    ast.copy_location(node_src, c)
                                    ast.fix_missing_locations(node_src)
                                    addn = [c]
                if not addn or not adde or node_src is None:
                    continue
                n += 1
                nmap = _norm_desc(_node_label_map(fi, node_src))
                emap = _norm_desc(_edge_label_map(fi, adde[0].args[0]))
                if nmap is None or emap is None:
                    raise AnalysisError(f"R-REBUILD: cannot see how `{short(addn[0], 60)}` / `{short(adde[0], 60)}` in {fi.qualname} name the atoms")
                ok = nmap == emap
                res.inst(fi.fq, f"{name}: nodes {nmap}, bond endpoints {emap}", "ok" if ok else "fail")
                if not ok:
                    res.fail(Finding("R-REBUILD", fi.module.rel, fi.qualname, norm(adde[0]),
                                     f"the rebuilt graph names its atoms by {nmap} but its bond endpoints by {emap}: attributes move to other atoms while the bonds stay", line=adde[0].lineno))
    res.counts = {"rebuild_sites": n}
    return res


def _node_label_map(fi: FuncInfo, e: ast.expr, depth=0):
    """'same' if the inserted labels are the source graph's own labels, else a mapping descriptor"""
    if depth > 5:
        return None
    if isinstance(e, ast.Name):
        d = single_def(fi.node, e.id)
        if d is None and e.id in params_of(fi.node):
            return "same"          # a table handed in (atom label -> record): iterating it gives its own keys
        return _node_label_map(fi, d, depth + 1) if d is not None else None
    if isinstance(e, ast.Call) and isinstance(e.func, ast.Name) and e.func.id in ("sorted", "list", "tuple", "reversed") and e.args:
        return _node_label_map(fi, e.args[0], depth + 1)
    if isinstance(e, ast.Call) and isinstance(e.func, ast.Attribute) and e.func.attr == "keys" and isinstance(e.func.value, ast.Name) and e.func.value.id in params_of(fi.node):
        return "same"
    if isinstance(e, ast.Call) and isinstance(e.func, ast.Attribute) and e.func.attr in ("nodes", "data", "items"):
        return "same"
    if isinstance(e, (ast.GeneratorExp, ast.ListComp)) and len(e.generators) == 1 and isinstance(e.elt, ast.Tuple) and len(e.elt.elts) == 2:
        g = e.generators[0]
        lab, dat = e.elt.elts
        key = dat.slice if isinstance(dat, ast.Subscript) else None
        if isinstance(key, ast.Name) and isinstance(lab, ast.Name):
            if key.id == lab.id:
                return "same"
            # (new, m.nodes[old]) for new, old in enumerate(X)  /  for old, new in zip(A, B)
            if isinstance(g.iter, ast.Call) and isinstance(g.iter.func, ast.Name) and isinstance(g.target, ast.Tuple) and len(g.target.elts) == 2:
                t0, t1 = [norm(t) for t in g.target.elts]
                if g.iter.func.id == "enumerate" and t0 == lab.id and t1 == key.id:
                    return ("enum", norm(g.iter.args[0]))
                if g.iter.func.id == "zip" and len(g.iter.args) == 2:
                    if t0 == key.id and t1 == lab.id:
                        return ("zip", norm(g.iter.args[0]), norm(g.iter.args[1]))
                    if t1 == key.id and t0 == lab.id:
                        return ("zip", norm(g.iter.args[1]), norm(g.iter.args[0]))
        if isinstance(lab, ast.Name) and isinstance(dat, ast.Name) and isinstance(g.target, ast.Tuple) and [norm(t) for t in g.target.elts] == [lab.id, dat.id]:
            return _node_label_map(fi, g.iter, depth + 1)
        # (atom, {...new data...}) for atom, .. in src.nodes(..): the labels are the source's own, whatever data goes with them
        if isinstance(lab, ast.Name) and isinstance(g.target, ast.Tuple) and g.target.elts and isinstance(g.target.elts[0], ast.Name) and g.target.elts[0].id == lab.id \
                and _node_label_map(fi, g.iter, depth + 1) == "same":
            return "same"
        if isinstance(lab, ast.Name) and isinstance(g.target, ast.Name) and g.target.id == lab.id and not isinstance(dat, ast.Subscript):
            it_ = g.iter
            if (isinstance(it_, ast.Name)) or (isinstance(it_, ast.Attribute) and it_.attr == "nodes") or _node_label_map(fi, it_, depth + 1) == "same":
                return "same"
        # (M[atom], {...}) for atom, .. in src.nodes(..)
        if isinstance(lab, ast.Subscript) and isinstance(lab.value, ast.Name) and isinstance(lab.slice, ast.Name) and isinstance(g.target, ast.Tuple) and g.target.elts \
                and isinstance(g.target.elts[0], ast.Name) and g.target.elts[0].id == lab.slice.id and _node_label_map(fi, g.iter, depth + 1) == "same":
            return _mapping_descriptor(fi, lab.value)
        # (M[old], attrs) for old, attrs in src.nodes(data=True)
        if isinstance(lab, ast.Subscript) and isinstance(lab.value, ast.Name) and isinstance(lab.slice, ast.Name) and isinstance(dat, ast.Name) \
                and isinstance(g.target, ast.Tuple) and [norm(t) for t in g.target.elts] == [lab.slice.id, dat.id] and _node_label_map(fi, g.iter, depth + 1) == "same":
            return _mapping_descriptor(fi, lab.value)
    return None


def _edge_label_map(fi: FuncInfo, e: ast.expr, depth=0):
    if depth > 5:
        return None
    if isinstance(e, ast.Name):
        d = single_def(fi.node, e.id)
        if d is None and e.id in params_of(fi.node):
            return "same"          # a bond table handed in ((label, label) -> record): its keys are the pairs as they are
        return _edge_label_map(fi, d, depth + 1) if d is not None else None
    if isinstance(e, ast.Call) and isinstance(e.func, ast.Name) and e.func.id in ("sorted", "list", "tuple") and e.args:
        return _edge_label_map(fi, e.args[0], depth + 1)
    if isinstance(e, ast.Call) and isinstance(e.func, ast.Attribute) and e.func.attr == "keys" and isinstance(e.func.value, ast.Name) and e.func.value.id in params_of(fi.node):
        return "same"
    if isinstance(e, ast.Call) and isinstance(e.func, ast.Attribute) and e.func.attr in ("edges", "data"):
        return "same"
    if isinstance(e, ast.Attribute) and e.attr == "edges":
        return "same"
    if isinstance(e, (ast.GeneratorExp, ast.ListComp)) and len(e.generators) == 1 and isinstance(e.elt, ast.Tuple) and len(e.elt.elts) >= 2:
        a, b = e.elt.elts[:2]
        tn = [norm(t) for t in (e.generators[0].target.elts if isinstance(e.generators[0].target, ast.Tuple) else [e.generators[0].target])]
        if isinstance(a, ast.Name) and isinstance(b, ast.Name) and a.id in tn and b.id in tn:
            return "same"
        if isinstance(a, ast.Subscript) and isinstance(b, ast.Subscript) and isinstance(a.value, ast.Name) and isinstance(b.value, ast.Name) and a.value.id == b.value.id:
            return _mapping_descriptor(fi, a.value)
    return None
