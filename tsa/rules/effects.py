"""E-domain: which objects reachable from a parameter may a function mutate.

Effect = (parameter name, kind, key): kind in
  'attr'       writes node attribute `key` of the graph passed as that parameter
  'edgeattr'   writes edge data
  'structure'  adds / removes / renames nodes or edges, or changes graph-level data
  'container'  mutates a list / dict / set parameter
"""
from __future__ import annotations

import ast
from typing import Optional

from ..cfg import cfg_of
from ..model import AnalysisError, FuncInfo, norm, short
from ..report import Finding, RuleResult
from . import rule
from .common import closure, entry, kwarg, own_walk, params_of, sites, try_const
from .structural import MUTATORS

GRAPH_STRUCT_METHODS = {"add_node", "add_nodes_from", "add_edge", "add_edges_from", "add_weighted_edges_from", "remove_node", "remove_nodes_from",
                        "remove_edge", "remove_edges_from", "clear", "clear_edges", "update"}
NX_MUTATING = {"networkx.set_node_attributes": "attr", "networkx.set_edge_attributes": "edgeattr"}
FRESH_EXT = {"networkx.relabel_nodes", "networkx.Graph", "networkx.convert_node_labels_to_integers", "igraph.Graph.from_networkx"}


class Effects:
    def __init__(self, ctx):
        self.ctx = ctx
        self.summ: dict[str, dict] = {}
        self.stack: set[str] = set()

    def summary(self, fi: FuncInfo) -> dict:
        """{'effects': set((param, kind, key, site text, lineno, func fq)), 'returns_param': set(param names)}"""
        if fi.fq in self.summ:
            return self.summ[fi.fq]
        if fi.fq in self.stack:
            return {"effects": set(), "returns_param": set()}
        self.stack.add(fi.fq)
        try:
            s = self._analyse(fi)
        finally:
            self.stack.discard(fi.fq)
        self.summ[fi.fq] = s
        return s

    def _analyse(self, fi: FuncInfo) -> dict:
        ctx = self.ctx
        fn = fi.node
        params = params_of(fn)
        # alias[name] = set of params the name may refer to (the object itself), or params whose *attribute dicts* it refers to
        alias: dict[str, set] = {p: {p} for p in params}
        attrdict_of: dict[str, set] = {}       # name -> params whose node-attribute dicts it may be
        nodeview_of: dict[str, set] = {}
        attrtable_of: dict[str, set] = {}      # name -> params of which it is a {node: attribute dict} table that shares the dicts
        elem_of: dict[str, set] = {}           # name -> plain container params of which it denotes an element (a dict / list inside)
        effects: set = set()

        def table_params(e: ast.expr) -> set:
            """graph params whose attribute dicts the table denoted by e shares: dict(m.nodes(data=True)), dict(m.nodes.items()),
            {k: v for k, v in m.nodes(data=True)}, m._node"""
            if isinstance(e, ast.Name):
                return set(attrtable_of.get(e.id, ()))
            if isinstance(e, ast.Attribute) and e.attr in ("_node",):
                return obj_params(e.value)
            inner = e
            if isinstance(e, ast.Call) and isinstance(e.func, ast.Name) and e.func.id == "dict" and len(e.args) == 1:
                inner = e.args[0]
            elif isinstance(e, ast.DictComp) and len(e.generators) == 1 and isinstance(e.generators[0].target, ast.Tuple) and len(e.generators[0].target.elts) == 2 \
                    and isinstance(e.value, ast.Name) and isinstance(e.generators[0].target.elts[1], ast.Name) and e.value.id == e.generators[0].target.elts[1].id:
                inner = e.generators[0].iter
            elif isinstance(e, ast.DictComp) and len(e.generators) == 1 and isinstance(e.value, ast.Subscript) and isinstance(e.value.value, ast.Attribute) and e.value.value.attr == "nodes":
                return obj_params(e.value.value.value)
            else:
                return set()
            if isinstance(inner, ast.Call) and isinstance(inner.func, ast.Attribute):
                f_ = inner.func
                d_ = kwarg(inner, "data") or (inner.args[0] if inner.args else None)
                if f_.attr == "nodes" and isinstance(d_, ast.Constant) and d_.value is True:
                    return obj_params(f_.value)
                if f_.attr in ("items", "data") and isinstance(f_.value, ast.Attribute) and f_.value.attr == "nodes" and \
                        (f_.attr == "items" or not inner.args or (isinstance(inner.args[0], ast.Constant) and inner.args[0].value is True)):
                    return obj_params(f_.value.value)
            if isinstance(inner, ast.Attribute) and inner.attr in ("_node",):
                return obj_params(inner.value)
            return set()

        def elem_params(e: ast.expr) -> set:
            """plain container params an element of which e denotes:  p[k] / a name bound to one"""
            if isinstance(e, ast.Name):
                return set(elem_of.get(e.id, ()))
            if isinstance(e, ast.Subscript) and isinstance(e.value, ast.Name):
                ps_ = obj_params(e.value)
                return {q for q in ps_ if not _looks_like_graph(fi, e.value, alias)}
            return set()

        def obj_params(e: ast.expr) -> set:
            if isinstance(e, ast.Name):
                return set(alias.get(e.id, ()))
            if isinstance(e, ast.NamedExpr):
                return obj_params(e.value)
            if isinstance(e, ast.IfExp):
                return obj_params(e.body) | obj_params(e.orelse)
            if isinstance(e, ast.Call):
                cs = ctx.cg.resolve_call(fi, e, ctx.cg.local_types(fi), set(params))
                if cs.kind == "tucan":
                    s = self.summary(cs.target)
                    out = set()
                    tp = params_of(cs.target.node)
                    for p, a in zip(tp, e.args):
                        if p in s["returns_param"]:
                            out |= obj_params(a)
                    return out
                if cs.kind == "ext" and cs.target == "networkx.relabel_nodes":
                    c = kwarg(e, "copy")
                    if c is not None and not (isinstance(c, ast.Constant) and c.value is True):
                        return obj_params(e.args[0]) if e.args else set()
                return set()
            return set()

        def attr_params(e: ast.expr) -> set:
            """params whose node attribute dictionaries `e` may denote:  m.nodes[a] / attrs from m.nodes(data=True)"""
            if isinstance(e, ast.Name):
                return set(attrdict_of.get(e.id, ()))
            if isinstance(e, ast.Subscript):
                v = e.value
                if isinstance(v, ast.Attribute) and v.attr in ("nodes", "_node"):
                    return obj_params(v.value)
                if isinstance(v, ast.Name) and v.id in nodeview_of:
                    return set(nodeview_of[v.id])
            return set()

        def add(ps, kind, key, node):
            for p in ps:
                effects.add((p, kind, key, short(node, 90), getattr(node, "lineno", None), fi.fq))

        for _round in range(3):
            for n in own_walk(fn):
                # aliases
                if isinstance(n, (ast.Assign, ast.AnnAssign, ast.NamedExpr)):
                    tg = n.targets[0] if isinstance(n, ast.Assign) else n.target
                    val = n.value
                    if val is None:
                        continue
                    if isinstance(tg, ast.Name):
                        ps = obj_params(val)
                        if ps:
                            alias.setdefault(tg.id, set()).update(ps)
                        ap = attr_params(val)
                        if ap:
                            attrdict_of.setdefault(tg.id, set()).update(ap)
                        if isinstance(val, ast.Attribute) and val.attr == "nodes":
                            nodeview_of.setdefault(tg.id, set()).update(obj_params(val.value))
                        tp_ = table_params(val)
                        if tp_:
                            attrtable_of.setdefault(tg.id, set()).update(tp_)
                        ep_ = elem_params(val) if isinstance(val, ast.Subscript) else set()
                        if ep_:
                            elem_of.setdefault(tg.id, set()).update(ep_)
                if isinstance(n, (ast.For, ast.comprehension)):
                    it = n.iter
                    base = it
                    while isinstance(base, ast.Call) and isinstance(base.func, ast.Name) and base.func.id in ("sorted", "list", "tuple", "reversed", "enumerate") and base.args:
                        base = base.args[0]
                    # for label, attrs in m.nodes(data=True) / m.nodes.items() / m.nodes.data()
                    ps = set()
                    if isinstance(base, ast.Call) and isinstance(base.func, ast.Attribute):
                        f = base.func
                        d = kwarg(base, "data") or (base.args[0] if base.args else None)
                        if f.attr == "nodes" and isinstance(d, ast.Constant) and d.value is True:
                            ps = obj_params(f.value)
                        elif f.attr in ("items", "data") and isinstance(f.value, ast.Attribute) and f.value.attr == "nodes" and (f.attr == "items" or not base.args or
                                                                                                                                  (isinstance(base.args[0], ast.Constant) and base.args[0].value is True)):
                            ps = obj_params(f.value.value)
                    if ps and isinstance(n.target, ast.Tuple) and len(n.target.elts) == 2 and isinstance(n.target.elts[1], ast.Name):
                        attrdict_of.setdefault(n.target.elts[1].id, set()).update(ps)
                    # for k, d in table.items() / for d in table.values(): elements of a table
                    if isinstance(base, ast.Call) and isinstance(base.func, ast.Attribute) and base.func.attr in ("items", "values") and not base.args and isinstance(base.func.value, ast.Name):
                        tname = base.func.value.id
                        tgt_ = n.target.elts[1] if base.func.attr == "items" and isinstance(n.target, ast.Tuple) and len(n.target.elts) == 2 else (n.target if base.func.attr == "values" else None)
                        if isinstance(tgt_, ast.Name):
                            if tname in attrtable_of:
                                attrdict_of.setdefault(tgt_.id, set()).update(attrtable_of[tname])
                            plain = {q for q in alias.get(tname, ()) if not _looks_like_graph(fi, base.func.value, alias)}
                            if plain:
                                elem_of.setdefault(tgt_.id, set()).update(plain)
            # effects
            for n in own_walk(fn):
                if isinstance(n, ast.Call):
                    cs = ctx.cg.resolve_call(fi, n, ctx.cg.local_types(fi), set(params))
                    if cs.kind == "ext" and cs.target in NX_MUTATING and n.args:
                        key = None
                        karg = n.args[2] if len(n.args) > 2 else kwarg(n, "name")
                        if karg is not None:
                            key = try_const(ctx, fi, karg, default="?")
                        else:
                            key = "*"
                        add(obj_params(n.args[0]), NX_MUTATING[cs.target], key, n)
                    elif cs.kind == "ext" and cs.target == "networkx.relabel_nodes" and n.args:
                        c = kwarg(n, "copy") or (n.args[2] if len(n.args) > 2 else None)
                        if c is not None and not (isinstance(c, ast.Constant) and c.value is True):
                            add(obj_params(n.args[0]), "structure", "relabel in place", n)
                    elif cs.kind == "ext" and cs.target == "random.shuffle" and n.args:
                        add(obj_params(n.args[0]), "container", "shuffle", n)
                    elif cs.kind == "tucan":
                        s = self.summary(cs.target)
                        tp = params_of(cs.target.node)
                        off = 1 if cs.target.cls is not None and isinstance(n.func, ast.Attribute) else 0
                        for (p, kind, key, text, line, where) in s["effects"]:
                            if p in tp:
                                i = tp.index(p) - off
                                if 0 <= i < len(n.args):
                                    for q in obj_params(n.args[i]):
                                        effects.add((q, kind, key, text, line, where))
                                    for q in attr_params(n.args[i]):
                                        effects.add((q, "attr", key if kind == "container" else key, text, line, where))
                                    if kind == "elemattr":
                                        # the callee changes the dicts inside the table it is handed
                                        for q in table_params(n.args[i]):
                                            effects.add((q, "attr", key, text, line, where))
                    elif isinstance(n.func, ast.Attribute):
                        recv = n.func.value
                        m = n.func.attr
                        if m in GRAPH_STRUCT_METHODS and obj_params(recv) and ctx.cg.local_types(fi).type_of(recv) in ("networkx.Graph", None) and _looks_like_graph(fi, recv, alias):
                            add(obj_params(recv), "structure", m, n)
                        elif m in MUTATORS and obj_params(recv) and not _looks_like_graph(fi, recv, alias):
                            add(obj_params(recv), "container", m, n)
                        if m in MUTATORS | {"update"} and attr_params(recv):
                            key = try_const(ctx, fi, n.args[0], default="?") if n.args and m in ("pop", "setdefault") else "*"
                            add(attr_params(recv), "attr", key, n)
                        if m in MUTATORS | {"update"} and elem_params(recv):
                            add(elem_params(recv), "elemattr", "*", n)
                        if m in MUTATORS | {"update"} and isinstance(recv, ast.Subscript) and table_params(recv.value):
                            add(table_params(recv.value), "attr", "*", n)
                tgts = []
                if isinstance(n, ast.Assign):
                    tgts = n.targets
                elif isinstance(n, (ast.AugAssign, ast.AnnAssign)):
                    tgts = [n.target]
                elif isinstance(n, ast.Delete):
                    tgts = n.targets
                for t in tgts:
                    if isinstance(t, ast.Subscript):
                        # m.nodes[a][K] = v   /  attrs[K] = v
                        ap = attr_params(t.value)
                        if ap:
                            add(ap, "attr", try_const(ctx, fi, t.slice, default="?"), n)
                            continue
                        # m[u][v][K] = .. / m.edges[u, v][K] = ..
                        inner = t.value
                        if isinstance(inner, ast.Subscript):
                            root = inner
                            while isinstance(root, ast.Subscript):
                                root = root.value
                            if isinstance(root, ast.Attribute) and root.attr in ("edges", "adj", "_adj"):
                                add(obj_params(root.value), "edgeattr", try_const(ctx, fi, t.slice, default="?"), n)
                                continue
                            if isinstance(root, ast.Name) and _looks_like_graph(fi, root, alias):
                                add(obj_params(root), "edgeattr", try_const(ctx, fi, t.slice, default="?"), n)
                                continue
                        if isinstance(inner, ast.Attribute) and inner.attr == "graph":
                            add(obj_params(inner.value), "structure", "graph-level data", n)
                            continue
                        if isinstance(inner, ast.Name) and elem_params(inner):
                            add(elem_params(inner), "elemattr", try_const(ctx, fi, t.slice, default="?"), n)
                            continue
                        if isinstance(inner, ast.Subscript) and elem_params(inner):
                            add(elem_params(inner), "elemattr", try_const(ctx, fi, t.slice, default="?"), n)
                            continue
                        if isinstance(inner, ast.Subscript) and table_params(inner.value):
                            add(table_params(inner.value), "attr", try_const(ctx, fi, t.slice, default="?"), n)
                            continue
                        if isinstance(inner, ast.Name) and obj_params(inner):
                            add(obj_params(inner), "container", "item store", n)
                    elif isinstance(t, ast.Attribute) and obj_params(t.value):
                        add(obj_params(t.value), "structure", f"attribute .{t.attr}", n)
                if isinstance(n, ast.AugAssign) and isinstance(n.target, ast.Name):
                    if attr_params(n.target) and isinstance(n.op, ast.BitOr):
                        add(attr_params(n.target), "attr", "*", n)
                    elif obj_params(n.target) and isinstance(n.op, (ast.BitOr, ast.Add)) and not _looks_like_graph(fi, n.target, alias):
                        add(obj_params(n.target), "container", "in-place operator", n)
        returns_param = set()
        for n in own_walk(fn):
            if isinstance(n, ast.Return) and n.value is not None:
                returns_param |= obj_params(n.value)
        return {"effects": effects, "returns_param": returns_param}


def _looks_like_graph(fi: FuncInfo, e: ast.expr, alias) -> bool:
    """the expression denotes a parameter annotated as a graph"""
    if isinstance(e, ast.Name):
        for p in alias.get(e.id, ()):
            for a in fi.node.args.args:
                if a.arg == p and a.annotation is not None and "Graph" in norm(a.annotation):
                    return True
    return False


@rule("R-EFFECT")
def r_effect(ctx) -> RuleResult:
    res = RuleResult("R-EFFECT", "canonicalize_molecule and permute_molecule mutate nothing reachable from their argument; serialize_molecule writes at most the scratch node attribute `explored`, which is initialised before it is read")
    E = Effects(ctx)
    explored = ctx.repo.const("tucan.graph_attributes", "EXPLORED")
    allowed = {"canonicalize": set(), "permute": set(), "serialize": {("attr", explored)}, "write": set()}
    for key, allow in allowed.items():
        fi = entry(ctx, key)
        s = E.summary(fi)
        first = params_of(fi.node)[0]
        effs = [e for e in s["effects"] if e[0] == first]
        bad = [e for e in effs if (e[1], e[2]) not in allow]
        res.inst(fi.fq, f"effects on `{first}`: {sorted({(e[1], e[2]) for e in effs}) or 'none'}", "fail" if bad else "ok",
                 detail=f"allowed: {sorted(allow) or 'none'}")
        seen = set()
        for p, kind, k, text, line, where in sorted(bad, key=lambda e: (e[5], e[4] or 0)):
            if (where, text) in seen:
                continue
            seen.add((where, text))
            wf = ctx.cg.funcs[where]
            what = {"attr": f"writes node attribute `{k}` of", "edgeattr": "writes bond data of", "structure": f"changes the structure ({k}) of",
                    "container": f"mutates ({k})"}[kind]
            res.fail(Finding("R-EFFECT", wf.module.rel, wf.qualname, text,
                             f"{fi.name} {what} the object passed in by the caller" + (" (only the scratch attribute `explored` may be written)" if key == "serialize" else ""),
                             line=line, path=[f"{fi.name}({first})", where.split('.', 1)[1], text]))
        if s["returns_param"] and key in ("canonicalize", "permute"):
            res.inst(fi.fq, "result is a new object", "fail")
            res.fail(Finding("R-EFFECT", fi.module.rel, fi.qualname, "return", f"{fi.name} may return its argument itself instead of a relabelled copy", line=fi.node.lineno))
    # explored: initialised before read, in the same call
    ser_clo = closure(ctx, "serialize")
    ser_fqs = {f.fq for f in ser_clo}
    n_reads = 0
    all_inits: dict = {}

    def inits_of(f_):
        if f_.fq not in all_inits:
            out_ = []
            for n_ in own_walk(f_.node):
                if isinstance(n_, ast.Call):
                    cs_ = ctx.cg.resolve_call(f_, n_, ctx.cg.local_types(f_), set(params_of(f_.node)))
                    if cs_.kind == "ext" and cs_.target == "networkx.set_node_attributes" and len(n_.args) >= 3 and try_const(ctx, f_, n_.args[2]) == explored:
                        out_.append(n_)
                # the same thing as a loop:  for n in m / m.nodes: m.nodes[n][EXPLORED] = <constant>   (first statement of the body,
                # not under a test)
                if isinstance(n_, ast.For) and isinstance(n_.target, ast.Name) and n_.body:
                    it_ = n_.iter
                    while isinstance(it_, ast.Call) and isinstance(it_.func, ast.Name) and it_.func.id in ("list", "sorted", "tuple") and it_.args:
                        it_ = it_.args[0]
                    g_ = params_of(f_.node)[0] if params_of(f_.node) else None
                    if g_ is not None and norm(it_) in (g_, f"{g_}.nodes", f"{g_}.nodes()"):
                        for st_ in n_.body:
                            if isinstance(st_, ast.Assign) and len(st_.targets) == 1 and isinstance(st_.targets[0], ast.Subscript) and try_const(ctx, f_, st_.targets[0].slice) == explored \
                                    and norm(st_.targets[0].value) in (f"{g_}.nodes[{n_.target.id}]", f"{g_}._node[{n_.target.id}]") and isinstance(st_.value, ast.Constant):
                                out_.append(n_)
                                break
                            if isinstance(st_, (ast.If, ast.While, ast.For, ast.Try, ast.Continue, ast.Break)):
                                break
            all_inits[f_.fq] = out_
        return all_inits[f_.fq]

    def initialised_before(f_, node, depth=0) -> bool:
        """the initialisation dominates `node` in f_, or dominates every call of f_ (in the serializer) in its callers"""
        c_ = cfg_of(f_.node)
        rn_ = c_.stmt_node_containing(node)
        def at(i):
            return c_.node_of(i) if isinstance(i, ast.stmt) and c_.node_of(i) is not None else c_.stmt_node_containing(i)
        if any(at(i) is not None and rn_ is not None and c_.dominates(at(i), rn_) and at(i) != rn_ for i in inits_of(f_)):
            return True
        if depth > 4:
            return False
        callers = [cs_ for cs_ in ctx.cg.callers_of(f_.fq) if cs_.caller.fq in ser_fqs and cs_.caller.fq != f_.fq]
        return bool(callers) and all(initialised_before(cs_.caller, cs_.node, depth + 1) for cs_ in callers)
    for fi in ser_clo:
        fn = fi.node
        cfg = cfg_of(fn)
        inits, reads = [], []
        for n in own_walk(fn):
            if isinstance(n, ast.Call):
                cs = ctx.cg.resolve_call(fi, n, ctx.cg.local_types(fi), set(params_of(fn)))
                if cs.kind == "ext" and cs.target == "networkx.set_node_attributes" and len(n.args) >= 3 and try_const(ctx, fi, n.args[2]) == explored:
                    inits.append(n)
                if isinstance(n.func, ast.Attribute) and n.func.attr in ("nodes", "data"):
                    d = kwarg(n, "data") or (n.args[0] if n.args else None)
                    if d is not None and try_const(ctx, fi, d) == explored:
                        reads.append(n)
            if isinstance(n, ast.Subscript) and isinstance(n.ctx, ast.Load) and try_const(ctx, fi, n.slice) == explored:
                reads.append(n)
        for r in reads:
            n_reads += 1
            rn = cfg.stmt_node_containing(r)
            ok = initialised_before(fi, r)
            res.inst(fi.fq, f"read `{short(r)}` dominated by the initialisation of `{explored}`", "ok" if ok else "fail")
            if not ok:
                res.fail(Finding("R-EFFECT", fi.module.rel, fi.qualname, norm(r), f"`{explored}` is read before it is initialised in this call: a value left over from an earlier serialisation changes the result", line=r.lineno))
    res.counts = {"explored_reads": n_reads, "functions_summarised": len(E.summ)}
    res.trusted = ["Graph.copy(), relabel_nodes(copy=True), nx.Graph(), convert_node_labels_to_integers return new graphs with copied attribute dicts"]
    return res
