"""Molfile reader rules: R-ZERO, R-KILL, R-PROV (heap interpreter), R-KWEXACT,
R-COLS, R-CHGTABLE, R-SIBKEYS, R-SUPERSEDE, R-ORDERING."""
from __future__ import annotations

import ast
import re
from typing import Optional

from ..cfg import cfg_of
from ..concrete import Unsupported, ceval, run_body, run_straightline
from ..heap import ZERO, HeapInterp, Obj, prov, string, taint
from ..model import AnalysisError, FuncInfo, norm, short
from ..report import Finding, RuleResult
from . import rule
from .common import assigned_names, closure, entry, kwarg, mentions_text, names_in, own_walk, params_of, parent_map, single_def, sites, try_const
from .spec import (V2000_ATOM, V2000_BOND, V2000_CHARGE_CODES, V2000_COUNTS, V2000_PROP, V3000_ATOM_KEYWORDS)

SINKS = ("chg", "mass", "rad")
KW_OF = {"chg": "CHG", "mass": "MASS", "rad": "RAD"}
V2000_PROP_OF = {"chg": "M  CHG", "rad": "M  RAD", "mass": "M  ISO"}


VERSIONS = ("V2000", "V3000")


class DispatchModel:
    """The function that tells V2000 from V3000 (anywhere in the closure of graph_from_molfile_text) and what it does for a
    given version string: which tucan functions it calls and how it ends.  Tests on the version variable are evaluated,
    other tests are followed both ways; if-chains, match statements and look-ups in a module-level version table
    (TABLE[v], TABLE.get(v) followed by a None test) are understood."""

    def cval(self, f, n):
        """the version string an expression stands for: a literal or a name of a module-level constant"""
        if isinstance(n, ast.Constant):
            return n.value if isinstance(n.value, str) else None
        if isinstance(n, (ast.Name, ast.Attribute)) and not (isinstance(n, ast.Name) and n.id in params_of(f.node)):
            try:
                v = self.ctx.repo.try_const(f.module, n.id, None) if isinstance(n, ast.Name) else try_const(self.ctx, f, n)
            except (NameError, UnboundLocalError):
                raise
            except Exception:
                v = None
            return v if isinstance(v, str) else None
        return None

    def __init__(self, ctx):
        self.ctx = ctx
        ent = entry(ctx, "read_text")
        cands = [ent] + [ctx.cg.funcs[q] for q in ctx.cg.closure([ent.fq])]
        self.disp = next((f for f in cands if self._mentions_versions(f)), None)
        if self.disp is None:
            raise AnalysisError("no function reachable from graph_from_molfile_text tells V2000 from V3000 (dispatcher vanished)")
        d = self.disp
        self.vnames = set()
        for n in own_walk(d.node):
            if isinstance(n, ast.Compare):
                sides = [n.left] + list(n.comparators)
                if any(self.cval(d, c) in VERSIONS for x in sides for c in ast.walk(x)):
                    self.vnames |= {x.id for x in sides if isinstance(x, ast.Name) and self.cval(d, x) is None}
            if isinstance(n, ast.Match) and isinstance(n.subject, ast.Name):
                self.vnames.add(n.subject.id)
            if isinstance(n, ast.Subscript) and isinstance(n.slice, ast.Name) and isinstance(n.value, ast.Name) and self._table(d, n.value.id) is not None:
                self.vnames.add(n.slice.id)
            if isinstance(n, ast.Call) and isinstance(n.func, ast.Attribute) and n.func.attr == "get" and isinstance(n.func.value, ast.Name) \
                    and self._table(d, n.func.value.id) is not None and n.args and isinstance(n.args[0], ast.Name):
                self.vnames.add(n.args[0].id)

    def _table(self, f, name):
        tbl = f.module.assigns.get(name)
        return tbl if isinstance(tbl, ast.Dict) and any(k is not None and self.cval(f, k) in VERSIONS for k in tbl.keys) else None

    def _mentions_versions(self, f) -> bool:
        seen = set()
        for n in own_walk(f.node):
            if isinstance(n, (ast.Constant, ast.Name)) and self.cval(f, n) in VERSIONS:
                seen.add(self.cval(f, n))
            if isinstance(n, ast.Name) and self._table(f, n.id) is not None:
                seen |= {self.cval(f, k) for k in self._table(f, n.id).keys if k is not None}
        return set(VERSIONS) <= seen

    def _lookup(self, e, ver):
        """('row', FuncInfo) / ('absent-get',) / ('absent-index',) when e is a look-up in the version table, else None"""
        tname = kind = None
        if isinstance(e, ast.Subscript) and isinstance(e.value, ast.Name):
            tname, kind = e.value.id, "index"
        elif isinstance(e, ast.Call) and isinstance(e.func, ast.Attribute) and e.func.attr == "get" and isinstance(e.func.value, ast.Name):
            tname, kind = e.func.value.id, "get"
        tbl = self._table(self.disp, tname) if tname else None
        if tbl is None:
            return None
        for k, v in zip(tbl.keys, tbl.values):
            if k is not None and self.cval(self.disp, k) == ver and isinstance(v, (ast.Name, ast.Attribute)):
                r = self.ctx.repo.resolve_dotted(self.disp.module, v)
                if r and r[0] == "func":
                    return ("row", r[1])
        return ("absent-" + kind,)

    def outcome(self, ver: str):
        """(functions called, how the dispatcher ends: 'raise' / 'return' / 'mixed' / 'falls through')"""
        ctx, disp = self.ctx, self.disp
        env = {}
        for n in ast.walk(disp.node):
            if isinstance(n, ast.Name) and n.id not in env and n.id not in params_of(disp.node):
                c = ctx.repo.try_const(disp.module, n.id, None)
                if isinstance(c, (str, int, tuple, frozenset)):
                    env[n.id] = c
        env.update({v: ver for v in self.vnames})
        reached: list = []

        def deref(e):
            if isinstance(e, ast.Name) and e.id not in params_of(disp.node):
                d = single_def(disp.node, e.id)
                if d is not None:
                    return d
            return e

        def calls_in(node) -> bool:
            """collect calls; True if evaluating the node raises for this version (index into the table with an absent key)"""
            for n in ast.walk(node):
                lk = self._lookup(n, ver) if isinstance(n, (ast.Subscript, ast.Call)) else None
                if lk == ("absent-index",):
                    return True
                if isinstance(n, ast.Call):
                    lk = self._lookup(deref(n.func), ver)
                    if lk is not None:
                        if lk[0] == "row":
                            reached.append(lk[1])
                        continue
                    cs = ctx.cg.resolve_call(disp, n, ctx.cg.local_types(disp), set(params_of(disp.node)))
                    if cs.kind == "tucan":
                        reached.append(cs.target)
            return False

        def test_value(t):
            try:
                return bool(ceval(t, env))
            except (NameError, UnboundLocalError):
                raise
            except Exception:
                pass
            # reader = TABLE.get(v);  if reader is None / if not reader / if reader
            neg = False
            while isinstance(t, ast.UnaryOp) and isinstance(t.op, ast.Not):
                t, neg = t.operand, not neg
            name = None
            if isinstance(t, ast.Name):
                name, present_truth = t.id, True
            elif isinstance(t, ast.Compare) and isinstance(t.left, ast.Name) and len(t.ops) == 1 and isinstance(t.ops[0], (ast.Is, ast.IsNot)) \
                    and isinstance(t.comparators[0], ast.Constant) and t.comparators[0].value is None:
                name, present_truth = t.left.id, isinstance(t.ops[0], ast.IsNot)
            if name is not None:
                lk = self._lookup(deref(ast.Name(name, ast.Load())), ver)
                if lk is not None and lk[0] in ("row", "absent-get"):
                    v = present_truth if lk[0] == "row" else not present_truth
                    return v != neg
            return None

        def join(a, b):
            if a is None or b is None:
                return None
            return a if a == b else "mixed"

        def walk(stmts):
            for st in stmts:
                if isinstance(st, ast.If):
                    v = test_value(st.test)
                    if v is None:
                        if calls_in(st.test):
                            return "raise"
                        t = join(walk(st.body), walk(st.orelse))
                        if t is not None:
                            return t
                    else:
                        t = walk(st.body if v else st.orelse)
                        if t is not None:
                            return t
                elif isinstance(st, ast.Match):
                    for case in st.cases:
                        pat = case.pattern
                        pats = [pat] if isinstance(pat, ast.MatchValue) else pat.patterns if isinstance(pat, ast.MatchOr) else []
                        vals = [p.value.value for p in pats if isinstance(p, ast.MatchValue) and isinstance(p.value, ast.Constant)]
                        wild = isinstance(pat, ast.MatchAs) and pat.pattern is None
                        if ver in vals or wild:
                            t = walk(case.body)
                            if t is not None:
                                return t
                            break
                elif isinstance(st, (ast.For, ast.While, ast.With, ast.Try)):
                    for fld in ("body", "orelse", "finalbody"):
                        walk(getattr(st, fld, []) or [])
                else:
                    if calls_in(st):
                        return "raise"
                    if isinstance(st, ast.Raise):
                        return "raise"
                    if isinstance(st, ast.Return):
                        # the reader handed back as a value (the caller calls it): selected for this version all the same
                        if isinstance(st.value, (ast.Name, ast.Attribute)) and not (isinstance(st.value, ast.Name) and st.value.id in params_of(disp.node)):
                            r_ = ctx.repo.resolve_dotted(disp.module, deref(st.value))
                            if r_ and r_[0] == "func":
                                reached.append(r_[1])
                        return "return"
            return None
        end = walk(disp.node.body)
        return reached, end or "falls through"


def dispatch_model(ctx) -> DispatchModel:
    if "dispatch_model" not in ctx.cache:
        ctx.cache["dispatch_model"] = DispatchModel(ctx)
    return ctx.cache["dispatch_model"]


def reader_entries(ctx) -> dict[str, FuncInfo]:
    """version string -> reader entry function: what the dispatcher calls for that version and for no other"""
    if "reader_entries" in ctx.cache:
        return ctx.cache["reader_entries"]
    dm = dispatch_model(ctx)
    out: dict[str, FuncInfo] = {}
    per = {ver: dm.outcome(ver)[0] for ver in VERSIONS}
    for ver in VERSIONS:
        other = {f.fq for v2 in VERSIONS if v2 != ver for f in per[v2]}
        own = list({f.fq: f for f in per[ver] if f.fq not in other}.values())
        if len(own) == 1:
            out[ver] = own[0]
        elif len(own) > 1:
            named = [f for f in own if ver.lower() in f.name.lower()]
            if len(named) == 1:
                out[ver] = named[0]
    if "V3000" not in out or "V2000" not in out:
        raise AnalysisError(f"molfile dispatcher no longer selects a V2000 and a V3000 reader (found {sorted(out)})")
    ctx.cache["reader_entries"] = out
    return out


def block_decoder(ctx, version: str, position: int) -> Optional[FuncInfo]:
    """the function whose result becomes the table the reader entry returns at `position` (0: atoms, 1: bonds)"""
    key = ("block_decoder", version, position)
    if key in ctx.cache:
        return ctx.cache[key]
    ent = reader_entries(ctx)[version]
    fn = ent.node
    out = None
    rets = [r for r in own_walk(fn) if isinstance(r, ast.Return) and isinstance(r.value, ast.Tuple) and len(r.value.elts) == 2 and isinstance(r.value.elts[position], ast.Name)]
    names = {r.value.elts[position].id for r in rets}
    if len(names) == 1:
        var = names.pop()
        for st in own_walk(fn):
            if isinstance(st, ast.Assign) and isinstance(st.value, ast.Call):
                tg = st.targets[0]
                hit = (isinstance(tg, ast.Name) and tg.id == var) or (isinstance(tg, ast.Tuple) and tg.elts and isinstance(tg.elts[0], ast.Name) and tg.elts[0].id == var)
                if hit:
                    cs = ctx.cg.resolve_call(ent, st.value, ctx.cg.local_types(ent), set(params_of(fn)))
                    if cs.kind == "tucan":
                        out = cs.target
    ctx.cache[key] = out
    return out


def analyse_reader(ctx, version: str):
    key = ("reader_analysis", version)
    if key not in ctx.cache:
        fi = reader_entries(ctx)[version]
        I = HeapInterp(ctx.repo, sink_keys=("chg", "mass", "rad", "element_symbol", "atomic_number"))
        lines = Obj("list")
        lines.elem = string()
        lines.val = "lines"
        out = I.call(fi, [lines])
        if out.kind != "tuple" or len(out.items) != 2:
            raise AnalysisError(f"{fi.qualname} no longer returns (atoms, bonds)")
        atoms, bonds = out.items
        rec = atoms.elem if atoms.kind == "map" else None
        if rec is None or rec.kind != "rec":
            raise AnalysisError(f"{fi.qualname}: cannot see the atom records in the returned value ({atoms.kind})")
        ctx.cache[key] = (fi, I, rec, bonds)
    return ctx.cache[key]


def _uniq_events(events, kind, key=None):
    seen, out = set(), []
    for ev in events:
        if ev.kind != kind or (key is not None and ev.key != key):
            continue
        k = (ev.fi.fq, norm(ev.node), ev.key, ev.flags)
        if k not in seen:
            seen.add(k)
            out.append(ev)
    return out


# --------------------------------------------------------------------------- R-ZERO


def zero_at_graph_build(ctx):
    """abstractly run the public reading entry points with the readers' (already computed) results plugged in, and look
    at what reaches graph_from_molecule: {entry name: set of sink keys that may still be 0}"""
    if "zero_at_build" in ctx.cache:
        return ctx.cache["zero_at_build"]
    gfm = ctx.repo.func("tucan.graph_utils.graph_from_molecule")
    out = {}
    for key in ("read_text", "read_file"):
        ent = entry(ctx, key)
        I = HeapInterp(ctx.repo)
        for ver in ("V3000", "V2000"):
            fi, _, rec, bonds = analyse_reader(ctx, ver)
            amap = Obj("map")
            amap.elem = rec
            tup = Obj("tuple")
            tup.items = [amap, bonds]
            I.overrides[fi.fq] = tup
        I.overrides[gfm.fq] = Obj("unknown")
        I.observed[gfm.fq] = []
        I.call(ent, [string()])
        dirty = set()
        for args, _ in I.observed[gfm.fq]:
            a = args[0] if args else None
            r = a.elem if a is not None and a.kind == "map" else None
            if r is not None and r.kind == "rec":
                dirty |= {k for k in SINKS if ZERO in taint(r.fields.get(k))}
        if not I.observed[gfm.fq]:
            raise AnalysisError(f"R-ZERO: {ent.qualname} does not reach graph_from_molecule in the abstract run")
        out[key] = (ent, dirty)
    ctx.cache["zero_at_build"] = out
    return out


@rule("R-ZERO")
def r_zero(ctx) -> RuleResult:
    res = RuleResult("R-ZERO", "no possibly-zero number read from the file reaches the chg / mass / rad entry of an atom record that is turned into a graph (explicit defaults mean 'absent'), on every public reading path")
    reader_dirty = {}
    for ver in ("V3000", "V2000"):
        fi, I, rec, _ = analyse_reader(ctx, ver)
        reader_dirty[ver] = {k for k in SINKS if ZERO in taint(rec.fields.get(k))}
    at_build = zero_at_graph_build(ctx) if any(reader_dirty.values()) else {}
    later_clean = bool(at_build) and all(not d for _, d in at_build.values())
    for ver in ("V3000", "V2000"):
        fi, I, rec, _ = analyse_reader(ctx, ver)
        for k in SINKS:
            fl = taint(rec.fields.get(k))
            bad = ZERO in fl and not later_clean
            res.inst(fi.fq, f"{ver} atom record entry `{k}`", "fail" if bad else "ok",
                     detail=f"flags {sorted(fl)}" + ("; zero values are dropped later, before the graph is built, on every public path" if ZERO in fl and later_clean else ""))
            if bad:
                paths = [e.qualname for e, d in at_build.values() if k in d]
                evs = [e for e in _uniq_events(I.events, "store", k) if ZERO in e.flags][:1]
                for ev in evs or [None]:
                    node = ev.node if ev else fi.node
                    efi = ev.fi if ev else fi
                    kw = KW_OF[k] if ver == "V3000" else V2000_PROP_OF[k]
                    res.fail(Finding("R-ZERO", efi.module.rel, efi.qualname, f"{k} <- {short(node, 90)}",
                                     f"{ver}: an explicit default ({kw} value 0) is stored as `{k}: 0` and reaches the graph through {paths or 'the readers'}; it must mean the same as omitting it "
                                     f"(the serializer would write `{k}=0`, which the grammar rejects, and the invariant code differs from the omitted form)",
                                     line=getattr(node, "lineno", None),
                                     path=["int() of file text", f"{efi.qualname}", f"atom record[{k}]"] + ([f"graph_from_molecule via {p}" for p in paths])))
        res.notes += [f"{ver}: {n}" for n in I.notes[:5]]
        if I.unsummarised:
            res.notes.append(f"{ver}: unsummarised calls treated as pure: {sorted(I.unsummarised)}")
    for key, (ent, d) in at_build.items():
        res.inst(ent.fq, f"records handed to graph_from_molecule on the `{ent.name}` path", "ok" if not d else "fail", detail=f"possibly-zero entries: {sorted(d) or 'none'}")
    res.counts = {"readers": 2, "sink_keys": len(SINKS), "public_paths": len(at_build)}
    res.trusted = ["int()/float() of file text may return 0; constants of MOLFILE_V2000_CHARGES and detect_hydrogen_isotopes are evaluated"]
    return res


# --------------------------------------------------------------------------- R-KILL


@rule("R-KILL")
def r_kill(ctx) -> RuleResult:
    res = RuleResult("R-KILL", "a reader never removes, from all atoms, an attribute whose atom-block producer is the element symbol (D/T masses survive property lines)")
    n = 0
    for ver in ("V3000", "V2000"):
        fi, I, rec, _bonds = analyse_reader(ctx, ver)
        sym_labels = set()
        for ev in I.events:
            if ev.kind == "store" and ev.key == "element_symbol":
                sym_labels |= {x for x in ev.flags if x.startswith(("@col", "@idx"))}
        # labels that every value carries (line splicing etc.) are not specific to the symbol
        common = common_labels(I, rec, _bonds)
        sym_labels -= (common or set())
        # a label that a value from another field carries too (the slice of the line that is then cut into fields) does not
        # single out the symbol: only labels are kept that no stored value has without having all of the symbol's labels
        full = set(sym_labels)
        for ev in I.events:
            if ev.kind == "store" and ev.key != "element_symbol" and not full <= set(ev.flags):
                sym_labels -= set(ev.flags)
        if full and not sym_labels:
            raise AnalysisError(f"R-KILL: {ver}: the element symbol has no origin of its own among the stored values (all of {sorted(full)} are shared with other fields)")
        kills = _uniq_events(I.events, "kill")
        for ev in kills:
            n += 1
            from_symbol = bool(sym_labels & set(ev.flags))
            bad = from_symbol and not ev.cond_per_item
            res.inst(ev.fi.fq, f"{ver}: removes `{ev.key}` ({short(ev.node, 60)})", "fail" if bad else "ok",
                     detail=f"entry provenance at that point {sorted(x for x in ev.flags if x != ZERO)}; per-atom condition: {ev.cond_per_item}")
            if bad:
                # name the call chain: the statement in the caller that triggers the removal with this key
                res.fail(Finding("R-KILL", ev.fi.module.rel, ev.fi.qualname, f"remove `{ev.key}` from every atom: {short(ev.node, 70)}",
                                 f"{ver}: `{ev.key}` derived from the element symbol (D / T) is removed from all atoms; "
                                 "deuterium and tritium lose their mass when the file has such property lines",
                                 line=getattr(ev.node, "lineno", None)))
        if ver == "V2000" and not kills:
            res.notes.append("V2000 reader removes no attribute (no supersession of atom-block values)")
    res.counts = {"removal_sites": n}
    return res


# --------------------------------------------------------------------------- R-PROV


def common_labels(I, rec, bonds) -> set:
    """labels that every value read from the file carries (line splicing, tokenising): they say nothing about which field
    a value came from.  Intersection over all attribute stores, all fields of the atom records and of the bond records."""
    sets = [set(ev.flags) for ev in I.events if ev.kind == "store"]
    from_file = lambda t: any(x.startswith(("@idx", "@col", "@part")) for x in t)  # noqa: E731
    if rec is not None and rec.kind == "rec":
        sets += [set(taint(v)) for v in rec.fields.values() if from_file(taint(v))]
    brec = bonds.elem if bonds is not None and bonds.kind == "map" else None
    if brec is not None and brec.kind == "rec":
        sets += [set(taint(v)) for v in brec.fields.values() if from_file(taint(v))]
    if not sets:
        return set()
    out = set(sets[0])
    for x in sets[1:]:
        out &= x
    return out


def v2000_store_kind(flags) -> str:
    """where a value stored into an atom record of the V2000 reader was read: 'prop' (a value of an `M  XXX` property line:
    it carries the label of the line-kind test), 'atom' (fixed columns of the atom line only), else 'unknown'"""
    import re as _re
    if _labels(flags, "@sw:"):
        return "prop"
    cols = [c[1:-1] for c in _labels(flags, "@col")]
    if all(_re.fullmatch(r"\d+:\d+", c) for c in cols):
        return "atom"       # fixed columns only (or no column at all: a constant chosen by the code)
    return "unknown"


def _labels(flags, prefix):
    return {x[len(prefix):] for x in flags if x.startswith(prefix)}


def _cols(flags, kind: str) -> set:
    """column labels 'a:b' of a value read from a V2000 line of that kind, each replaced by the span of the format's field it
    reads (blank columns around a field do not count, spec.canon_span)"""
    from .spec import canon_label
    return {canon_label(kind, c[1:-1]) for c in _labels(flags, "@col")}


@rule("R-PROV")
def r_prov(ctx) -> RuleResult:
    res = RuleResult("R-PROV", "identity attributes (symbol, atomic number, mass, rad) and chg receive values only from their own fields: symbol column / type token, charge-code column, matching M  CHG/RAD/ISO entries or CHG=/MASS=/RAD= tokens")
    # ---- V2000
    fi, I, rec, bonds = analyse_reader(ctx, "V2000")
    sym = f"{V2000_ATOM['symbol'][0]}:{V2000_ATOM['symbol'][1]}"
    ccc = f"{V2000_ATOM['ccc'][0]}:{V2000_ATOM['ccc'][1]}"
    allowed_atom = {"element_symbol": {sym}, "atomic_number": {sym}, "mass": {sym}, "chg": {ccc}, "rad": {ccc}}
    for ev in _uniq_events(I.events, "store"):
        sw = _labels(ev.flags, "@sw:")
        cols = _cols(ev.flags, "atom")
        if v2000_store_kind(ev.flags) == "unknown":
            raise AnalysisError(f"R-PROV: V2000: cannot tell whether `{short(ev.node, 60)}` stores `{ev.key}` from the atom line or from a property line "
                                f"(columns {sorted(cols)}, no line-kind test on the path)")
        if sw:
            want = V2000_PROP_OF.get(ev.key)
            from .spec import tag_selected_by
            tags_ = {tag_selected_by(x) for x in sw}
            ok = want is not None and tags_ == {want}
            if not ok and want is not None and want in tags_:
                # values of several kinds of line meet in one abstract record (the same helper fills two tables, ...): the
                # analysis does not keep them apart, so this is no evidence of a wrong assignment (what the block does to a
                # sample table is R-SUPERSEDE's part)
                raise AnalysisError(f"R-PROV: V2000: values from {sorted(sw)} lines reach `{short(ev.node, 50)}` (key `{ev.key}`) together; the analysis cannot keep them apart")
            why = f"value from `{sorted(sw)}` lines stored under `{ev.key}`" + ("" if ok else f" (only {want!r} entries may set it)")
        else:
            ok = cols <= allowed_atom.get(ev.key, set())
            why = f"atom-line columns {sorted(cols)} -> `{ev.key}`" + ("" if ok else f" (allowed: {sorted(allowed_atom.get(ev.key, set()))})")
        res.inst(ev.fi.fq, f"V2000 {ev.key} <- {short(ev.node, 70)}", "ok" if ok else "fail", detail=why)
        if not ok:
            res.fail(Finding("R-PROV", ev.fi.module.rel, ev.fi.qualname, f"{ev.key} <- {short(ev.node, 90)}",
                             f"V2000: {why}", line=getattr(ev.node, "lineno", None)))
    # ---- V3000
    fi, I, rec, bonds = analyse_reader(ctx, "V3000")
    common = set(common_labels(I, rec, bonds) or set())
    # the test for the line prefix tells a connection-table line from a header line; it selects no field
    sm_ = splice_model(ctx)
    if sm_ is not None:
        common |= {"@sw:" + p_ for p_ in sm_["prefixes"]} | {"@has:" + p_ for p_ in sm_["prefixes"]}
    for ev in _uniq_events(I.events, "store"):
        fl = set(ev.flags) - (common or set())
        kws = _labels(fl, "@has:") | _labels(fl, "@sw:") | _labels(fl, "@eq:")
        idx = {c[1:-1] for c in _labels(fl, "@idx")}
        if ev.key in ("element_symbol", "atomic_number"):
            ok = idx <= {"3"} and not kws
            why = f"tokens {sorted(idx)} {sorted(kws)} -> `{ev.key}` (allowed: the type token, index 3)"
        else:
            want = KW_OF[ev.key]
            odd = [k for k in kws if not any(w_ in k for w_ in KW_OF.values())]
            if odd:
                raise AnalysisError(f"R-PROV: V3000: `{short(ev.node, 60)}` stores `{ev.key}` under a test on {odd[:2]} that is not a keyword test this analysis reads")
            from_file = any(x.startswith(("@idx", "@col", "@part", "@has:", "@sw:", "@eq:", "@line", "@row")) for x in fl)
            # the first / last of the tokens that a keyword test selected is still one of those tokens
            pick = {"-1", "0"} if kws and all(want in k for k in kws) else set()
            ok = all(want in k for k in kws) and idx <= ({"3"} | pick) and (bool(kws) or bool(idx) or not from_file)
            if ev.key != "mass" and idx - pick:
                if kws and all(want in k for k in kws) and (idx - pick) <= {"3"}:
                    # its own KEY= tokens and the type token meet in one abstract value: one statement stores several attributes
                    # (the mass of D / T among them) and the analysis does not keep them apart -- no evidence of a wrong source
                    raise AnalysisError(f"R-PROV: V3000: `{short(ev.node, 60)}` stores `{ev.key}` from its {want}= tokens and, in the same abstract value, the type token "
                                        "(one statement stores several attributes); the analysis cannot keep them apart")
                ok = False
            why = f"tokens selected by {sorted(kws)} / positions {sorted(idx)} -> `{ev.key}` (allowed: {want}=… tokens" + ("; type token for D/T)" if ev.key == "mass" else ")")
        res.inst(ev.fi.fq, f"V3000 {ev.key} <- {short(ev.node, 70)}", "ok" if ok else "fail", detail=why)
        if not ok:
            res.fail(Finding("R-PROV", ev.fi.module.rel, ev.fi.qualname, f"{ev.key} <- {short(ev.node, 90)}",
                             f"V3000: {why}", line=getattr(ev.node, "lineno", None)))
    if len(res.instances) < 8:
        raise AnalysisError(f"R-PROV: only {len(res.instances)} stores into identity attributes seen; reader shape changed")
    res.notes.append("membership tests against containers contribute the tested value's provenance only; header lines 1-3 have no reader (no subscript of the line list with index < 3)")
    # header / comment lines are never read
    for ver in ("V2000", "V3000"):
        fi, I, rec, bonds = analyse_reader(ctx, ver)
        allflags = set()
        for v in list(rec.fields.values()):
            allflags |= taint(v)
        bad = {x for x in allflags if x in ("@line[0]", "@line[1]", "@line[2]", "@row[0]", "@row[1]", "@row[2]")}
        res.inst(fi.fq, f"{ver}: header and comment lines do not reach atom records", "ok" if not bad else "fail")
        if bad:
            res.fail(Finding("R-PROV", fi.module.rel, fi.qualname, f"{sorted(bad)}", f"{ver}: a header/comment line flows into atom attributes"))
    return res


# --------------------------------------------------------------------------- R-KWEXACT


def _const_loop_envs(ctx, fi: FuncInfo, node: ast.AST) -> list[dict]:
    """bindings of variables that an enclosing loop / comprehension iterates over a constant container"""
    return ctx.cg.const_loop_envs(fi, node)


def _token_predicates(ctx, fi: FuncInfo):
    """(owner node, loop variable, predicate expr) for filters over the tokens of an atom line"""
    out = []
    for n in own_walk(fi.node):
        if isinstance(n, (ast.ListComp, ast.GeneratorExp, ast.SetComp, ast.DictComp)):
            for g in n.generators:
                if isinstance(g.target, ast.Name):
                    for c in g.ifs:
                        if g.target.id in names_in(c) and _string_test(c, g.target.id):
                            out.append((n, g.target.id, c))
        if isinstance(n, ast.For) and isinstance(n.target, ast.Name):
            for st in ast.walk(n):
                if isinstance(st, ast.If) and n.target.id in names_in(st.test) and _string_test(st.test, n.target.id):
                    out.append((st, n.target.id, st.test))
    return out


def _string_test(test: ast.expr, var: str) -> bool:
    """the test compares the token with text: a string literal occurs in it, or the token's startswith / endswith / == / in
    is applied to a name (a prefix held in a variable or parameter)"""
    for x in ast.walk(test):
        if isinstance(x, ast.Constant) and isinstance(x.value, str):
            return True
        if isinstance(x, ast.Call) and isinstance(x.func, ast.Attribute) and x.func.attr in ("startswith", "endswith") and var in names_in(x.func.value):
            return True
    return False


class Recognizer:
    """a token predicate of the reader together with one binding of the names it depends on"""
    def __init__(self, f, owner, var, pred, env):
        self.f, self.owner, self.var, self.pred, self.env = f, owner, var, pred, env

    def accepts(self, tok: str) -> bool:
        return pred_accepts(self.pred, self.var, tok, self.env)

    def text(self) -> str:
        b = ", ".join(f"{k}={v!r}" for k, v in sorted(self.env.items()) if k in names_in(self.pred))
        return short(self.pred) + (f" [{b}]" if b else "")


def token_recognizers(ctx, fis) -> list:
    """every token predicate in `fis`, once per binding of the names it uses: module constants, variables of enclosing
    loops over constant tables, parameters whose call sites pass constants (possibly out of such a loop), and locals
    computed from those by simple assignments"""
    import itertools
    out = []
    for f in fis:
        for owner, var, pred in _token_predicates(ctx, f):
            free = names_in(pred) - {var}
            # locals feeding the predicate through simple assignments: prefix = keyword + "="
            assigns = [st for st in own_walk(f.node) if isinstance(st, ast.Assign) and len(st.targets) == 1 and isinstance(st.targets[0], ast.Name)
                       and st.lineno < pred.lineno]
            assigns.sort(key=lambda st: st.lineno)
            need = set(free)
            for st in reversed(assigns):
                if st.targets[0].id in need:
                    need |= names_in(st.value)
            base = {}
            for nm in need:
                v = try_const(ctx, f, ast.Name(nm, ast.Load()), default=None)
                if v is not None:
                    base[nm] = v
            envs = [{**base, **le} for le in _const_loop_envs(ctx, f, pred)]
            for nm in sorted(need - set(base)):
                if nm in params_of(f.node) and not any(nm in e for e in envs):
                    vals = ctx.cg.param_values(f, nm)
                    if vals and len(vals) <= 12:
                        try:
                            vs = sorted(vals)
                        except TypeError:
                            vs = list(vals)
                        envs = [{**e, nm: v} for e in envs for v in vs]
            for e in envs:
                e2 = dict(e)
                for st in assigns:
                    if st.targets[0].id in need and st.targets[0].id not in e2:
                        try:
                            e2[st.targets[0].id] = ceval(st.value, e2)
                        except (NameError, UnboundLocalError):
                            raise
                        except Exception:
                            pass
                out.append(Recognizer(f, owner, var, pred, {k: v for k, v in e2.items() if k in free}))
    return out


def pred_accepts_any(ctx, fi, pred, var, tok, env0=None) -> bool:
    """as pred_accepts, for every binding of enclosing constant-loop variables"""
    return any(pred_accepts(pred, var, tok, {**(env0 or {}), **e}) for e in _const_loop_envs(ctx, fi, pred))


def pred_accepts(pred: ast.expr, var: str, tok: str, env0: dict | None = None) -> bool:
    """can the predicate hold for this token?  Free names other than the token variable (flags such as
    `isotope_mass`) range over a falsy and a truthy value; the predicate accepts if some choice makes it true."""
    import itertools
    env0 = dict(env0 or {})
    free = sorted(names_in(pred) - {var} - set(env0))
    for choice in itertools.product((0, 1), repeat=len(free)):
        env = {**env0, var: tok, **dict(zip(free, choice))}
        try:
            if ceval(pred, env):
                return True
        except Unsupported:
            raise
        except (NameError, UnboundLocalError):
            raise
        except Exception:
            continue        # the predicate raised on this token (e.g. no '='): not accepted
    return False


@rule("R-KWEXACT")
def r_kwexact(ctx) -> RuleResult:
    res = RuleResult("R-KWEXACT", "each optional-attribute recognizer of the V3000 atom decoder accepts exactly its own keyword among the CTfile atom keywords")
    v3 = reader_entries(ctx)["V3000"]
    fis = [ctx.cg.funcs[q] for q in ctx.cg.closure([v3.fq])]
    recs = token_recognizers(ctx, fis)
    values = ["1", "-1", "0", "2", "13", "15", "(1 2)"]
    spec_tokens = {kw: [f"{kw}={v}" for v in values] for kw in V3000_ATOM_KEYWORDS}
    positional = ["1", "12", "C", "Cl", "H", "D", "0", "0.000000", "-1.250000", "M", "V30", "*", "Ra", "Hs", "Md"]
    found = {}
    seen_r = set()
    for r in recs:
        f, pred, accepts = r.f, r.pred, r.accepts
        key_ = (f.fq, id(pred), tuple(sorted((k, repr(v)) for k, v in r.env.items())))
        if key_ in seen_r:
            continue
        seen_r.add(key_)
        try:
            own = [kw for kw in ("CHG", "MASS", "RAD") if all(accepts(t) for t in spec_tokens[kw][:2])]
            if len(own) != 1 and not own and not any(accepts(t) for kw in ("CHG", "MASS", "RAD") for t in spec_tokens[kw]):
                continue        # not an attribute recognizer (e.g. a bond-line keyword)
            if all(accepts(t) for t in positional) and all(accepts(t) for toks in spec_tokens.values() for t in toks):
                continue        # a generic token filter (drops blanks): it does not single out any token
        except Unsupported as e:
            if "atom" in f.name:
                raise AnalysisError(f"R-KWEXACT: predicate `{short(pred)}` in {f.qualname}: {e}")
            continue
        if len(own) != 1:
            res.inst(f.fq, r.text(), "fail", detail=f"accepts keywords {own}")
            res.fail(Finding("R-KWEXACT", f.module.rel, f.qualname, norm(pred), f"recognizer accepts the keywords {own or 'of several attributes partially'}: it cannot tell them apart", line=pred.lineno))
            continue
        kw = own[0]
        found[kw] = found.get(kw, 0) + 1
        wrong = [t for k2, toks in spec_tokens.items() if k2 != kw for t in toks if accepts(t)]
        wrong += [t for t in positional if accepts(t)]
        missed = [t for t in spec_tokens[kw] if t != f"{kw}=(1 2)" and not accepts(t)]
        ok = not wrong and not missed
        res.inst(f.fq, f"{kw}: `{r.text()}`", "ok" if ok else "fail",
                 detail=f"evaluated on {sum(len(v) for v in spec_tokens.values()) + len(positional)} tokens")
        if wrong:
            res.fail(Finding("R-KWEXACT", f.module.rel, f.qualname, norm(pred),
                             f"recognizer for {kw} also fires for `{wrong[0]}` (and {len(wrong) - 1} more): an unrelated spec keyword is decoded as {kw}", line=pred.lineno,
                             extra={"tokens": wrong[:10]}))
        if missed:
            res.fail(Finding("R-KWEXACT", f.module.rel, f.qualname, norm(pred), f"recognizer for {kw} misses `{missed[0]}`", line=pred.lineno))
    for kw in ("CHG", "MASS", "RAD"):
        if not found.get(kw):
            raise AnalysisError(f"R-KWEXACT: no recognizer for {kw} found in the V3000 atom decoder (idiom changed)")
    res.counts = {"recognizers": sum(found.values()), "spec_keywords": len(V3000_ATOM_KEYWORDS)}
    res.trusted = ["CTfile 2020 V3000 atom-line keyword list (spec.py)"]
    return res


# --------------------------------------------------------------------------- R-COLS / R-CHGTABLE


def _int_or_none(e, env):
    try:
        v = ceval(e, env)
        return v if isinstance(v, int) else None
    except (NameError, UnboundLocalError):
        raise
    except Exception:
        return None


@rule("R-COLS")
def r_cols(ctx) -> RuleResult:
    res = RuleResult("R-COLS", "every column slice of the V2000 reader equals the CTfile field span of the value it feeds; index fields become 0-based labels by exactly -1")
    fi, I, rec, bonds = analyse_reader(ctx, "V2000")
    span = lambda t: f"{t[0]}:{t[1]}"  # noqa: E731
    want_fields = {"x_coord": {span(V2000_ATOM["x"])}, "y_coord": {span(V2000_ATOM["y"])}, "z_coord": {span(V2000_ATOM["z"])},
                   "element_symbol": {span(V2000_ATOM["symbol"])}}
    for k, want in want_fields.items():
        got = _cols(taint(rec.fields.get(k)), "atom")
        if not got:
            toks = {c[1:-1] for c in _labels(taint(rec.fields.get(k)), "@idx")} | {c[1:-1] for c in _labels(taint(rec.fields.get(k)), "@toks")}
            if toks:
                # read as the n-th blank-separated token: the V2000 atom line has fixed columns without separators
                dec_ = block_decoder(ctx, "V2000", 0) or fi
                res.inst(fi.fq, f"atom line: {k} read as token {sorted(toks)} of the split line", "fail")
                res.fail(Finding("R-COLS", dec_.module.rel, dec_.qualname, f"{k} <- token {sorted(toks)}",
                                 f"`{k}` is taken as blank-separated token {sorted(toks)} of the V2000 atom line; the format gives it the fixed columns {sorted(want)} and its fields may touch "
                                 "(a coordinate of ten characters leaves no blank): such a line is split at the wrong places or rejected, so what is read depends on the coordinates",
                                 line=dec_.node.lineno))
                continue
            raise AnalysisError(f"R-COLS: cannot see which columns of the atom line `{k}` is read from")
        ok = got == want
        if not ok and want <= got:
            # the field's own columns and others meet in one abstract value (values of different lines stored through one
            # statement with a computed key): a join of the analysis, no evidence of a wrong column
            raise AnalysisError(f"R-COLS: `{k}` of the atom record carries the columns {sorted(got)}: the format's {sorted(want)} and others that the analysis does not keep apart")
        res.inst(fi.fq, f"atom line: `{k}` read from columns {sorted(got)}", "ok" if ok else "fail", detail=f"spec {sorted(want)}")
        if not ok:
            res.fail(Finding("R-COLS", fi.module.rel, "_parse_atom_line", f"{k} <- line[{sorted(got)}]", f"`{k}` is read from columns {sorted(got)}, the format has it at {sorted(want)}"))
    # charge code column: atom-line stores of chg / rad
    for ev in _uniq_events(I.events, "store"):
        if ev.key in ("chg", "rad") and v2000_store_kind(ev.flags) == "unknown":
            raise AnalysisError(f"R-COLS: cannot tell whether `{short(ev.node, 60)}` stores `{ev.key}` from the atom line or from a property line")
        if ev.key in ("chg", "rad") and v2000_store_kind(ev.flags) == "atom":
            got = _cols(ev.flags, "atom")
            ok = got == {span(V2000_ATOM["ccc"])}
            res.inst(ev.fi.fq, f"atom line: charge code read from columns {sorted(got)}", "ok" if ok else "fail")
            if not ok:
                res.fail(Finding("R-COLS", ev.fi.module.rel, ev.fi.qualname, f"{ev.key} <- {short(ev.node)}", f"charge code is read from columns {sorted(got)}, the format has it at {span(V2000_ATOM['ccc'])}", line=getattr(ev.node, "lineno", None)))
    # bond line
    brec = bonds.elem if bonds.kind == "map" else None
    if brec is None or brec.kind != "rec":
        raise AnalysisError("R-COLS: cannot see V2000 bond records")
    got = _cols(taint(brec.fields.get("bond_type")), "bond")
    got_ends = _cols(bonds.keyt, "bond")
    if not got and not got_ends:
        # no column subscripts at all: are the fields taken out of the line by a pattern?
        dec = block_decoder(ctx, "V2000", 1)
        pats = []
        for f_ in ([dec] + [ctx.cg.funcs[q] for q in ctx.cg.closure([dec.fq])]) if dec is not None else []:
            for n_ in own_walk(f_.node):
                if isinstance(n_, ast.Call) and isinstance(n_.func, ast.Attribute) and n_.func.attr in ("match", "fullmatch", "search") and n_.args:
                    p_ = regex_of(ctx, f_, n_.args[0]) if norm(n_.func.value) == "re" else regex_of(ctx, f_, n_.func.value)
                    if p_ is not None:
                        pats.append((f_, n_, p_, n_.func.attr))
        if len(pats) != 1:
            raise AnalysisError("R-COLS: V2000 bond fields are neither read by column subscripts nor by one constant pattern")
        f_, n_, p_, how = pats[0]
        cols_ = regex_group_columns(p_) if how != "search" else None
        want_ = [V2000_BOND["111"], V2000_BOND["222"], V2000_BOND["ttt"]]
        ok = cols_ is not None and cols_[:3] == [tuple(w) for w in want_]
        res.inst(f_.fq, f"bond line: pattern {p_!r} takes its first three groups from columns {cols_}", "ok" if ok else "fail")
        if not ok:
            res.fail(Finding("R-COLS", f_.module.rel, f_.qualname, f"pattern {p_}",
                             f"the bond fields are taken out of the line by a pattern whose (first) alternative does not cut three groups at the fixed columns 0:3, 3:6, 6:9 (found {cols_}): "
                             "the fields have no separator, so a number that fills its columns is glued to its neighbour and the line is split at the wrong place", line=n_.lineno))
        got = {span(V2000_BOND["ttt"])} if ok else got
        got_ends = {span(V2000_BOND["111"]), span(V2000_BOND["222"])} if ok else got_ends
        if not ok:
            clo = [ctx.cg.funcs[q] for q in ctx.cg.closure([fi.fq])]
            _check_v2000_counts(ctx, fi, res)
            return res
    ok = got == {span(V2000_BOND["ttt"])}
    res.inst(fi.fq, f"bond line: bond type read from columns {sorted(got)}", "ok" if ok else "fail")
    if not ok:
        res.fail(Finding("R-COLS", fi.module.rel, "_parse_bond_line", f"bond_type <- line[{sorted(got)}]", f"bond type is read from columns {sorted(got)}, the format has it at {span(V2000_BOND['ttt'])}"))
    got = got_ends
    ok = got == {span(V2000_BOND["111"]), span(V2000_BOND["222"])}
    res.inst(fi.fq, f"bond line: endpoints read from columns {sorted(got)}", "ok" if ok else "fail")
    if not ok:
        res.fail(Finding("R-COLS", fi.module.rel, "_parse_bond_line", f"endpoints <- line[{sorted(got)}]", f"bond endpoints are read from columns {sorted(got)}, the format has them at 0:3 and 3:6"))
    # ---- syntactic part: offsets (-1) on index fields, affine property entries, counts line
    clo = [ctx.cg.funcs[q] for q in ctx.cg.closure([fi.fq])]
    _check_v2000_counts(ctx, fi, res)
    for f in clo:
        _check_index_offsets(ctx, f, res)
        _check_prop_entries(ctx, f, res)
    return res


def _slice_of(e: ast.expr) -> Optional[ast.Subscript]:
    """the `x[a:b]` inside `_to_int(x[a:b])`, `int(x[a:b])`, `x[a:b].strip()` ..."""
    for n in ast.walk(e):
        if isinstance(n, ast.Subscript) and isinstance(n.slice, ast.Slice):
            return n
    return None


class _SymField:
    """columns lo:hi of line k of the symbolic file"""
    def __init__(self, k, lo, hi):
        self.k, self.lo, self.hi = k, lo, hi


class _SymLine:
    def __init__(self, k):
        self.k = k

    def __getitem__(self, s):
        if isinstance(s, slice) and s.step is None:
            return _SymField(self.k, s.start or 0, s.stop)
        raise TypeError("symbolic line: only column slices")


class _SymBlock:
    """lines lo:hi of the symbolic file (hi None: to the end)"""
    def __init__(self, lo, hi):
        self.lo, self.hi = lo, hi

    def __iter__(self):
        # iterated in place (the decoder's loop is written out in the entry): one representative line
        return iter([_SymDataLine(self)])

    def __len__(self):
        raise TypeError("length of a symbolic block")


class _SymDataLine:
    def __init__(self, block):
        self.block = block


class _SymLines:
    """the file's line list as a symbol: indexing gives a symbolic line, slicing a symbolic block"""
    def __getitem__(self, s):
        if isinstance(s, slice):
            if s.step is not None:
                raise TypeError("stepped slice")
            return _SymBlock(s.start or 0, s.stop)
        if isinstance(s, int):
            return _SymLine(s)
        raise TypeError("symbolic lines: index")


def _check_v2000_counts(ctx, fi: FuncInfo, res: RuleResult):
    """Partial evaluation of the entry function on a symbolic line list with sentinel counts A=5 atoms, B=7 bonds, L=2
    atom lists: which lines go to the atom / bond / property decoders.  Helper functions that receive the whole line list
    are evaluated as well; decoders (functions that receive a block of lines) are recorded and not entered."""
    from ..model import ConstEval, NotConst
    A, B, L = 5, 7, 2
    sent = {(0, 3): A, (3, 6): B, (6, 9): L}
    bad_span, blocks, header_reads = [], [], []

    class _Opaque:
        """result of a decoder: a table nobody looks into here (hashable, iterates as empty, absorbs updates)"""
        def __iter__(self):
            return iter(())

        def __len__(self):
            return 0

        def __contains__(self, x):
            return False

        def items(self):
            return ()

        def keys(self):
            return ()

        def values(self):
            return ()

        def get(self, k, d=None):
            return d

        def update(self, *a, **k):
            return None

        def __or__(self, o):
            return self

        def __ior__(self, o):
            return self

    def hook(f, args, kwargs):
        allargs = list(args) + list(kwargs.values())
        if any(isinstance(a, _SymField) for a in allargs):
            fld = next(a for a in allargs if isinstance(a, _SymField))
            if fld.k == 3:
                from .spec import canon_span
                if canon_span("counts", fld.lo, fld.hi) in sent:
                    return sent[canon_span("counts", fld.lo, fld.hi)]
                if 6 <= fld.lo and fld.hi is not None and fld.hi <= 9:
                    # some of the digits of the atom-list count: a number that is not larger than the count.  It only says
                    # where the property scan may begin, and beginning earlier is harmless (checked below)
                    return 0
                bad_span.append((f, fld.lo, fld.hi))
                return 0
            if isinstance(fld.k, int) and fld.k < 3:
                header_reads.append((f, fld.k, fld.lo, fld.hi))
                return 0
            raise NotConst("field of a data line")
        if any(isinstance(a, (_SymBlock, _SymDataLine)) for a in allargs):
            blk = next(a for a in allargs if isinstance(a, (_SymBlock, _SymDataLine)))
            blk = blk.block if isinstance(blk, _SymDataLine) else blk
            if not any(b_[1:] == (blk.lo, blk.hi) and b_[0].fq == f.fq for b_ in blocks):
                blocks.append((f, blk.lo, blk.hi))
            ret = annotation_text(f)
            return (_Opaque(), _Opaque()) if ret.startswith("tuple") else _Opaque()
        if any(isinstance(a, _SymLines) for a in allargs):
            return NotImplemented       # a helper working on the whole file: evaluate it
        if any(isinstance(a, _Opaque) for a in allargs):
            return _Opaque()            # post-processing of decoded tables
        return NotImplemented

    def annotation_text(f):
        from ..model import annotation_name
        return annotation_name(f.node.returns) or ""
    ce = ConstEval(ctx.repo, fi.module, hook)
    try:
        ce.call_function(fi, [_SymLines()], {})
    except (NotConst, TypeError, KeyError, IndexError, ValueError, AttributeError) as ex:
        raise AnalysisError(f"R-COLS: cannot evaluate how {fi.qualname} cuts the file into blocks ({type(ex).__name__}: {ex})")
    for f, k_, lo, hi in header_reads:
        res.inst(fi.fq, f"lines[{k_}][{lo}:{hi}] read by {f.name}", "fail")
        res.fail(Finding("R-COLS", fi.module.rel, fi.qualname, f"lines[{k_}][{lo}:{hi}]",
                         f"a number is read from line {k_ + 1} of the file, one of the three free-text header lines (title, program, comment); the counts are on line 4", line=fi.node.lineno))
    if header_reads:
        return
    for f, lo, hi in bad_span:
        res.inst(fi.fq, f"counts line field [{lo}:{hi}] read by {f.name}", "fail")
        res.fail(Finding("R-COLS", fi.module.rel, fi.qualname, f"lines[3][{lo}:{hi}]", f"counts-line slice {lo}:{hi} is not one of the fields aaa (0:3), bbb (3:6), lll (6:9)", line=fi.node.lineno))
    if len(blocks) < 3:
        raise AnalysisError("R-COLS: V2000 entry no longer slices the line list into atom / bond / property blocks")
    want = {"atom": (4, 4 + A), "bond": (4 + A, 4 + A + B)}
    dec_a, dec_b = block_decoder(ctx, "V2000", 0), block_decoder(ctx, "V2000", 1)
    for f, lo, hi in blocks:
        callee = f.name
        if dec_a is not None and dec_b is not None:
            role = "atom" if f.fq == dec_a.fq or f.fq in ctx.cg.closure([dec_a.fq]) and f.fq not in ctx.cg.closure([dec_b.fq]) else \
                "bond" if f.fq == dec_b.fq or f.fq in ctx.cg.closure([dec_b.fq]) and f.fq not in ctx.cg.closure([dec_a.fq]) else "prop"
        else:
            role = "atom" if "atom" in callee and "bond" not in callee else "bond" if "bond" in callee else "prop"
        if role in want:
            ok = (lo, hi) == want[role]
            why = f"{role} block = lines[{lo}:{hi}] for counts (5 atoms, 7 bonds, 2 lists); format: lines[{want[role][0]}:{want[role][1]}]"
        else:
            # atom, bond and atom-list lines cannot begin with `M  ` (they begin with a number field), so the scan may start
            # anywhere after the counts line and at the latest where the property lines begin; header lines are free text
            ok = lo is not None and hi is None and 4 <= lo <= 4 + A + B + L
            why = f"property scan starts at line {lo} for counts (5, 7, 2); must start within [4, {4 + A + B + L}] and run to the end"
        res.inst(fi.fq, f"lines[{lo}:{hi if hi is not None else ''}] -> {callee}", "ok" if ok else "fail", detail=why)
        if not ok:
            res.fail(Finding("R-COLS", fi.module.rel, fi.qualname, f"lines[{lo}:{hi if hi is not None else ''}] -> {callee}", why, line=fi.node.lineno))


def _check_index_offsets(ctx, f: FuncInfo, res: RuleResult):
    """`_to_int(line[a:b]) - 1` for atom-index fields (bond endpoints, property entries)"""
    for n in own_walk(f.node):
        if isinstance(n, ast.Assign) and len(n.targets) == 1 and isinstance(n.targets[0], ast.Name) and "index" in n.targets[0].id:
            sl = _slice_of(n.value)
            if sl is None:
                continue
            v = n.value
            k = 0
            if isinstance(v, ast.BinOp) and isinstance(v.op, (ast.Sub, ast.Add)) and isinstance(v.right, ast.Constant):
                k = -v.right.value if isinstance(v.op, ast.Sub) else v.right.value
            ok = k == -1
            res.inst(f.fq, short(n), "ok" if ok else "fail", detail="file atom numbers are 1-based, atom records are keyed 0-based")
            if not ok:
                res.fail(Finding("R-COLS", f.module.rel, f.qualname, norm(n), f"atom index field is used with offset {k:+d}; atom records are keyed by position (0-based), the file counts from 1", line=n.lineno))


def _check_prop_entries(ctx, f: FuncInfo, res: RuleResult):
    """property line `M  XXXnn8 aaa vvv ...`: entry i has the atom number at 10+8i..13+8i and the value at 14+8i..17+8i"""
    loops = [n for n in own_walk(f.node) if isinstance(n, ast.For) and isinstance(n.iter, ast.Call) and isinstance(n.iter.func, ast.Name) and n.iter.func.id == "range"]
    for lp in loops:
        slices = [s for s in ast.walk(lp) if isinstance(s, ast.Subscript) and isinstance(s.slice, ast.Slice)]
        if not slices or not isinstance(lp.target, ast.Name):
            continue
        i = lp.target.id
        pre = [st for st in f.node.body if st is not lp and getattr(st, "lineno", 0) < lp.lineno]
        spans = {}
        # the values the loop variable takes for the entries 1..8: 0..7 for range(n), start + k*step for range(start, stop, step)
        env0 = run_straightline(pre, {})
        rargs = lp.iter.args
        if len(rargs) == 1:
            values = list(range(8))
        else:
            start_ = _int_or_none(rargs[0], env0)
            step_ = _int_or_none(rargs[2], env0) if len(rargs) > 2 else 1
            if start_ is None or step_ is None:
                raise AnalysisError(f"R-COLS: cannot evaluate the bounds of `{short(lp.iter, 60)}` in {f.qualname}")
            values = [start_ + k_ * step_ for k_ in range(8)]
        for iv_pos, iv in enumerate(values):
            env = run_straightline(pre, {})
            env[i] = iv
            env = run_straightline(lp.body, env)
            for s in slices:
                lo = _int_or_none(s.slice.lower, env) if s.slice.lower else 0
                hi = _int_or_none(s.slice.upper, env) if s.slice.upper else None
                from .spec import canon_span
                c_lo, c_hi = canon_span("prop", lo - 8 * iv_pos, hi - 8 * iv_pos) if isinstance(lo, int) and isinstance(hi, int) else (lo, hi)
                spans.setdefault(norm(s), (s, []))[1].append((c_lo + 8 * iv_pos, c_hi + 8 * iv_pos) if isinstance(c_lo, int) and isinstance(c_hi, int) else (lo, hi))
        atom_want = [(V2000_PROP["entry_offset"] + V2000_PROP["entry_len"] * k + V2000_PROP["atom"][0],
                      V2000_PROP["entry_offset"] + V2000_PROP["entry_len"] * k + V2000_PROP["atom"][1]) for k in range(8)]
        val_want = [(V2000_PROP["entry_offset"] + V2000_PROP["entry_len"] * k + V2000_PROP["value"][0],
                     V2000_PROP["entry_offset"] + V2000_PROP["entry_len"] * k + V2000_PROP["value"][1]) for k in range(8)]
        for text, (s, got) in spans.items():
            ok = got in (atom_want, val_want)
            res.inst(f.fq, f"property entry slice `{text}`", "ok" if ok else "fail", detail=f"entries 1..8 at {got[:3]}...")
            if not ok:
                res.fail(Finding("R-COLS", f.module.rel, f.qualname, text,
                                 f"entry i of a property line is read at {got[:3]}…; the format has the atom number at {atom_want[:3]}… and the value at {val_want[:3]}…", line=s.lineno))
        # entry count field nn8
        for st in pre:
            if isinstance(st, ast.Assign):
                sl = _slice_of(st.value)
                if sl is not None:
                    lo = _int_or_none(sl.slice.lower, {}) if sl.slice.lower else 0
                    hi = _int_or_none(sl.slice.upper, {})
                    from .spec import canon_span
                    ok = canon_span("prop", lo, hi) == V2000_PROP["nn8"]
                    res.inst(f.fq, f"entry count `{short(st)}`", "ok" if ok else "fail")
                    if not ok:
                        res.fail(Finding("R-COLS", f.module.rel, f.qualname, norm(st), f"entry count is read at {lo}:{hi}, the format has it at 6:9", line=st.lineno))


@rule("R-CHGTABLE")
def r_chgtable(ctx) -> RuleResult:
    res = RuleResult("R-CHGTABLE", "V2000 charge-code table = {1:+3, 2:+2, 3:+1, 4:doublet radical, 5:-1, 6:-2, 7:-3}; code 0 / unknown codes give no attribute")
    t = ctx.repo.try_const("tucan.element_attributes", "MOLFILE_V2000_CHARGES", None)
    if not isinstance(t, dict):
        raise AnalysisError("MOLFILE_V2000_CHARGES is no longer a constant table")
    ok = t == V2000_CHARGE_CODES
    res.inst("tucan.element_attributes", f"MOLFILE_V2000_CHARGES ({len(t)} codes)", "ok" if ok else "fail")
    if not ok:
        diff = sorted(k for k in set(t) | set(V2000_CHARGE_CODES) if t.get(k) != V2000_CHARGE_CODES.get(k))
        m = ctx.repo.module("tucan.element_attributes")
        res.fail(Finding("R-CHGTABLE", m.rel, "MOLFILE_V2000_CHARGES", f"codes {diff}: {[t.get(k) for k in diff]}",
                         f"charge codes {diff} decode to {[t.get(k) for k in diff]}, the format says {[V2000_CHARGE_CODES.get(k) for k in diff]}",
                         line=m.assign_nodes["MOLFILE_V2000_CHARGES"].lineno))
    # the lookup falls back to 'no attribute'
    v2 = reader_entries(ctx)["V2000"]
    n = 0
    for q in ctx.cg.closure([v2.fq]):
        f = ctx.cg.funcs[q]
        for x in own_walk(f.node):
            if isinstance(x, ast.Subscript) and isinstance(x.value, ast.Name) and x.value.id == "MOLFILE_V2000_CHARGES" and isinstance(x.ctx, ast.Load):
                n += 1
                res.inst(f.fq, short(x), "fail")
                res.fail(Finding("R-CHGTABLE", f.module.rel, f.qualname, norm(x), "charge table is subscripted directly: code 0 (uncharged) raises KeyError", line=x.lineno))
            if isinstance(x, ast.Call) and isinstance(x.func, ast.Attribute) and x.func.attr == "get" and isinstance(x.func.value, ast.Name) and x.func.value.id == "MOLFILE_V2000_CHARGES":
                n += 1
                d = x.args[1] if len(x.args) > 1 else None
                ok = isinstance(d, ast.Dict) and not d.keys
                res.inst(f.fq, short(x), "ok" if ok else "fail")
                if not ok:
                    res.fail(Finding("R-CHGTABLE", f.module.rel, f.qualname, norm(x), "unknown / zero charge code does not fall back to 'no attribute' ({})", line=x.lineno))
    if n == 0:
        raise AnalysisError("R-CHGTABLE: the V2000 reader no longer consults the charge table")
    return res


# --------------------------------------------------------------------------- R-SIBKEYS


@rule("R-SIBKEYS")
def r_sibkeys(ctx) -> RuleResult:
    res = RuleResult("R-SIBKEYS", "V2000 and V3000 decoders are siblings: same atom and bond key sets, both map D/T through the shared helper before the element-table lookup, dispatch is total (V3000 / V2000 / raise)")
    a2 = analyse_reader(ctx, "V2000")
    a3 = analyse_reader(ctx, "V3000")
    k2, k3 = set(a2[2].fields), set(a3[2].fields)
    ok = k2 == k3
    res.inst("V2000 vs V3000", f"atom record keys {sorted(k2)}", "ok" if ok else "fail")
    if not ok:
        res.fail(Finding("R-SIBKEYS", a2[0].module.rel, a2[0].qualname, f"keys {sorted(k2 ^ k3)}", f"atom records of the two readers differ in the keys {sorted(k2 ^ k3)}"))
    want = {"element_symbol", "atomic_number", "partition", "x_coord", "y_coord", "z_coord", "chg", "mass", "rad"}
    for ver, ks, a in (("V2000", k2, a2), ("V3000", k3, a3)):
        ok = ks == want
        res.inst(a[0].fq, f"{ver} atom record keys = the graph's attribute vocabulary", "ok" if ok else "fail")
        if not ok:
            res.fail(Finding("R-SIBKEYS", a[0].module.rel, a[0].qualname, f"keys {sorted(ks ^ want)}", f"{ver} atom records: keys {sorted(ks ^ want)} missing or unexpected"))
    b2 = a2[3].elem if a2[3].kind == "map" else None
    b3 = a3[3].elem if a3[3].kind == "map" else None
    kb2 = set(b2.fields) if b2 is not None and b2.kind == "rec" else set()
    kb3 = set(b3.fields) if b3 is not None and b3.kind == "rec" else set()
    ok = kb2 == kb3 == {"bond_type"}
    res.inst("V2000 vs V3000", f"bond record keys {sorted(kb2)} / {sorted(kb3)}", "ok" if ok else "fail")
    if not ok:
        res.fail(Finding("R-SIBKEYS", a3[0].module.rel, a3[0].qualname, f"bond keys {sorted(kb2)} vs {sorted(kb3)}", "bond records of the two readers differ"))
    # D/T helper before the element table: the key of every look-up in the element table (in the reader or in a helper it
    # calls) is, on some path, the constant 'H' that the shared helper puts in place of D and T
    from .tokens import _alts, _show, _sym_exec
    etab = ctx.repo.try_const("tucan.element_attributes", "ELEMENT_ATTRS", None)

    def is_table(f, e) -> bool:
        if isinstance(e, ast.Name):
            r = ctx.repo.resolve(f.module, e.id)
            if r and r[0] == "const":
                v = ctx.repo.try_const(r[1], r[2], None)
                return isinstance(v, dict) and v is etab or (isinstance(v, dict) and isinstance(etab, dict) and v == etab)
        return False
    for ver, a in (("V2000", a2), ("V3000", a3)):
        clo = [a[0]] + [ctx.cg.funcs[q] for q in ctx.cg.closure([a[0].fq])]
        lookups = []
        for f in clo:
            for x in own_walk(f.node):
                if isinstance(x, ast.Subscript) and is_table(f, x.value):
                    lookups.append((f, x, x.slice))
                elif isinstance(x, ast.Call) and isinstance(x.func, ast.Attribute) and x.func.attr == "get" and x.args and is_table(f, x.func.value):
                    lookups.append((f, x, x.args[0]))
        if not lookups:
            raise AnalysisError(f"R-SIBKEYS: {ver} reader has no element-table lookup")
        for f, x, key in lookups:
            env, _ = _sym_exec(ctx, f, {p_: ("name", p_) for p_ in params_of(f.node)})
            # the key as it stands where the look-up happens: re-read the function up to that statement
            kt = None
            fn2 = f.node
            stmts = []
            for st in fn2.body:
                stmts.append(st)
                if any(y is x for y in ast.walk(st)):
                    break
            import copy
            sub = copy.copy(fn2)
            sub.body = stmts[:-1] if len(stmts) > 1 else []
            if stmts and isinstance(stmts[-1], (ast.Try, ast.With, ast.If, ast.For, ast.While)):
                # the look-up sits inside a compound statement: what precedes it there counts as well
                def prefix(block):
                    out_ = []
                    for st_ in block:
                        if any(y is x for y in ast.walk(st_)):
                            if isinstance(st_, (ast.Try, ast.With, ast.For, ast.While)):
                                out_ += prefix(st_.body)
                            elif isinstance(st_, ast.If):
                                out_ += prefix(st_.body if any(y is x for b_ in st_.body for y in ast.walk(b_)) else st_.orelse)
                            return out_
                        out_.append(st_)
                    return out_
                sub.body = sub.body + prefix([stmts[-1]])
            from ..model import FuncInfo as _FI
            f_sub = copy.copy(f)
            f_sub.node = sub
            env2, _ = _sym_exec(ctx, f_sub, {p_: ("name", p_) for p_ in params_of(fn2)})
            kt = env2["__term__"](key)
            ok = any(alt == ("const", "H") for alt in _alts(kt))
            res.inst(f.fq, f"{ver}: {short(x)} keyed by the D/T-normalised symbol", "ok" if ok else "fail", detail=_show(kt)[:80])
            if not ok:
                res.fail(Finding("R-SIBKEYS", f.module.rel, f.qualname, norm(x), f"{ver}: element table is consulted with a symbol that did not pass through detect_hydrogen_isotopes (D / T raise KeyError or are misread)", line=x.lineno))
    # dispatch totality: a version string that is neither V2000 nor V3000 ends in a raise without any reader being called
    dm = dispatch_model(ctx)
    disp = dm.disp
    readers = {f.fq for f in reader_entries(ctx).values()}
    bad_ver = None
    for ver in ("V1000", "", "v3000", "V30000"):
        called, end = dm.outcome(ver)
        if end != "raise" or any(f.fq in readers for f in called):
            bad_ver = (ver, end, [f.name for f in called if f.fq in readers])
            break
    ok = bad_ver is None
    res.inst(disp.fq, "unsupported version raises the reader's exception", "ok" if ok else "fail")
    if not ok:
        res.fail(Finding("R-SIBKEYS", disp.module.rel, disp.qualname, "version dispatch",
                         f"a version other than V2000 / V3000 does not raise (for {bad_ver[0]!r} the dispatcher {bad_ver[1]}s" + (f" after calling {bad_ver[2]}" if bad_ver[2] else "") + ")",
                         line=disp.node.lineno))
    return res


# --------------------------------------------------------------------------- R-SUPERSEDE


def scan_var(ctx, fi, fn):
    for lp in ast.walk(fn):
        if isinstance(lp, ast.For) and isinstance(lp.target, ast.Name) and mentions_text(ctx, fi, lp, "M  END"):
            return lp.target.id
    return None


@rule("R-SUPERSEDE")
def r_supersede(ctx) -> RuleResult:
    res = RuleResult("R-SUPERSEDE", "V2000 property block: CHG or RAD lines clear both chg and rad of every atom before the merge; the scan ends at `M  END` or raises")
    v2 = reader_entries(ctx)["V2000"]
    clo = [ctx.cg.funcs[q] for q in ctx.cg.closure([v2.fq])]
    # the scan function: the one whose loop over the lines stops at `M  END`
    sf = None
    for f in clo:
        for lp in [n for n in own_walk(f.node) if isinstance(n, ast.For)]:
            if mentions_text(ctx, f, lp, "M  END"):
                sf = f
    if sf is None:
        raise AnalysisError("R-SUPERSEDE: no scan loop with an `M  END` test in the V2000 reader (anchor vanished)")
    chg_k = ctx.repo.const("tucan.graph_attributes", "CHG")
    rad_k = ctx.repo.const("tucan.graph_attributes", "RAD")

    # ---- where chg / rad are removed from atom records: directly in the property function or in a callee (one level),
    #      each with the guards that enclose it (callee guards are evaluated with the call's arguments)
    def guards_of(fnode, target):
        """[(test, polarity)] of the If statements of fnode that enclose `target`"""
        out = []

        def walk(stmts, acc):
            for st in stmts:
                if st is target or any(x is target for x in ast.walk(st)):
                    if isinstance(st, ast.If):
                        inb = any(x is target for b_ in st.body for x in ast.walk(b_))
                        ino = any(x is target for b_ in st.orelse for x in ast.walk(b_))
                        if inb:
                            return walk(st.body, acc + [(st.test, True)])
                        if ino:
                            return walk(st.orelse, acc + [(st.test, False)])
                        return acc          # inside the test itself
                    for fld in ("body", "orelse", "finalbody"):
                        sub = getattr(st, fld, None)
                        if isinstance(sub, list) and any(x is target for b_ in sub if isinstance(b_, ast.AST) for x in ast.walk(b_)):
                            return walk(sub, acc)
                    return acc
            return acc
        return walk(fnode.body, [])

    def removals(f, bind):
        """(node, key) of every `.pop(K…)` / `del x[K]` in f whose key is constant (after binding f's parameters by `bind`)"""
        out = []
        for x in own_walk(f.node):
            k = None
            if isinstance(x, ast.Call) and isinstance(x.func, ast.Attribute) and x.func.attr == "pop" and x.args:
                k = x.args[0]
            elif isinstance(x, ast.Delete) and len(x.targets) == 1 and isinstance(x.targets[0], ast.Subscript):
                k = x.targets[0].slice
            if k is None:
                continue
            if isinstance(k, ast.Name) and k.id in bind:
                v = bind[k.id]
            else:
                v = try_const(ctx, f, k)
            if isinstance(v, str):
                out.append((x, v))
        return out

    unnamed: list = []

    def collect(pf):
        fn = pf.node
        kills = []          # dicts: key, site (node in pf), node (the removal), func, pf_guards, callee_guards, call
        for x, k in removals(pf, {}):
            kills.append({"key": k, "site": x, "node": x, "func": pf, "pf_guards": guards_of(fn, x), "callee_guards": [], "call": None})
        for x in own_walk(fn):
            if isinstance(x, ast.Call):
                cs = ctx.cg.resolve_call(pf, x, ctx.cg.local_types(pf), set(params_of(fn)))
                if cs.kind != "tucan":
                    continue
                tf = cs.target
                tp = params_of(tf.node)
                binds = [{}]
                for i_, a_ in enumerate(x.args):
                    if i_ < len(tp):
                        v = try_const(ctx, pf, a_)
                        if v is not None:
                            for b_ in binds:
                                b_[tp[i_]] = v
                        elif isinstance(a_, ast.Name):
                            # the variable of a loop over a constant sequence: one call per element
                            for lp_ in own_walk(fn):
                                if isinstance(lp_, ast.For) and isinstance(lp_.target, ast.Name) and lp_.target.id == a_.id and any(z is x for z in ast.walk(lp_)):
                                    seqv = try_const(ctx, pf, lp_.iter)
                                    if isinstance(seqv, (tuple, list)) and seqv and len(seqv) <= 8:
                                        binds = [dict(b_, **{tp[i_]: el_}) for b_ in binds for el_ in seqv]
                for bind in binds:
                    for y, k in removals(tf, bind):
                        kills.append({"key": k, "site": x, "node": y, "func": tf, "pf_guards": guards_of(fn, x), "callee_guards": guards_of(tf.node, y), "call": x, "bind": bind})
                # a removal whose key this analysis cannot name
                for y in own_walk(tf.node):
                    kx = y.args[0] if isinstance(y, ast.Call) and isinstance(y.func, ast.Attribute) and y.func.attr == "pop" and y.args else \
                        (y.targets[0].slice if isinstance(y, ast.Delete) and len(y.targets) == 1 and isinstance(y.targets[0], ast.Subscript) else None)
                    if kx is not None and not any(isinstance(bb.get(kx.id) if isinstance(kx, ast.Name) else try_const(ctx, tf, kx), str) for bb in binds):
                        unnamed.append(f"`{short(y, 40)}` in {tf.qualname} (called as `{short(x, 50)}`)")
        # merge: where the collected entries are written over the atom records (|= / update), in pf or a callee
        merge_calls = []
        merge_inner = {}
        scan0 = next((lp for lp in own_walk(fn) if isinstance(lp, ast.For) and isinstance(lp.target, ast.Name)
                      and mentions_text(ctx, pf, lp, "M  END")), None)
        scanned = {n_.id for n_ in ast.walk(scan0.iter) if isinstance(n_, ast.Name)} if scan0 is not None else set()
        if scan0 is None:
            # the scan lives in a callee: the parameters handed to it at the positions its loop iterates over
            sps = params_of(sf.node)
            it_names = {n_.id for lp in own_walk(sf.node) if isinstance(lp, ast.For) and mentions_text(ctx, sf, lp, "M  END") for n_ in ast.walk(lp.iter) if isinstance(n_, ast.Name)}
            for x in own_walk(fn):
                if isinstance(x, ast.Call):
                    cs = ctx.cg.resolve_call(pf, x, ctx.cg.local_types(pf), set(params_of(fn)))
                    if cs.kind == "tucan" and cs.target.fq == sf.fq:
                        for i_, a_ in enumerate(x.args):
                            if i_ < len(sps) and sps[i_] in it_names and isinstance(a_, ast.Name):
                                scanned.add(a_.id)
        for x in own_walk(fn):
            if isinstance(x, ast.Call):
                cs = ctx.cg.resolve_call(pf, x, ctx.cg.local_types(pf), set(params_of(fn)))
                if cs.kind == "tucan":
                    inner = [y for y in own_walk(cs.target.node) if (isinstance(y, ast.AugAssign) and isinstance(y.op, ast.BitOr)) or
                             (isinstance(y, ast.Call) and isinstance(y.func, ast.Attribute) and y.func.attr == "update")]
                    # the callee merges *into atom records*: it is handed the atom table (not only the collecting dict)
                    lv_ = scan_var(ctx, pf, fn)
                    if inner and any(isinstance(a_, ast.Name) and a_.id not in scanned for a_ in x.args) and \
                            not any(lv_ is not None and lv_ in names_in(a_) for a_ in x.args) and cs.target.fq != sf.fq:
                        merge_calls.append(x)
                        merge_inner[id(x)] = (cs.target, inner)
        if not merge_calls:
            for y in own_walk(fn):
                if isinstance(y, ast.AugAssign) and isinstance(y.op, ast.BitOr):
                    merge_calls.append(y)
        return kills, merge_calls, merge_inner, scanned

    # the property-block function: the scan function itself when it also clears and merges, else the function that calls it
    pf = sf
    kills, merge_calls, merge_inner, scanned = collect(sf)
    if not merge_calls:
        callers = {cs.caller.fq: cs.caller for cs in ctx.cg.callers_of(sf.fq) if cs.caller.fq in {f.fq for f in clo} | {v2.fq}}
        for c_ in callers.values():
            k2, m2, mi2, sc2 = collect(c_)
            if m2:
                pf, kills, merge_calls, merge_inner, scanned = c_, k2, m2, mi2, sc2
                break
    if not merge_calls:
        raise AnalysisError("R-SUPERSEDE: cannot find where property entries are merged into the atom records")
    fn = pf.node
    cfg = cfg_of(fn)
    kill_nodes = {id(k["site"]): (k["site"], {kk["key"] for kk in kills if kk["site"] is k["site"]}) for k in kills}
    # ---- what does seeing a CHG line / a RAD line establish, whatever its entries are?  The property-block function is
    #      followed on a block that consists of one sample line of that kind (samples with different content) and `M  END`;
    #      the atom table and everything computed from the entries is unknown.  Every removal must be executed for sure.
    SAMPLES = {"M  CHG": ["M  CHG  1   1   1", "M  CHG  1   2   0", "M  CHG  0"],
               "M  RAD": ["M  RAD  1   1   2", "M  RAD  1   3   0", "M  RAD  0"]}
    scan = next((lp for lp in own_walk(sf.node) if isinstance(lp, ast.For) and isinstance(lp.target, ast.Name)
                 and mentions_text(ctx, sf, lp, "M  END")), None)
    if scan is None:
        raise AnalysisError("R-SUPERSEDE: scan loop not found")
    lv = scan.target.id

    def consts_of(f_):
        out_ = {}
        for nm in {x.id for x in ast.walk(f_.node) if isinstance(x, ast.Name)}:
            v = try_const(ctx, f_, ast.Name(nm, ast.Load()))
            if v is not None:
                out_.setdefault(nm, v)
        from ..concrete import ContextDefault
        for nm in {x.id for x in ast.walk(f_.node) if isinstance(x, ast.Name)} - set(out_):
            v_ = f_.module.assigns.get(nm)
            if isinstance(v_, ast.Call) and norm(v_.func).endswith("ContextVar") and isinstance(kwarg(v_, "default"), ast.Constant):
                out_[nm] = ContextDefault(kwarg(v_, "default").value)
        return out_
    consts = {}
    for f_ in {pf, sf} | {k["func"] for k in kills}:
        for a_, b_ in consts_of(f_).items():
            consts.setdefault(a_, b_)
    from ..concrete import UNKNOWN, PathEval, PState
    if not scanned:
        raise AnalysisError("R-SUPERSEDE: cannot tell which variable of the property-block function holds the lines that are scanned")

    # module-level functions of the reader are followed into (their bodies are read the same way)
    callable_funcs = {}
    for f_ in pf.module.functions.values():
        if f_.cls is None and "." not in f_.qualname and f_.fq != pf.fq:
            callable_funcs[f_.name] = (f_.node, consts_of(f_))

    # the top-level statement of the property-block function in which the scan happens
    i0 = None
    for i_, st_ in enumerate(fn.body):
        for x in ast.walk(st_):
            if (sf is pf and x is scan) or (sf is not pf and isinstance(x, ast.Call) and isinstance(x.func, ast.Name) and x.func.id == sf.name):
                i0 = i_ if i0 is None else i0
    if i0 is None:
        raise AnalysisError("R-SUPERSEDE: cannot find the statement of the property-block function that scans the lines")

    def follow(smp, atoms=None):
        """(statements executed on every way through, gaps) when the property-block function is followed on the block
        [smp, 'M  END']; None for the statements if every way through ends in a raise.  With a sample atom table for the
        (one) other parameter: (the tables at the ends of the ways through, gaps)"""
        import copy
        from .common import record_classes
        pe = PathEval(callable_funcs)
        pe.record_classes = record_classes(ctx, pf.module)
        env = copy.deepcopy(consts)
        # the parameter(s) the scanned lines come from: the scanned name itself, or what a local such as
        # `remaining = iter(lines)` / `lines[k:]` is made from
        scan_params = {p_ for p_ in params_of(fn) if p_ in scanned}
        for nm in scanned - scan_params:
            d_ = single_def(fn, nm)
            src_ = [p_ for p_ in params_of(fn) if d_ is not None and p_ in names_in(d_)]
            if len(src_) == 1:
                scan_params.add(src_[0])
        others = [p_ for p_ in params_of(fn) if p_ not in scan_params]
        if atoms is not None and len(others) != 1:
            return None, ["the property-block function takes more than the lines and the atom table"]
        block_ = (list(smp) if isinstance(smp, (list, tuple)) else [smp]) + ["M  END"]
        for p_ in params_of(fn):
            env[p_] = list(block_) if p_ in scan_params else (copy.deepcopy(atoms) if atoms is not None else UNKNOWN)
        # what precedes the scan works on the file as a whole (unknown here); the scan itself sees the sample block
        states, lefts = pe.block(fn.body[:i0], [PState(env)])
        if lefts and not states:
            return None, pe.gaps or ["the statements in front of the scan leave the function"]
        for st_ in states:
            for nm in scanned:
                if nm in scan_params or isinstance(st_.env.get(nm, UNKNOWN), type(UNKNOWN)):
                    st_.env[nm] = list(block_)
        pe.gaps = []
        falls, lefts2 = pe.block(fn.body[i0:], states)
        ends = [st_ for st_ in falls] + [st_ for st_, how, _v in lefts2 if how == "return"]
        if not ends:
            return None, pe.gaps
        if atoms is not None:
            return [st_.env.get(others[0]) for st_ in ends], pe.gaps
        tr = None
        for st_ in ends:
            tr = set(st_.trace) if tr is None else tr & st_.trace
        return tr, pe.gaps

    def chain_to(fnode, target):
        """statements of fnode that enclose `target`, outermost first"""
        out_ = []

        def walk(stmts):
            for st in stmts:
                if st is target or any(x is target for x in ast.walk(st)):
                    out_.append(st)
                    for fld in ("body", "orelse", "finalbody"):
                        sub = getattr(st, fld, None)
                        if isinstance(sub, list) and any(x is target for b_ in sub if isinstance(b_, ast.stmt) for x in ast.walk(b_)):
                            walk([b_ for b_ in sub if isinstance(b_, ast.stmt)])
                    return
        walk(fnode.body)
        return out_

    def established(k) -> tuple:
        """(True, '') / (False, reason) / raises Unsupported"""
        chain = chain_to(fn, k["site"])
        for kind, samples in SAMPLES.items():
            for smp in samples:
                trace, gaps = follow(smp)
                env = dict(consts)
                if trace is None:
                    raise Unsupported(f"following the property block on the line {smp!r} ends in a raise on every path" + (f" ({gaps[0]})" if gaps else ""))
                prev_if = None
                for st in chain:
                    if id(st) not in trace:
                        if gaps:
                            raise Unsupported(f"following the property block on the line {smp!r}: {gaps[0]}")
                        t_ = prev_if.test if prev_if is not None else None
                        return False, (f"`{short(t_, 40)}` is not certain to hold after the line {smp!r}" if t_ is not None else f"`{short(st, 40)}` is not reached after the line {smp!r}")
                    if isinstance(st, (ast.For, ast.While)):
                        break          # a loop over the atoms: what is inside is done for each of them
                    prev_if = st if isinstance(st, ast.If) else prev_if
                if k["call"] is not None:
                    # inside the callee: the statements around the removal are executed on every way through as well
                    prev_if = None
                    for st in chain_to(k["func"].node, k["node"]):
                        if id(st) not in trace:
                            if gaps:
                                raise Unsupported(f"following the property block on the line {smp!r}: {gaps[0]}")
                            t_ = prev_if.test if prev_if is not None else None
                            return False, (f"`{short(t_, 40)}` in {k['func'].name} is not certain to hold after the line {smp!r}" if t_ is not None else f"`{short(st, 40)}` is not reached after the line {smp!r}")
                        if isinstance(st, (ast.For, ast.While)):
                            break
                        prev_if = st if isinstance(st, ast.If) else prev_if
                    n_sites = len({id(kk["call"]) for kk in kills if kk["func"] is k["func"] and kk["call"] is not None})
                    if n_sites > 1 and k["callee_guards"]:
                        # the callee is used for several attributes: its own tests are read with this call's constants
                        env2 = dict(consts)
                        env2.update(k.get("bind") or {})
                        for test, pol in k["callee_guards"]:
                            if bool(ceval(test, env2)) != pol:
                                return False, f"`{short(test, 40)}` is {not pol} after the line {smp!r}"
        return True, ""
    # what the block does to a sample atom table, for the cases the property names: entries over several lines accumulate, a
    # later entry for the same atom wins, masses from D / T stay unless an ISO entry names the atom, an explicit 0 is no entry
    mass_k = ctx.repo.const("tucan.graph_attributes", "MASS")
    cases = [
        (["M  ISO  1   1  13", "M  ISO  1   2  14"], {0: {}, 1: {}}, {0: {mass_k: 13}, 1: {mass_k: 14}}, "isotope entries on two lines"),
        (["M  ISO  2   1  13   2  14"], {0: {}, 1: {}}, {0: {mass_k: 13}, 1: {mass_k: 14}}, "two isotope entries on one line"),
        (["M  CHG  1   2  -1"], {0: {chg_k: 1, rad_k: 2}, 1: {}}, {0: {}, 1: {chg_k: -1}}, "a charge line supersedes the charge codes"),
        (["M  RAD  1   2   3"], {0: {chg_k: 1}, 1: {}}, {0: {}, 1: {rad_k: 3}}, "a radical line supersedes the charge codes"),
        (["M  CHG  1   1   1", "M  RAD  1   2   2"], {0: {mass_k: 2}, 1: {}}, {0: {mass_k: 2, chg_k: 1}, 1: {rad_k: 2}}, "the mass of a D atom stays when other lines are there"),
        (["M  ISO  1   1   3"], {0: {mass_k: 2}, 1: {}}, {0: {mass_k: 3}, 1: {}}, "an isotope entry overrides the mass of a D atom"),
        (["M  CHG  2   1   1   2  -1", "M  CHG  1   1   2"], {0: {}, 1: {}}, {0: {chg_k: 2}, 1: {chg_k: -1}}, "a later entry for the same atom wins"),
        (["M  CHG  1   1   0"], {0: {chg_k: 1}, 1: {}}, {0: {}, 1: {}}, "an explicit 0 is no entry (and the line still supersedes)"),
        (["M  CHG  1   2   1", "M  ISO  1   1  13"], {0: {rad_k: 2}, 1: {}}, {0: {mass_k: 13}, 1: {chg_k: 1}}, "a charge line supersedes the charge codes also when an isotope line follows it"),
        (["M  ISO  1   1  13", "M  RAD  1   2   2"], {0: {chg_k: 1}, 1: {}}, {0: {mass_k: 13}, 1: {rad_k: 2}}, "a radical line supersedes the charge codes also when an isotope line precedes it"),
        # lines of other properties the format defines stand between / before the read ones and change nothing; an atom
        # value (`V  aaa text`) is one line, an atom alias and a group abbreviation (`A  aaa`, `G  aaappp`) are followed by one line of text
        (["V    2 carbonyl oxygen", "M  ISO  1   1  13"], {0: {}, 1: {}}, {0: {mass_k: 13}, 1: {}}, "an atom value line (one line by the format) does not hide the isotope line after it"),
        (["M  ISO  1   1  13", "V    1 0.731", "M  RAD  1   2   2"], {0: {}, 1: {}}, {0: {mass_k: 13}, 1: {rad_k: 2}}, "an atom value line between two read lines changes nothing"),
        (["M  STY  1   1 SUP", "M  SAL   1  2   1   2", "M  RAD  1   2   2"], {0: {}, 1: {}}, {0: {}, 1: {rad_k: 2}}, "lines of other M properties before the radical line change nothing"),
        (["G    1   2", "Ph", "M  CHG  1   1  -1"], {0: {}, 1: {}}, {0: {chg_k: -1}, 1: {}}, "a group abbreviation (two lines) before the charge line changes nothing"),
        (["M  CHG  2   1   0   2  -1"], {0: {}, 1: {}}, {0: {}, 1: {chg_k: -1}}, "an explicit 0 for one atom does not end the line: the entry after it counts"),
        (["M  ISO  2   1   0   2  13", "M  RAD  2   1   0   2   2"], {0: {}, 1: {}}, {0: {}, 1: {mass_k: 13, rad_k: 2}}, "entries after an explicit 0, on two lines"),
    ]
    n_followed = 0
    for lines_, atoms_in, want_, what_ in cases:
        tables, gaps = follow(lines_, atoms_in)
        if tables is None and not gaps:
            res.inst(pf.fq, f"{what_}: {lines_} on {atoms_in} gives {want_}", "fail")
            res.fail(Finding("R-SUPERSEDE", pf.module.rel, pf.qualname, f"{what_}: {lines_} rejected",
                             f"following the well-formed property block {lines_ + ['M  END']} ends in a raise on every way through: a file the format allows is rejected", line=fn.lineno))
            break
        if tables is None or gaps or not all(isinstance(t_, dict) for t_ in tables):
            res.inst(pf.fq, f"{what_}: {lines_}", "ok", detail="not followed by the sample evaluator" + (f": {gaps[0]}" if gaps else ""))
            continue
        n_followed += 1
        wrong = [t_ for t_ in tables if t_ != want_]
        res.inst(pf.fq, f"{what_}: {lines_} on {atoms_in} gives {want_}", "fail" if wrong and len(wrong) == len(tables) else "ok")
        if wrong and len(wrong) == len(tables):
            res.fail(Finding("R-SUPERSEDE", pf.module.rel, pf.qualname, f"{what_}: {lines_}",
                             f"{what_}: following the property block {lines_} on the atom table {atoms_in} ends with {wrong[0]}, the format says {want_}", line=fn.lineno))
            break
    res.counts = dict(res.counts or {}, sample_blocks_followed=n_followed)
    if res.findings:
        return res          # shown on a sample; the clauses below could only add 'cannot tell'
    killed_when = {chg_k: False, rad_k: False}
    why_not = {}
    conds = {}
    for k in kills:
        if k["key"] not in killed_when:
            continue
        gtxt = [("" if pol else "not ") + short(t, 40) for t, pol in k["pf_guards"] + k["callee_guards"]]
        conds.setdefault(k["key"], []).append(" and ".join(gtxt) or "always")
        from ..concrete import UnknownValue
        try:
            ok_, why = established(k)
        except UnknownValue:
            ok_, why = False, "the condition depends on more than the kind of the line (its entries, other state)"
        except Unsupported as ex:
            raise AnalysisError(f"R-SUPERSEDE: cannot evaluate the condition under which `{k['key']}` is cleared ({ex})")
        if ok_:
            killed_when[k["key"]] = True
        else:
            why_not[k["key"]] = why
    # ... and from nothing else: a block without a CHG / RAD line leaves the atom block's charge codes alone.  Followed on a
    # sample atom table whose first atom carries a charge and a radical from its charge code
    sample_atoms = {0: {chg_k: 1, rad_k: 2}, 1: {}}
    for smp in ("M  ISO  1   1  13", "M  STY  1   1 SUP", "M  END"):
        tables, gaps = follow(smp, sample_atoms)
        if tables is None or gaps or not all(isinstance(t_, dict) and isinstance(t_.get(0), dict) for t_ in tables):
            continue
        lost = [k_ for k_ in (chg_k, rad_k) if all(k_ not in t_[0] for t_ in tables)]
        res.inst(pf.fq, f"a property block that is just `{smp}` leaves the atom block's charge and radical in place", "fail" if lost else "ok")
        if lost:
            k0 = next((k for k in kills if k["key"] in lost), kills[0] if kills else None)
            res.fail(Finding("R-SUPERSEDE", (k0["func"] if k0 else pf).module.rel, (k0["func"] if k0 else pf).qualname, f"{lost} removed without a CHG / RAD line",
                             f"{lost} of the atom block's charge code are gone after a property block that holds no CHG or RAD line (followed on the block `{smp}` "
                             f"with a first atom that carries {chg_k}=1, {rad_k}=2): charges and radicals given by the charge code are lost", line=(k0["node"].lineno if k0 else pf.node.lineno)))
            break
    if not all(killed_when.values()) and unnamed and not why_not:
        raise AnalysisError(f"R-SUPERSEDE: cannot tell which attribute {unnamed[0]} removes")
    ok = all(killed_when.values())
    res.inst(pf.fq, f"chg cleared under {conds.get(chg_k)}, rad cleared under {conds.get(rad_k)}: both follow from a CHG line and from a RAD line", "ok" if ok else "fail")
    if not ok:
        miss = sorted(k for k, v in killed_when.items() if not v)
        res.fail(Finding("R-SUPERSEDE", pf.module.rel, pf.qualname, f"supersession of {miss}",
                         f"a CHG or RAD property line does not clear {miss} of all atoms: atom-block charge codes survive although the format says they are superseded"
                         + (f" ({'; '.join(why_not.values())})" if why_not else ""),
                         line=fn.lineno))
    # entries of all lines accumulate: inside the scan loop nothing that depends on the line is stored under a loop-invariant
    # name / key, or under a key that is the same for every line of a kind
    sfn = sf.node
    for lp in [n for n in own_walk(sfn) if isinstance(n, ast.For) and isinstance(n.target, ast.Name)]:
        lv2 = lp.target.id
        after = [st for st in sfn.body if getattr(st, "lineno", 0) > lp.end_lineno]
        used_after = {x.id for st in after for x in ast.walk(st) if isinstance(x, ast.Name) and isinstance(x.ctx, ast.Load)}
        used_after |= {x.id for r_ in own_walk(sfn) if isinstance(r_, ast.Return) and r_.value is not None for x in ast.walk(r_.value) if isinstance(x, ast.Name)}
        line_derived = {lv2}
        for _ in range(3):
            for st in ast.walk(lp):
                if isinstance(st, ast.Assign) and isinstance(st.targets[0], ast.Name) and line_derived & names_in(st.value):
                    line_derived.add(st.targets[0].id)
        pre2 = [st for st in sfn.body if st.end_lineno < lp.lineno]

        def key_on(sl, smp):
            env = dict(consts_of(sf))
            run_body(pre2, env)
            env[lv2] = smp
            run_body(lp.body, env)
            return ceval(sl, env)
        for st in ast.walk(lp):
            if isinstance(st, ast.Assign) and (lv2 in names_in(st.value) or (isinstance(st.targets[0], ast.Subscript) and line_derived & names_in(st.value))):
                tg = st.targets[0]
                lossy = None
                if isinstance(tg, ast.Name) and tg.id in used_after and tg.id != lv2 and lv2 in names_in(st.value):
                    lossy = tg.id
                elif isinstance(tg, ast.Subscript) and isinstance(tg.value, ast.Name) and tg.value.id in used_after and tg.value.id not in names_in(st.value):
                    if try_const(ctx, sf, tg.slice) is not None:
                        lossy = norm(tg)
                    else:
                        # the key is computed: is it the same for two different lines of one kind?
                        try:
                            same = all(key_on(tg.slice, sm_[0]) == key_on(tg.slice, sm_[1]) for sm_ in SAMPLES.values())
                        except (NameError, UnboundLocalError):
                            raise
                        except Exception:
                            same = None
                        if same:
                            lossy = norm(tg)
                if lossy:
                    res.inst(sf.fq, short(st), "fail")
                    res.fail(Finding("R-SUPERSEDE", sf.module.rel, sf.qualname, norm(st),
                                     f"`{lossy}` is overwritten for every matching line: only the last line of a kind is kept, entries spread over several lines (more than eight entries) are lost", line=st.lineno))
    # clearing precedes the merge on every path
    for mc in merge_calls:
        mn = cfg.stmt_node_containing(mc) if not isinstance(mc, ast.stmt) else cfg.node_of(mc)
        for k in kills:
            kc = k["site"]
            kn = cfg.stmt_node_containing(kc)
            if kc is mc and id(mc) in merge_inner and k["func"] is merge_inner[id(mc)][0]:
                # removal and merge live in the same callee: order them there; a loop over the atoms that both sit in
                # is one atom per iteration, so the back edge does not count
                tf, inner = merge_inner[id(mc)]
                c3 = cfg_of(tf.node)
                bad = False
                for y in inner:
                    yn, xn = c3.stmt_node_containing(y), c3.stmt_node_containing(k["node"])
                    heads = [c3.node_of(lp) for lp in own_walk(tf.node) if isinstance(lp, ast.For)
                             and any(z is y for z in ast.walk(lp)) and any(z is k["node"] for z in ast.walk(lp))]
                    if yn is not None and xn is not None and yn != xn and c3.reachable(yn, xn, avoid=[h for h in heads if h is not None]):
                        bad = True
            else:
                bad = mn is not None and kn is not None and mn != kn and cfg.reachable(mn, kn)
            res.inst(pf.fq, f"`{short(k['node'], 50)}` is never executed after the merge", "fail" if bad else "ok")
            if bad:
                res.fail(Finding("R-SUPERSEDE", k["func"].module.rel, k["func"].qualname, norm(k["node"]), "attributes are cleared after the property entries were merged: the entries themselves are lost", line=k["node"].lineno))
    # the scan ends at M  END or raises
    loops = [n for n in own_walk(sf.node) if isinstance(n, ast.For)]
    scan = None
    for lp in loops:
        if mentions_text(ctx, sf, lp, "M  END"):
            scan = lp
    if scan is None:
        res.inst(sf.fq, "scan loop with `M  END` test", "fail")
        res.fail(Finding("R-SUPERSEDE", sf.module.rel, sf.qualname, "property scan", "the property scan no longer stops at `M  END`", line=sf.node.lineno))
    else:
        cfgs = cfg_of(sf.node)
        ln = cfgs.node_of(scan)
        done_targets = [t for _, t, d in cfgs.g.out_edges(ln, data=True) if d.get("label") in ("done", "both")]
        ok = bool(done_targets) and all(not cfgs.reachable(t, cfgs.EXIT) and t != cfgs.EXIT for t in done_targets)
        if not ok and done_targets:
            # does it raise unless a mode switch says otherwise (an opt-in lenient mode)?  Then the default behaviour is what the
            # switch's default gives, which is not followed here
            fnn = sf.node
            defaults = {a.arg for a, _d in zip(reversed(fnn.args.args), reversed(fnn.args.defaults))} | {a.arg for a, d_ in zip(fnn.args.kwonlyargs, fnn.args.kw_defaults) if d_ is not None}
            modevars = {nm for nm, v_ in sf.module.assigns.items() if try_const(ctx, sf, ast.Name(nm, ast.Load()), default=None) is None or
                        any(isinstance(g_, ast.Global) and nm in g_.names for g_ in ast.walk(sf.module.tree))}
            switches = []
            in_body = {id(y) for b_ in scan.body for y in ast.walk(b_)}
            for rs in [x for x in own_walk(fnn) if isinstance(x, ast.Raise) and id(x) not in in_body]:
                rn_ = cfgs.node_of(rs)
                if rn_ is None or not any(cfgs.reachable(t, rn_) or t == rn_ for t in done_targets):
                    continue
                from .parserwiring import _guard_tests
                tests = [t_ for t_ in _guard_tests(fnn, rs) if not isinstance(t_, tuple) and id(t_) not in in_body and t_ is not getattr(scan, "test", None)]
                names = set().union(*[names_in(t_) for t_ in tests]) if tests else set()
                if tests and names and names <= (defaults | modevars):
                    switches.append(tests[0])
            if switches and not (names_in(switches[0]) & defaults):
                # a module-level switch: its setting at import time is the default behaviour
                from ..concrete import ceval as _ceval_const
                env_ = {}
                for nm in names_in(switches[0]):
                    v_ = sf.module.assigns.get(nm)
                    if isinstance(v_, ast.Call) and norm(v_.func).endswith("ContextVar"):
                        d_ = kwarg(v_, "default")
                        if d_ is not None and isinstance(d_, ast.Constant):
                            env_[nm] = d_.value
                    elif isinstance(v_, ast.Constant):
                        env_[nm] = v_.value
                if set(env_) == names_in(switches[0]):
                    class _GetDefault(ast.NodeTransformer):
                        def visit_Call(self, n_):
                            if isinstance(n_.func, ast.Attribute) and n_.func.attr == "get" and isinstance(n_.func.value, ast.Name) and n_.func.value.id in env_ and not n_.args:
                                return ast.copy_location(ast.Name(n_.func.value.id, ast.Load()), n_)
                            return self.generic_visit(n_)
                    import copy
                    t2 = ast.fix_missing_locations(_GetDefault().visit(copy.deepcopy(switches[0])))
                    try:
                        at_default = bool(_ceval_const(t2, env_, {}))
                    except (NameError, UnboundLocalError):
                        raise
                    except Exception:
                        at_default = None
                    if at_default is True:
                        ok = True
                        res.notes.append(f"{sf.qualname}: `{short(switches[0], 50)}` holds at the switch's import-time setting: a file without `M  END` is rejected unless a caller changes it")
                    elif at_default is False:
                        switches = []
            if switches and not ok:
                raise AnalysisError(f"R-SUPERSEDE: whether a file without `M  END` is rejected depends on `{short(switches[0], 50)}` in {sf.qualname}, a switch whose setting is not followed")
        res.inst(sf.fq, "running off the end of the file without `M  END` raises", "ok" if ok else "fail")
        if not ok:
            res.fail(Finding("R-SUPERSEDE", sf.module.rel, sf.qualname, short(scan, 60), "a file without `M  END` is accepted silently", line=scan.lineno))
    return res


# --------------------------------------------------------------------------- R-ORDERING


def _str_tests(ctx, f, attr) -> set:
    out = set()
    for x in own_walk(f.node):
        if isinstance(x, ast.Call) and isinstance(x.func, ast.Attribute) and x.func.attr == attr and x.args:
            v = try_const(ctx, f, x.args[0])
            if isinstance(v, str):
                out.add(v)
            elif isinstance(v, tuple) and all(isinstance(t, str) for t in v):
                out |= set(v)
    return out


def _drop(ctx, f, e, side):
    """number of characters expression e drops from its operand at `side` ('end' / 'start'), or None"""
    if isinstance(e, ast.Subscript) and isinstance(e.slice, ast.Slice) and e.slice.step is None:
        lo = try_const(ctx, f, e.slice.lower) if e.slice.lower is not None else 0
        hi = try_const(ctx, f, e.slice.upper) if e.slice.upper is not None else None
        if side == "end" and lo == 0 and isinstance(hi, int) and hi < 0:
            return -hi
        if side == "start" and e.slice.upper is None and isinstance(lo, int) and lo >= 0:
            return lo
    if side == "start" and isinstance(e, ast.Subscript) and isinstance(e.slice, ast.Slice) and e.slice.upper is None and e.slice.step is None \
            and isinstance(e.slice.lower, ast.Call) and isinstance(e.slice.lower.func, ast.Attribute) and e.slice.lower.func.attr == "end" and not e.slice.lower.args:
        # next[m.end():] with m = PATTERN.match(next): what the pattern matches at the start of the line is dropped
        pat = _match_pattern(ctx, f, e.slice.lower.func.value, e.value)
        if pat is not None:
            return _regex_prefix_length(pat)
    if isinstance(e, ast.Call) and isinstance(e.func, ast.Attribute) and e.args:
        v = try_const(ctx, f, e.args[0])
        if isinstance(v, str) and ((side == "end" and e.func.attr == "removesuffix") or (side == "start" and e.func.attr == "removeprefix")):
            return len(v)
        if isinstance(v, str) and ((side == "end" and e.func.attr in ("rstrip", "strip")) or (side == "start" and e.func.attr in ("lstrip", "strip"))):
            return f"every trailing/leading character in {v!r}"      # a run of any length, not a fixed count
    return None


def regex_of(ctx, f, e) -> Optional[str]:
    """the constant pattern text of a compiled-pattern expression (a name bound to re.compile(P), locally or at module level)
    or of a pattern argument"""
    v = try_const(ctx, f, e)
    if isinstance(v, str):
        return v
    if isinstance(e, ast.Call) and norm(e.func) in ("re.compile", "compile") and e.args:
        v = try_const(ctx, f, e.args[0])
        return v if isinstance(v, str) else None
    if isinstance(e, ast.Name):
        d = single_def(f.node, e.id)
        if d is not None:
            return regex_of(ctx, f, d)
        r = ctx.repo.resolve(f.module, e.id)
        if r and r[0] == "const":
            val = r[1].assigns.get(r[2])
            if isinstance(val, ast.Call) and norm(val.func) in ("re.compile", "compile") and val.args:
                try:
                    from ..model import ConstEval
                    v = ConstEval(ctx.repo, r[1]).eval(val.args[0], {})
                except (NameError, UnboundLocalError):
                    raise
                except Exception:
                    v = None
                return v if isinstance(v, str) else None
    return None


def _match_pattern(ctx, f, m_expr, subject) -> Optional[str]:
    """pattern text if m_expr is (a name bound to) `P.match(subject)` / `re.match(P, subject)`"""
    call = m_expr
    if isinstance(m_expr, ast.Name):
        defs = [d for d in assigned_names(f.node).get(m_expr.id, []) if isinstance(d, (ast.Assign, ast.NamedExpr, ast.AnnAssign))]
        if len(defs) != 1:
            return None
        call = defs[0].value
    if not (isinstance(call, ast.Call) and isinstance(call.func, ast.Attribute) and call.func.attr == "match"):
        return None
    if norm(call.func.value) == "re" and len(call.args) >= 2:
        pat, subj = regex_of(ctx, f, call.args[0]), call.args[1]
    elif call.args:
        pat, subj = regex_of(ctx, f, call.func.value), call.args[0]
    else:
        return None
    if pat is None or norm(subj) != norm(subject):
        return None
    return pat


def regex_group_columns(pat: str):
    """[(start, end)] of the capturing groups of the pattern's first alternative when every item in front of and inside them
    has a fixed width (so that the groups sit at fixed columns of the matched text); None otherwise"""
    import re._parser as sp
    from re._constants import BRANCH, SUBPATTERN, AT
    try:
        tree = sp.parse(pat)
    except (NameError, UnboundLocalError):
        raise
    except Exception:
        return None
    items = list(tree)
    if len(items) == 1 and items[0][0] is BRANCH:
        items = list(items[0][1][1][0])
    out = []
    off = 0

    def walk(seq, off):
        for op, av in seq:
            if op is AT:
                continue
            one = sp.SubPattern(tree.state, [(op, av)])
            lo, hi = one.getwidth()
            if lo != hi:
                return None
            if op is SUBPATTERN and av[0] is not None:
                inner = walk(list(av[3]), off)
                if inner is None:
                    return None
                out.append((off, off + lo))
            off += lo
        return off
    if walk(items, 0) is None:
        return None
    return sorted(out)


def _regex_prefix_length(pat: str):
    """number of characters a match of `pat` covers if that is the same for every match; a description (str) if the pattern
    ends in an open-ended run; None if neither"""
    import re._parser as sp
    from re._constants import LITERAL, MAX_REPEAT, MIN_REPEAT, IN, CATEGORY, AT, MAXREPEAT
    try:
        items = list(sp.parse(pat))
    except (NameError, UnboundLocalError):
        raise
    except Exception:
        return None
    n = 0
    for i, (op, av) in enumerate(items):
        if op is AT:
            continue
        if op is LITERAL:
            n += 1
            continue
        if op is IN and len(av) == 1 and av[0][0] is LITERAL:
            n += 1
            continue
        if op in (MAX_REPEAT, MIN_REPEAT):
            lo, hi, sub = av
            if lo == hi and len(sub) == 1 and sub[0][0] is LITERAL:
                n += lo
                continue
            if i == len(items) - 1 and hi == MAXREPEAT:
                return f"the first {n} characters and every character after them that matches `{pat[pat.rfind(chr(92)) if chr(92) in pat[-4:] else -2:]}` (a run of any length)"
        return None
    return n


def splice_model(ctx):
    """The V3000 reader's continuation-line splicer, recognised by what it does: a function that concatenates a line
    minus its tail with a line minus its head, and that (itself or through a helper) tests `endswith`.
    Returns None when the reader has no continuation test at all; raises when there is one but the joining
    expression is not of a recognised form."""
    if "splice_model" in ctx.cache:
        return ctx.cache["splice_model"]
    v3 = reader_entries(ctx)["V3000"]
    clo = [ctx.cg.funcs[q] for q in ctx.cg.closure([v3.fq])]
    found = None
    testers = [f for f in clo if _str_tests(ctx, f, "endswith")]
    for f in clo:
        reach = {f.fq} | set(ctx.cg.closure([f.fq]))
        conts, prefixes = set(), set()
        for q in reach:
            conts |= _str_tests(ctx, ctx.cg.funcs[q], "endswith")
            prefixes |= _str_tests(ctx, ctx.cg.funcs[q], "startswith")
        if not conts:
            continue
        for x in own_walk(f.node):
            if isinstance(x, ast.BinOp) and isinstance(x.op, ast.Add):
                a, b = _drop(ctx, f, x.left, "end"), _drop(ctx, f, x.right, "start")
                if a is not None and b is not None:
                    cand = {"func": f, "concat": x, "drop_end": a, "drop_start": b, "conts": conts, "prefixes": prefixes}
                    # the innermost function wins (a caller of the splicer also `reaches' the tests)
                    if found is None or f.fq in ctx.cg.closure([found["func"].fq]):
                        found = cand
    if found is None and testers:
        raise AnalysisError(f"continuation test found in {testers[0].fq} but the expression joining two lines is not of a recognised form (a[:−k] + b[p:])")
    if found is None:
        other = [f for f in clo for x in own_walk(f.node)
                 if (isinstance(x, ast.Compare) and isinstance(x.left, ast.Subscript) and try_const(ctx, f, x.left.slice) == -1)
                 or (isinstance(x, ast.Call) and norm(x.func).startswith("re."))]
        if other:
            raise AnalysisError(f"{other[0].fq} seems to test line endings in a form this analysis does not read")
    ctx.cache["splice_model"] = found
    return found


def _splice_samples(ctx, res: RuleResult):
    """follow the function that joins continuation lines on sample line lists and compare, token by token, with what the
    format says (drop the dash, drop the seven characters `M  V30 ` of the next line, keep everything else)"""
    from ..concrete import PathEval, PState, _Unknown
    from .spec import V3000_CONTINUATION, V3000_LINE_PREFIX
    v3 = reader_entries(ctx)["V3000"]
    def tests_dash(f_):
        return any(isinstance(n, ast.Call) and isinstance(n.func, ast.Attribute) and n.func.attr == "endswith" and n.args
                   and try_const(ctx, f_, n.args[0]) == V3000_CONTINUATION for n in own_walk(f_.node))
    cands = []
    for q in ctx.cg.closure([v3.fq]):
        f = ctx.cg.funcs[q]
        # works through a list of lines (one parameter, a loop) and tests for the trailing dash itself or in a helper
        if f.cls is None and len(params_of(f.node)) == 1 and any(isinstance(n, (ast.For, ast.While)) for n in own_walk(f.node)) \
                and (tests_dash(f) or any(tests_dash(ctx.cg.funcs[q2]) for q2 in ctx.cg.closure([f.fq]) if q2 in ctx.cg.funcs)):
            cands.append(f)
    # the innermost such function: the one that calls no other candidate
    cands = [f for f in cands if not any(g.fq in ctx.cg.closure([f.fq]) for g in cands if g is not f)]
    if len(cands) != 1:
        res.notes.append(f"sample line lists not followed: {len(cands)} functions of one argument test for a trailing `-`")
        return
    f = cands[0]

    def ref(lines):
        out, i = [], 0
        while i < len(lines):
            cur = lines[i]
            i += 1
            while i < len(lines) and cur.startswith(V3000_LINE_PREFIX) and cur.endswith(V3000_CONTINUATION):
                cur = cur[:-1] + lines[i][len(V3000_LINE_PREFIX):]
                i += 1
            out.append(cur)
        return out
    head = ["title", "  prog", "comment", "  0  0  0     0  0            999 V3000", "M  V30 BEGIN CTAB"]
    samples = [
        ("the blank that separates two fields is the first character after the prefix", ["M  V30 1 C 0 0 0 0-", "M  V30  CHG=1 MASS=13"]),
        ("the line is cut inside a field", ["M  V30 1 C 0 0 0 0 CH-", "M  V30 G=1 MASS=13"]),
        ("the blank that separates two fields is the last character before the dash", ["M  V30 1 C 0 0 0 0 -", "M  V30 CHG=1"]),
        ("an entry over three lines", ["M  V30 1 C 0 0-", "M  V30  0 0 CHG-", "M  V30 =1 RAD=2"]),
        ("no continuation", ["M  V30 1 C 0 0 0 0 CHG=1", "M  V30 2 O 1 0 0 0"]),
        ("a title line that ends in a dash", None),
    ]
    calls = {}
    for g in [ctx.cg.funcs[q] for q in ctx.cg.closure([f.fq])]:
        if g.cls is None and "." not in g.qualname:
            calls[g.name] = (g.node, {nm: v for nm in {x.id for x in ast.walk(g.node) if isinstance(x, ast.Name)} if (v := try_const(ctx, g, ast.Name(nm, ast.Load()), default=None)) is not None})
    n = 0
    for what, body in samples:
        lines = (["ends in a dash-"] + head[1:] + ["M  V30 1 C 0 0 0 0", "M  END"]) if body is None else head + body + ["M  V30 END CTAB", "M  END"]
        want = ref(lines)
        pe = PathEval(calls)
        from .common import record_classes
        pe.record_classes = record_classes(ctx, f.module)
        env = {nm: v for nm in {x.id for x in ast.walk(f.node) if isinstance(x, ast.Name)} if nm not in params_of(f.node) and (v := try_const(ctx, f, ast.Name(nm, ast.Load()), default=None)) is not None}
        env[params_of(f.node)[0]] = list(lines)
        try:
            falls, lefts = pe.block(f.node.body, [PState(env)])
        except (NameError, UnboundLocalError):
            raise
        except Exception:
            continue
        rets = [v_ for _s, how, v_ in lefts if how == "return"]
        raised = [1 for _s, how, _v in lefts if how == "raise"]
        if pe.gaps or falls or not (rets or raised):
            continue
        if raised and not rets:
            n += 1
            res.inst(f.fq, f"sample lines ({what})", "fail")
            res.fail(Finding("R-SPLICE", f.module.rel, f.qualname, f"{what}: rejected", f"following {f.name} on well-formed lines ({what}: {body}) ends in a raise on every way through", line=f.node.lineno))
            return
        if any(isinstance(v_, _Unknown) or not isinstance(v_, list) or any(not isinstance(x_, str) for x_ in v_) for v_ in rets):
            continue
        n += 1

        def toks(ls):
            return [l.split() if l.startswith(V3000_LINE_PREFIX.rstrip()) else [l] for l in ls]
        wrong = [v_ for v_ in rets if toks(v_) != toks(want)]
        bad = bool(wrong) and len(wrong) == len(rets)
        res.inst(f.fq, f"sample lines ({what})", "fail" if bad else "ok")
        if bad:
            got_l = next((g_ for g_, w_ in zip(wrong[0], want) if g_.split() != w_.split()), wrong[0][-1] if wrong[0] else "")
            want_l = next((w_ for g_, w_ in zip(wrong[0], want) if g_.split() != w_.split()), want[-1])
            res.fail(Finding("R-SPLICE", f.module.rel, f.qualname, f"{what}",
                             f"{what}: following {f.name} on {body if body is not None else lines[:2]} gives the line `{got_l}`, the format says `{want_l}` "
                             "(the dash and the seven characters `M  V30 ` go, everything else stays): two fields fuse or one is split", line=f.node.lineno))
            return
    res.counts = dict(res.counts or {}, sample_line_lists_followed=n)


@rule("R-SPLICE")
def r_splice(ctx) -> RuleResult:
    res = RuleResult("R-SPLICE", "V3000 continuation lines: the splice drops exactly the continuation character of the current line and exactly the fixed line prefix of the next one, nothing of the payload")
    _splice_samples(ctx, res)
    if res.findings:
        return res          # shown on a sample; the structural clauses below could only add 'cannot tell'
    sm = splice_model(ctx)
    if sm is None:
        raise AnalysisError("R-SPLICE: the V3000 reader has no continuation-line splicer (see R-ORDERING)")
    sp = sm["func"]
    conts, prefixes = sorted(sm["conts"]), sorted(sm["prefixes"])
    from .spec import V3000_LINE_PREFIX
    # the tests for the prefix may leave out its trailing blank (every line of the table has it); what is cut off is the prefix
    if prefixes and all(V3000_LINE_PREFIX.startswith(p_) and p_.rstrip() == V3000_LINE_PREFIX.rstrip() for p_ in prefixes):
        prefixes = [V3000_LINE_PREFIX]
    if len(conts) != 1 or len(prefixes) != 1:
        raise AnalysisError(f"R-SPLICE: continuation character {conts} / line prefix {prefixes} of the splicer are not unique")
    clen, plen = len(conts[0]), len(prefixes[0])
    ok = sm["drop_end"] == clen
    res.inst(sp.fq, f"current line loses its last {clen} character(s) ({conts[0]!r})", "ok" if ok else "fail", detail=f"drops {sm['drop_end']}")
    if not ok:
        res.fail(Finding("R-SPLICE", sp.module.rel, sp.qualname, norm(sm["concat"]), f"the splice drops {sm['drop_end']} at the end of the continued line, the continuation mark is {conts[0]!r}", line=sm["concat"].lineno))
    ok = sm["drop_start"] == plen
    res.inst(sp.fq, f"next line loses its first {plen} characters ({prefixes[0]!r})", "ok" if ok else "fail", detail=f"drops {sm['drop_start']}")
    if not ok:
        res.fail(Finding("R-SPLICE", sp.module.rel, sp.qualname, norm(sm["concat"]),
                         f"the splice drops {sm['drop_start']} at the start of the continuation line instead of the {plen}-character prefix {prefixes[0]!r}: a blank that separates two tokens across the break is lost (or payload characters are), and the two tokens fuse", line=sm["concat"].lineno))
    return res


@rule("R-ORDERING")
def r_ordering(ctx) -> RuleResult:
    res = RuleResult("R-ORDERING", "V3000: continuation splicing precedes tokenising and every raw line goes through it; bond indices are validated before return; TUCAN parser: every index is validated before it is used")
    v3 = reader_entries(ctx)["V3000"]
    fn = v3.node
    cfg = cfg_of(fn)
    lines_p = params_of(fn)[0]
    clo = [ctx.cg.funcs[q] for q in ctx.cg.closure([v3.fq])]
    # (a) splice before split: every raw use of the raw line list leads to the splicer
    sm = splice_model(ctx)
    if sm is None:
        res.inst(v3.fq, "continuation-line splicing exists", "fail")
        res.fail(Finding("R-ORDERING", v3.module.rel, v3.qualname, "continuation lines", "no function joins lines that end in '-' (continuation lines are not spliced)", line=fn.lineno))
    else:
        sp = sm["func"]
        res.inst(sp.fq, "continuation-line splicing exists", "ok", detail=f"splice `{short(sm['concat'], 60)}`")
        seen_chain: set = set()
        reached = [False]

        def raw_uses(f, p):
            """uses of parameter p of f that can still see the caller's (raw) object"""
            c2 = cfg_of(f.node)
            rebinds = {c2.stmt_node_containing(d) for d in assigned_names(f.node).get(p, [])} - {None}
            out = []
            for x in own_walk(f.node):
                if isinstance(x, ast.Name) and x.id == p and isinstance(x.ctx, ast.Load):
                    n_ = c2.stmt_node_containing(x)
                    if n_ is None or c2.reachable(c2.ENTRY, n_, avoid=rebinds - {n_}):
                        out.append(x)
            return out

        def follow(f, p):
            if (f.fq, p) in seen_chain:
                return
            seen_chain.add((f.fq, p))
            if f.fq == sp.fq:
                reached[0] = True
                return
            parents = parent_map(f.node)
            for u in raw_uses(f, p):
                par = parents.get(u)
                ok = False
                why = "raw (unspliced) lines are read besides the splicer"
                if isinstance(par, ast.Call) and u in par.args:
                    cs = ctx.cg.resolve_call(f, par, ctx.cg.local_types(f), set(params_of(f.node)))
                    if cs.kind == "tucan":
                        k = par.args.index(u)
                        ps = params_of(cs.target.node)
                        if k < len(ps):
                            follow(cs.target, ps[k])
                            ok = True
                    elif isinstance(par.func, ast.Name) and par.func.id == "len":
                        ok = True
                elif isinstance(par, ast.keyword):
                    ok = False
                elif isinstance(par, (ast.If, ast.While)) and par.test is u or (isinstance(par, ast.UnaryOp) and isinstance(par.op, ast.Not)):
                    ok = True
                res.inst(f.fq, f"raw line list use `{short(par if par is not None else u, 60)}` goes to the splicer only", "ok" if ok else "fail")
                if not ok:
                    res.fail(Finding("R-ORDERING", f.module.rel, f.qualname, norm(par if par is not None else u), why, line=u.lineno))

        follow(v3, lines_p)
        if not reached[0] and not any(f.rule == "R-ORDERING" for f in res.findings):
            res.inst(v3.fq, "raw line list reaches the splicer", "fail")
            res.fail(Finding("R-ORDERING", v3.module.rel, v3.qualname, "raw lines never spliced", "the raw line list never reaches the continuation-line splicer: lines are split into tokens before continuation lines were joined", line=fn.lineno))
        # the splicer's result (not its argument) is what gets tokenised
        for f in clo:
            for cs in sites(ctx, f):
                if cs.kind == "tucan" and cs.target.fq == sp.fq:
                    par = parent_map(f.node).get(cs.node)
                    used = not isinstance(par, ast.Expr)
                    res.inst(f.fq, f"result of `{short(cs.node, 50)}` is used", "ok" if used else "fail")
                    if not used:
                        res.fail(Finding("R-ORDERING", f.module.rel, f.qualname, norm(cs.node), "the spliced lines are discarded: lines are split into tokens before continuation lines were joined", line=cs.node.lineno))
    # (b) bond validation post-dominates bond decoding.  A validation point is a statement that can raise because an
    #     endpoint taken from the bond table is missing from the atom table: a call whose callee (closure) has a membership
    #     test and a raise and is handed the bond table, or an `if …: raise` in the entry whose test (through the
    #     definitions of the names it uses) holds such a membership test on the bond table
    def has_membership(node) -> bool:
        for y in ast.walk(node):
            if isinstance(y, ast.Compare) and any(isinstance(o, (ast.In, ast.NotIn)) for o in y.ops):
                return True
            if isinstance(y, ast.BinOp) and isinstance(y.op, ast.Sub) and any(isinstance(z, ast.Call) and isinstance(z.func, ast.Attribute) and z.func.attr == "keys" for z in ast.walk(y)):
                return True
            if isinstance(y, ast.Call) and isinstance(y.func, ast.Attribute) and y.func.attr in ("issubset", "issuperset", "isdisjoint", "difference"):
                return True
        return False
    bond_calls, val_nodes = [], []
    bond_var = None
    # the bond table: what the entry returns second (atoms, bonds), wherever it is decoded
    rets_ = [r for r in own_walk(fn) if isinstance(r, ast.Return) and isinstance(r.value, ast.Tuple) and len(r.value.elts) == 2 and isinstance(r.value.elts[1], ast.Name)]
    ret_bond = rets_[0].value.elts[1].id if rets_ and len({r.value.elts[1].id for r in rets_}) == 1 else None
    for st in own_walk(fn):
        if isinstance(st, ast.Assign) and isinstance(st.value, ast.Call):
            cs = ctx.cg.resolve_call(v3, st.value, ctx.cg.local_types(v3), set(params_of(fn)))
            if cs.kind == "tucan" and isinstance(st.targets[0], ast.Name) and \
                    (st.targets[0].id == ret_bond if ret_bond is not None else ("bond" in cs.target.name and "valid" not in cs.target.name)):
                bond_calls.append(st.value)
                bond_var = st.targets[0].id
    if not bond_calls:
        raise AnalysisError("R-ORDERING: V3000 entry no longer assigns the result of a bond-block decoder")
    for st in own_walk(fn):
        if isinstance(st, ast.Expr) and isinstance(st.value, ast.Call):
            cs = ctx.cg.resolve_call(v3, st.value, ctx.cg.local_types(v3), set(params_of(fn)))
            if cs.kind == "tucan" and bond_var in names_in(st.value):
                sub = [cs.target.fq] + list(ctx.cg.closure([cs.target.fq]))
                fns_ = [ctx.cg.funcs[q].node for q in dict.fromkeys(sub)]
                if any(has_membership(f_) for f_ in fns_) and any(isinstance(z, ast.Raise) for f_ in fns_ for z in ast.walk(f_)):
                    val_nodes.append(st)
        elif isinstance(st, ast.If) and any(isinstance(z, ast.Raise) for z in st.body):
            exprs = [st.test]
            for nm in names_in(st.test):
                d = single_def(fn, nm)
                if d is not None:
                    exprs.append(d)
            if any(has_membership(x) for x in exprs) and any(bond_var in names_in(x) for x in exprs):
                val_nodes.append(st)
    ok = False
    bn = cfg.stmt_node_containing(bond_calls[0])
    for vs in val_nodes:
        vn = cfg.node_of(vs) if cfg.node_of(vs) is not None else cfg.stmt_node_containing(vs)
        if vn is not None and bn is not None and cfg.postdominates(vn, bn) and cfg.dominates(bn, vn):
            ok = True
    res.inst(v3.fq, "bond indices validated against the atom table after decoding, before return", "ok" if ok else "fail",
             detail=f"{len(val_nodes)} validation point(s)")
    if not ok:
        res.fail(Finding("R-ORDERING", v3.module.rel, v3.qualname, short(bond_calls[0]), "V3000 bonds can reach the caller without their endpoints having been checked against the atom table (a dangling endpoint silently creates an atom)", line=bond_calls[0].lineno))
    # (c) TUCAN parser
    _check_parser_validation(ctx, res)
    return res


def listener_index_fields(ctx, lis) -> dict:
    """listener fields that hold indices parsed from the string, by how they are filled:
    self.F.append((int(..) - 1, int(..) - 1)) -> 'pairs' (bond endpoints);  self.F.setdefault(int(..) - 1, ..) / self.F[k] = .. -> 'keys'"""
    fields: dict[str, str] = {}

    def parsed_number(e, f) -> bool:
        if any(isinstance(x, ast.Call) and isinstance(x.func, ast.Name) and x.func.id == "int" for x in ast.walk(e)):
            return True
        # a name bound from int(...) or a parameter fed with one
        for x in ast.walk(e):
            if isinstance(x, ast.Name):
                for d in assigned_names(f.node).get(x.id, []):
                    v = getattr(d, "value", None)
                    if v is not None and any(isinstance(y, ast.Call) and isinstance(y.func, ast.Name) and y.func.id == "int" for y in ast.walk(v)):
                        return True
                if x.id in params_of(f.node)[1:]:
                    for cs in ctx.cg.callers_of(f.fq):
                        k = params_of(f.node).index(x.id) - 1
                        if k < len(cs.node.args) and any(isinstance(y, ast.Call) and isinstance(y.func, ast.Name) and y.func.id == "int" for y in ast.walk(cs.node.args[k])):
                            return True
                        if k < len(cs.node.args) and isinstance(cs.node.args[k], ast.Name):
                            for d in assigned_names(cs.caller.node).get(cs.node.args[k].id, []):
                                v = getattr(d, "value", None)
                                if v is not None and any(isinstance(y, ast.Call) and isinstance(y.func, ast.Name) and y.func.id == "int" for y in ast.walk(v)):
                                    return True
        return False
    for m in lis.methods.values():
        for n in own_walk(m.node):
            if isinstance(n, ast.Call) and isinstance(n.func, ast.Attribute) and n.func.attr in ("append", "add", "setdefault", "extend") \
                    and isinstance(n.func.value, ast.Attribute) and isinstance(n.func.value.value, ast.Name) and n.func.value.value.id == "self" and n.args:
                a0 = n.args[0]
                if isinstance(a0, ast.Tuple) and len(a0.elts) == 2 and all(parsed_number(x, m) for x in a0.elts):
                    fields[n.func.value.attr] = "pairs"
                elif n.func.attr == "setdefault" and parsed_number(a0, m):
                    fields[n.func.value.attr] = "keys"
            if isinstance(n, ast.Assign) and isinstance(n.targets[0], ast.Subscript) and isinstance(n.targets[0].value, ast.Attribute) \
                    and isinstance(n.targets[0].value.value, ast.Name) and n.targets[0].value.value.id == "self" and parsed_number(n.targets[0].slice, m):
                fields.setdefault(n.targets[0].value.attr, "keys")
    if "pairs" not in fields.values() or "keys" not in fields.values():
        # by what they hold (origin typing): a sequence of pairs of indices / a map keyed by an index
        from ..origin import Map, OriginTyper, S, Seq, Tup, tags
        ot = OriginTyper(ctx.repo, lis, [])
        for F, t in ot.fields.items():
            if isinstance(t, Seq) and isinstance(t.elem, Tup) and len(t.elem.items) == 2 and all(tags(x) - {"const"} == {"idx"} for x in t.elem.items):
                fields.setdefault(F, "pairs")
            elif isinstance(t, Map) and tags(t.k) - {"const"} == {"idx"}:
                fields.setdefault(F, "keys")
    if "pairs" not in fields.values() or "keys" not in fields.values():
        raise AnalysisError(f"cannot find the listener fields that hold parsed bond endpoints and attribute indices (found {fields})")
    return fields


def _read_time_validation(ctx, lis, res: RuleResult):
    """Second accepted scheme of index validation in the TUCAN parser: every index is checked where it is read.
    -> True (holds; obligations recorded), False (a finding was recorded), None (the scheme is not used)"""
    from ..concrete import run_outcome
    from ..origin import OriginTyper, tags
    ot = OriginTyper(ctx.repo, lis, [])
    # where index text is converted
    conv = []          # (method, int(..) call)
    for m in lis.methods.values():
        for n in own_walk(m.node):
            if isinstance(n, ast.Call) and isinstance(n.func, ast.Name) and n.func.id == "int" and n.args and "idx" in tags(ot.ty(m, n.args[0])):
                conv.append((m, n))
    if not conv:
        return None
    readers = {}
    for m, call in conv:
        raises = [r for r in own_walk(m.node) if isinstance(r, ast.Raise)]
        if not raises:
            return None          # some index is converted where nothing is checked: not this scheme
        readers[m.fq] = m
    guard_fields = set()
    for m in readers.values():
        # does it raise exactly when the index (as written, 1-based) exceeds the number of atoms?  The number of atoms is
        # whatever count-valued expression the test reads (len(..) or a field holding one): stub it with 3
        call = next(c for mm, c in conv if mm is m)
        cnt = {}
        for x in own_walk(m.node):
            if isinstance(x, ast.Call) and isinstance(x.func, ast.Name) and x.func.id == "len":
                cnt[norm(x)] = 3
            if isinstance(x, ast.Attribute) and isinstance(x.value, ast.Name) and x.value.id == "self" and "cnt" in tags(ot.fields.get(x.attr, ot.ty(m, x))):
                cnt[norm(x)] = 3
                for t_ in own_walk(m.node):
                    if isinstance(t_, ast.Compare) and norm(t_.left) == norm(x) and any(isinstance(o, (ast.Is, ast.IsNot)) for o in t_.ops):
                        guard_fields.add(x.attr)
        if not cnt:
            return None
        try:
            vals = {r: run_outcome(m.node.body, {}, {**cnt, norm(call): r}) == "raise" for r in (1, 3, 4, 5)}
        except (NameError, UnboundLocalError):
            raise
        except Exception as ex:
            raise AnalysisError(f"R-ORDERING: cannot evaluate the index check of {m.qualname} ({ex})")
        good = (not vals[1]) and (not vals[3]) and vals[4] and vals[5]
        res.inst(m.fq, "an index is rejected where it is read, exactly when it exceeds the number of atoms", "ok" if good else "fail")
        if not good:
            res.fail(Finding("R-ORDERING", m.module.rel, m.qualname, "index check at read time", "the check made where an index is read does not reject exactly the indices beyond the number of atoms", line=m.node.lineno))
            return False
    # a check that only runs once a field is set: the field must be set on every way through the formula handlers
    for F in sorted(guard_fields):
        setters = [m for m in lis.methods.values() if m.name != "__init__" and any(isinstance(x, ast.Attribute) and isinstance(x.ctx, ast.Store) and isinstance(x.value, ast.Name)
                                                                                   and x.value.id == "self" and x.attr == F for x in own_walk(m.node))]
        if not setters:
            res.inst(lis.fq, f"`self.{F}` is set before indices are read", "fail")
            res.fail(Finding("R-ORDERING", lis.module.rel, lis.name, f"self.{F}", f"indices are checked only once `self.{F}` is set, and nothing sets it", line=lis.node.lineno))
            return False
        for m in setters:
            cfg = cfg_of(m.node)
            assigns = [cfg.stmt_node_containing(x) for x in own_walk(m.node) if isinstance(x, ast.Attribute) and isinstance(x.ctx, ast.Store) and isinstance(x.value, ast.Name)
                       and x.value.id == "self" and x.attr == F]
            assigns = [a for a in assigns if a is not None]
            path = cfg.path_avoiding(cfg.ENTRY, cfg.EXIT, assigns)
            ok = path is None
            res.inst(m.fq, f"every way through sets `self.{F}`", "ok" if ok else "fail")
            if not ok:
                res.fail(Finding("R-ORDERING", m.module.rel, m.qualname, f"self.{F}",
                                 f"indices are checked only once `self.{F}` is set, and this method can finish without setting it (" + " ; ".join(cfg.describe(x) for x in path[1:-1])[:160]
                                 + "): for such a string no index is checked at all, a dangling index is accepted or fails with an unrelated error", line=m.node.lineno))
                return False
        # the setters run for every sum formula: each formula handler calls one of them unconditionally
        handlers = [m for m in lis.methods.values() if m.name.startswith("enter") and any(k in m.name.lower() for k in ("carbon", "formula"))]
        for h in handlers:
            calls = [x for x in h.node.body if isinstance(x, ast.Expr) and isinstance(x.value, ast.Call) and isinstance(x.value.func, ast.Attribute)
                     and isinstance(x.value.func.value, ast.Name) and x.value.func.value.id == "self" and x.value.func.attr in {s_.name for s_ in setters}]
            direct = h in setters
            if not calls and not direct:
                raise AnalysisError(f"R-ORDERING: cannot see that {h.qualname} sets `self.{F}`")
    return True


def _check_parser_validation(ctx, res: RuleResult):
    """TUCAN parser: every index parsed from the string is checked against the atoms of the formula before it is used as a
    subscript and before the graph is built.  The listener's to_graph is flattened (calls of its own methods that are
    statements are replaced by the callee's statements) and read in execution order."""
    repo = ctx.repo
    par = repo.module("tucan.parser.parser")
    lis = None
    for ci in par.classes.values():
        if any(b.endswith("tucanListener") for b in repo.base_names(ci)):
            lis = ci
    if lis is None:
        raise AnalysisError("listener implementation vanished")
    tg = repo.mro_method(lis, "to_graph")
    if tg is None:
        raise AnalysisError("listener.to_graph vanished")
    fields = listener_index_fields(ctx, lis)
    # ---- validators: methods (self, index) that raise exactly when index >= number of atoms
    from ..concrete import run_outcome
    validators = {}
    for name, m in lis.methods.items():
        ps = params_of(m.node)
        if len(ps) != 2 or not any(isinstance(z, ast.Raise) for z in own_walk(m.node)):
            continue
        stubs = {norm(z): 3 for z in ast.walk(m.node) if isinstance(z, ast.Call) and isinstance(z.func, ast.Name) and z.func.id == "len"}
        if not stubs:
            continue
        try:
            vals = {i: run_outcome(m.node.body, {ps[1]: i}, stubs) == "raise" for i in (0, 2, 3, 4)}
        except (NameError, UnboundLocalError):
            raise
        except Exception:
            continue
        good = (not vals[0]) and (not vals[2]) and vals[3] and vals[4]
        validators[name] = (m, good)
    if not validators:
        alt = _read_time_validation(ctx, lis, res)
        if alt is not None:
            return
        res.inst(tg.fq, "an index validator exists", "fail")
        res.fail(Finding("R-ORDERING", tg.module.rel, tg.qualname, "index validation", "the parser has no check that an index refers to an existing atom", line=tg.node.lineno))
        return
    for name, (m, good) in validators.items():
        res.inst(m.fq, "raises exactly when index >= number of atoms", "ok" if good else "fail")
        if not good:
            res.fail(Finding("R-ORDERING", m.module.rel, m.qualname, f"validator {name}", "index validator does not reject exactly the indices >= number of atoms", line=m.node.lineno))

    def validated_arg(call) -> Optional[ast.expr]:
        if isinstance(call, ast.Call) and isinstance(call.func, ast.Attribute) and call.func.attr in validators and call.args:
            return call.args[0]
        return None
    # ---- flatten to_graph
    flat = []       # (stmt, owner FuncInfo, conditional?)

    def flatten(f, stmts, cond, depth):
        for st in stmts:
            call = None
            if isinstance(st, ast.Expr) and isinstance(st.value, ast.Call):
                call = st.value
            elif isinstance(st, (ast.Assign, ast.AnnAssign, ast.Return)) and isinstance(getattr(st, "value", None), ast.Call):
                call = st.value
            inlined = False
            if call is not None and isinstance(call.func, ast.Attribute) and isinstance(call.func.value, ast.Name) and call.func.value.id == "self" \
                    and call.func.attr not in validators and depth < 3:
                tgt = repo.mro_method(lis, call.func.attr)
                if tgt is not None:
                    flatten(tgt, tgt.node.body, cond, depth + 1)
                    inlined = True
            if isinstance(st, (ast.If, ast.Try, ast.With, ast.While)) and not inlined:
                flat.append((st, f, cond))
                continue
            if not (inlined and isinstance(st, ast.Expr)):
                flat.append((st, f, cond))
    flatten(tg, tg.node.body, False, 0)

    def field_of(e) -> Optional[str]:
        for x in ast.walk(e):
            if isinstance(x, ast.Attribute) and isinstance(x.value, ast.Name) and x.value.id == "self" and x.attr in fields:
                return x.attr
        return None
    validated: dict[str, int] = {}          # field -> position in flat where all its indices are known to be checked
    problems = []
    sub_problems = []
    build_pos = None
    n_sub = 0
    for pos, (st, f, cond) in enumerate(flat):
        if any(isinstance(x, ast.Call) and ctx.cg.resolve_call(f, x, ctx.cg.local_types(f), set(params_of(f.node))).kind == "tucan"
               and ctx.cg.resolve_call(f, x, ctx.cg.local_types(f), set(params_of(f.node))).target.name == "graph_from_molecule" for x in ast.walk(st)):
            if build_pos is None:
                build_pos = pos
        if not isinstance(st, ast.For):
            continue
        F = field_of(st.iter)
        if F is None:
            continue
        kind = fields[F]
        flattened_iter = any(isinstance(x, ast.Call) and norm(x.func).split(".")[-1] in ("from_iterable", "chain") for x in ast.walk(st.iter))
        tvars = [x.id for x in ast.walk(st.target) if isinstance(x, ast.Name)]
        top_calls = [s_.value for s_ in st.body if isinstance(s_, ast.Expr) and isinstance(s_.value, ast.Call)]
        vargs = [validated_arg(c) for c in top_calls]
        vargs = [a for a in vargs if a is not None]
        nested = [s_ for s_ in st.body if isinstance(s_, ast.For)]
        complete = None
        if kind == "pairs":
            if flattened_iter and isinstance(st.target, ast.Name):
                complete = any(isinstance(a, ast.Name) and a.id == st.target.id for a in vargs)
            elif isinstance(st.target, (ast.Tuple, ast.List)) and len(tvars) == 2:
                complete = {a.id for a in vargs if isinstance(a, ast.Name)} >= set(tvars)
            elif isinstance(st.target, ast.Name):
                subs = {try_const(ctx, f, a.slice) for a in vargs if isinstance(a, ast.Subscript) and isinstance(a.value, ast.Name) and a.value.id == st.target.id}
                # `a, b = bond` in the body: the two ends under names of their own
                ends_ = next(([x.id for x in s_.targets[0].elts] for s_ in st.body if isinstance(s_, ast.Assign) and len(s_.targets) == 1 and isinstance(s_.targets[0], (ast.Tuple, ast.List))
                              and len(s_.targets[0].elts) == 2 and all(isinstance(x, ast.Name) for x in s_.targets[0].elts)
                              and isinstance(s_.value, ast.Name) and s_.value.id == st.target.id), None)
                if subs >= {0, 1}:
                    complete = True
                elif ends_ is not None and {a.id for a in vargs if isinstance(a, ast.Name)} >= set(ends_):
                    complete = True
                elif any(isinstance(n_.iter, ast.Name) and n_.iter.id == st.target.id and isinstance(n_.target, ast.Name) and
                         any(isinstance(a2, ast.Name) and a2.id == n_.target.id for a2 in [validated_arg(s2.value) for s2 in n_.body if isinstance(s2, ast.Expr)] if a2 is not None)
                         for n_ in nested):
                    complete = True
                elif vargs or nested:
                    complete = False
        else:
            idx = tvars[0] if tvars else None
            if idx is not None:
                complete = any(isinstance(a, ast.Name) and a.id == idx for a in vargs)
                # subscripts by the index inside the loop must come after its validation
                first_val = next((i_ for i_, s_ in enumerate(st.body) if isinstance(s_, ast.Expr) and isinstance(validated_arg(s_.value), ast.Name)
                                  and validated_arg(s_.value).id == idx), None)
                for i_, s_ in enumerate(st.body):
                    for x in ast.walk(s_):
                        if isinstance(x, ast.Subscript) and isinstance(x.slice, ast.Name) and x.slice.id == idx:
                            n_sub += 1
                            ok = (first_val is not None and first_val < i_) or F in validated
                            res.inst(f.fq, f"`{short(x)}` comes after the validation of {idx}", "ok" if ok else "fail")
                            if not ok:
                                problems.append((f, x, "attribute index is used as a subscript without a preceding existence check: IndexError / KeyError instead of the parser's exception"))
                                sub_problems.append((pos, F, problems[-1], res.instances[-1] if res.instances else None))
        has_validator_call = any(validated_arg(x) is not None for x in ast.walk(st) if isinstance(x, ast.Call))
        if complete is True:
            if cond:
                raise AnalysisError(f"R-ORDERING: the validation of {F} in {f.qualname} runs under a condition this rule does not evaluate")
            validated.setdefault(F, pos)
        elif complete is False and has_validator_call:
            res.inst(f.fq, f"loop over {F} validates every index it holds", "fail")
            problems.append((f, st, f"the loop over {F} does not validate every index it holds"))
        elif has_validator_call:
            raise AnalysisError(f"R-ORDERING: loop over {F} in {f.qualname} calls a validator in a form this rule does not read")
    if build_pos is None:
        raise AnalysisError("to_graph no longer calls graph_from_molecule")
    # a third scheme: one validator call on the largest index of all (all indices exist iff the largest does)
    if not validated:
        for pos, (st, f, cond) in enumerate(flat):
            if not (isinstance(st, ast.Expr) and validated_arg(st.value) is not None) or pos >= build_pos or cond:
                continue
            arg = validated_arg(st.value)
            covered = set()

            def cover(fn_, e, depth=0):
                """fields whose every index is <= the value of e; raises for a maximum that is taken the wrong way"""
                if depth > 4:
                    return
                if isinstance(e, ast.Call) and isinstance(e.func, ast.Attribute) and isinstance(e.func.value, ast.Name) and e.func.value.id == "self" and not e.args:
                    tgt_ = repo.mro_method(lis, e.func.attr)
                    if tgt_ is not None:
                        env_ = {}
                        for s_ in tgt_.node.body:
                            if isinstance(s_, ast.Assign) and isinstance(s_.targets[0], ast.Name):
                                env_[s_.targets[0].id] = s_.value
                        for r_ in [x for x in own_walk(tgt_.node) if isinstance(x, ast.Return) and x.value is not None]:
                            cover(tgt_, _subst(r_.value, env_), depth + 1)
                    return
                if isinstance(e, ast.Call) and isinstance(e.func, ast.Name) and e.func.id == "max":
                    key_ = kwarg(e, "key")
                    parts = []
                    for a_ in e.args:
                        if isinstance(a_, (ast.Tuple, ast.List)):
                            parts += list(a_.elts)
                        else:
                            parts.append(a_)
                    for a_ in parts:
                        inner = a_.value if isinstance(a_, ast.Starred) else a_
                        F_ = field_of(inner) if isinstance(inner, ast.Attribute) else None
                        if isinstance(inner, ast.Attribute) and F_ is not None:
                            if fields[F_] == "pairs" and len(e.args) == 1 and not isinstance(a_, ast.Starred):
                                if key_ is None or norm(key_) != "max":
                                    raise _LexMax(e, F_)
                                covered.add(F_)          # the pair whose larger end is largest; the caller takes its maximum
                            elif fields[F_] == "keys":
                                covered.add(F_)
                        elif isinstance(inner, ast.Call):
                            cover(fn_, inner, depth + 1)
                        elif isinstance(inner, ast.GeneratorExp) and len(inner.generators) == 2:
                            F2 = field_of(inner.generators[0].iter)
                            if F2 is not None and fields[F2] == "pairs" and norm(inner.generators[1].iter) == norm(inner.generators[0].target) and norm(inner.elt) == norm(inner.generators[1].target):
                                covered.add(F2)
                    return

            class _LexMax(Exception):
                def __init__(self, node, field):
                    self.node, self.field = node, field

            def _subst(e, env_):
                class Sub(ast.NodeTransformer):
                    def visit_Name(self, node):
                        if isinstance(node.ctx, ast.Load) and node.id in env_:
                            return env_[node.id]
                        return node
                import copy
                return Sub().visit(copy.deepcopy(e))
            try:
                cover(f, arg)
            except _LexMax as lm:
                res.inst(f.fq, f"`{short(lm.node, 60)}` is the largest index of {lm.field}", "fail")
                res.fail(Finding("R-ORDERING", f.module.rel, f.qualname, norm(lm.node),
                                 f"max() over the pairs in {lm.field} compares the pairs as wholes (first end first): the largest index may be the second end of another pair, "
                                 "so a dangling index passes the check made on `the highest index`", line=getattr(lm.node, "lineno", None)))
                return
            if covered:
                if covered >= set(fields):
                    res.inst(f.fq, f"`{short(st, 70)}` checks the largest index of {sorted(covered)}: all indices exist iff the largest does", "ok")
                    for F_ in fields:
                        validated[F_] = pos
                    # subscripts that come after this check are covered by it
                    for spos, sF, prob, inst in sub_problems:
                        if spos > pos and prob in problems:
                            problems.remove(prob)
                            if inst is not None and isinstance(inst, dict) and inst.get("verdict") == "fail":
                                inst["verdict"] = "ok"
                else:
                    raise AnalysisError(f"R-ORDERING: `{short(st, 60)}` checks a maximum that covers {sorted(covered)} of the index fields {sorted(fields)}")
    for F, kind in fields.items():
        if F in validated:
            ok = validated[F] < build_pos
            res.inst(tg.fq, f"all indices in {F} validated before the graph is built", "ok" if ok else "fail")
            if not ok:
                problems.append((tg, flat[build_pos][0], f"the graph is built before the indices in {F} were checked against the atoms of the formula"))
        else:
            # is it validated in some other form anywhere in to_graph's flattening?
            other = any(validated_arg(x) is not None for st, f, c in flat for x in ast.walk(st) if isinstance(x, ast.Call)) and \
                not any(isinstance(st, ast.For) and field_of(st.iter) == F for st, f, c in flat)
            if other and not any(p for p in problems):
                raise AnalysisError(f"R-ORDERING: cannot see a loop over {F} that validates its indices, though validators are called")
            res.inst(tg.fq, f"all indices in {F} validated before the graph is built", "fail")
            if not any(F in str(p[2]) for p in problems):
                problems.append((tg, flat[build_pos][0], "a graph can be returned without the bond endpoints / attribute indices having been checked against the atoms of the formula: "
                                 f"a string with a dangling index is accepted (or silently altered) instead of being rejected (no validation of {F})"))
    # "no validation seen" is the absence of a form this rule reads, not a construct: it stands only when following the
    # listener on sample strings with a dangling index shows a graph handed back (R-LISTENSAMPLE); else there is no verdict
    absent = [p_ for p_ in problems if p_ not in [sp[2] for sp in sub_problems]]
    if absent:
        from ..check import run_rules
        ls = run_rules(ctx, ["R-LISTENSAMPLE"])[0]
        if not ls.findings:
            why = "sample strings with a dangling index are rejected on every path" if not ls.error and (ls.counts or {}).get("samples") else "the listener could not be followed on sample strings"
            raise AnalysisError(f"R-ORDERING: {absent[0][2]} -- in the forms this rule reads; {why}")
    for f, node, msg in problems:
        res.fail(Finding("R-ORDERING", f.module.rel, f.qualname, norm(node), msg, line=getattr(node, "lineno", None)))


# --------------------------------------------------------------------------- R-FILESAMPLE


def _file_samples(SYM, CHG_, RAD_, MASS_, BT):
    """(format, what, lines, expected atoms in file order [(symbol, chg, rad, mass, (x, y, z))], expected bonds {frozenset(positions): type})
    -- whole connection tables the CTfile format allows, with what they state"""
    head3 = ["", "  sample", "", "  0  0  0     0  0            999 V3000", "M  V30 BEGIN CTAB"]

    def v3(atoms, bonds, counts=None):
        pre = lambda x: [("" if part.startswith("M  V30 ") else "M  V30 ") + part for part in x.split("\n")]  # noqa: E731   (a continued line is two physical lines)
        return head3 + [f"M  V30 COUNTS {counts or f'{len(atoms)} {len(bonds)} 0 0 0'}", "M  V30 BEGIN ATOM"] + [l_ for a in atoms for l_ in pre(a)] + ["M  V30 END ATOM"] + \
            (["M  V30 BEGIN BOND"] + [l_ for b in bonds for l_ in pre(b)] + ["M  V30 END BOND"] if bonds else []) + ["M  V30 END CTAB", "M  END"]

    def a2(x, y, z, sym, ccc=0):
        return f"{x:10.4f}{y:10.4f}{z:10.4f} {sym:<3} 0{ccc:3d}  0  0  0  0  0  0  0  0  0  0"

    def b2(a, b, t):
        return f"{a:3d}{b:3d}{t:3d}  0  0  0  0"

    def v2(atoms, bonds, props, lists=()):
        return ["", "  sample", "", f"{len(atoms):3d}{len(bonds):3d}{len(lists):3d}  0  0  0  0  0  0  0999 V2000"] + list(atoms) + list(bonds) + list(lists) + list(props) + ["M  END"]
    C, O, D = ("C", 0, 0, 0, (0.0, 0.0, 0.0)), ("O", -1, 0, 0, (1.4, 0.0, 0.0)), ("H", 0, 0, 2, (-0.5, 0.9, 0.0))
    out = []
    out.append(("V3000", "atoms numbered 1, 2, 3", v3(["1 C 0 0 0 0", "2 O 1.4 0 0 0 CHG=-1", "3 D -0.5 0.9 0 0"], ["1 1 1 2", "2 2 1 3"]),
                [C, O, D], {frozenset((0, 1)): 1, frozenset((0, 2)): 2}))
    out.append(("V3000", "the same atom lines numbered 7, 2, 40 (any unique numbers are allowed)", v3(["7 C 0 0 0 0", "2 O 1.4 0 0 0 CHG=-1", "40 D -0.5 0.9 0 0"], ["1 1 7 2", "2 2 7 40"]),
                [C, O, D], {frozenset((0, 1)): 1, frozenset((0, 2)): 2}))
    out.append(("V3000", "properties in another order, runs of blanks, other keywords of the format, explicit defaults, a continued line",
                v3(["1 C 0 0 0 0  RAD=2   MASS=13 CFG=1", "2 N 1.5 0 0 0 VAL=3 CHG=1 HCOUNT=1", "3 T 0 1 0 0 CHG=0 RAD=0", "4 Cl 2.5 1 0 -\nM  V30 0 MASS=37 CHG=-1"],
                   ["1 1 1 2 CFG=1", "2 1 1 3", "3 1 2 -\nM  V30 4"], counts="4 3 0 0 0 REGNO=17"),
                [("C", 0, 2, 13, (0.0, 0.0, 0.0)), ("N", 1, 0, 0, (1.5, 0.0, 0.0)), ("H", 0, 0, 3, (0.0, 1.0, 0.0)), ("Cl", -1, 0, 37, (2.5, 1.0, 0.0))],
                {frozenset((0, 1)): 1, frozenset((0, 2)): 1, frozenset((1, 3)): 1}))
    out.append(("V3000", "a bond to a star atom with three listed endpoints",
                v3(["1 C 0 0 0 0", "2 C 1 0 0 0", "3 C 2 0 0 0", "4 * 1 1 0 0", "5 Fe 1 2 0 0"], ["1 1 1 2", "2 2 2 3", "3 9 5 4 ENDPTS=(3 1 2 3) ATTACH=ALL"]),
                [("C", 0, 0, 0, (0.0, 0.0, 0.0)), ("C", 0, 0, 0, (1.0, 0.0, 0.0)), ("C", 0, 0, 0, (2.0, 0.0, 0.0)), ("Fe", 0, 0, 0, (1.0, 2.0, 0.0))],
                {frozenset((0, 1)): 1, frozenset((1, 2)): 2, frozenset((3, 0)): 9, frozenset((3, 1)): 9, frozenset((3, 2)): 9}))
    out.append(("V3000", "one atom, no bond block", v3(["1 He 0 0 0 0 MASS=3"], []), [("He", 0, 0, 3, (0.0, 0.0, 0.0))], {}))
    out.append(("V2000", "charge code, D symbol, an isotope line", v2([a2(0, 0, 0, "C"), a2(1.4, 0, 0, "O", 5), a2(-0.5, 0.9, 0, "D")], [b2(1, 2, 1), b2(1, 3, 2)], ["M  ISO  1   1  13"]),
                [("C", 0, 0, 13, (0.0, 0.0, 0.0)), O, D], {frozenset((0, 1)): 1, frozenset((0, 2)): 2}))
    out.append(("V2000", "a charge line supersedes the charge codes; a radical line; an atom list and another property in between",
                v2([a2(0, 0, 0, "N", 3), a2(1, 0, 0, "O", 5), a2(2, 0, 0, "C"), a2(3, 0, 0, "T")], [b2(1, 2, 1), b2(2, 3, 2), b2(3, 4, 1)],
                   ["M  CHG  1   2  -1", "M  STY  1   1 SUP", "M  RAD  1   3   2"], lists=["  3 F    2   8   7"]),
                [("N", 0, 0, 0, (0.0, 0.0, 0.0)), ("O", -1, 0, 0, (1.0, 0.0, 0.0)), ("C", 0, 2, 0, (2.0, 0.0, 0.0)), ("H", 0, 0, 3, (3.0, 0.0, 0.0))],
                {frozenset((0, 1)): 1, frozenset((1, 2)): 2, frozenset((2, 3)): 1}))
    out.append(("V2000", "one atom, no bonds, no property lines", v2([a2(0, 0, 0, "He")], [], []), [("He", 0, 0, 0, (0.0, 0.0, 0.0))], {}))
    return out


def _file_sample_rule(ctx, rid: str, fmt: str) -> RuleResult:
    res = RuleResult(rid, f"{fmt} reader, on sample connection tables: one atom record per (non-star) atom line, in file order, with the stated element, charge, radical, mass and coordinates; "
                          "one bond per stated bond (per listed endpoint of a star bond) between the stated atoms with the stated type")
    from ..concrete import PState
    from .common import sample_evaluator
    const = lambda n: ctx.repo.const("tucan.graph_attributes", n)  # noqa: E731
    SYM, CHG_, RAD_, MASS_, BT, X_, Y_, Z_ = (const(n) for n in ("ELEMENT_SYMBOL", "CHG", "RAD", "MASS", "BOND_TYPE", "X_COORD", "Y_COORD", "Z_COORD"))
    ent = reader_entries(ctx)[fmt]
    ps = params_of(ent.node)
    if len(ps) != 1:
        res.inst(ent.fq, "sample files", "ok", detail="not evaluated: the reader's entry takes more than the lines")
        res.counts = {"samples": 0}
        return res
    pe, env = sample_evaluator(ctx, ent)
    n = 0
    for f_, what, lines, want_atoms, want_bonds in _file_samples(SYM, CHG_, RAD_, MASS_, BT):
        if f_ != fmt:
            continue
        e = dict(env)
        e[ps[0]] = list(lines)
        del pe.gaps[:]
        falls, lefts = pe.block(ent.node.body, [PState(e)])
        hows = {how for _s, how, _v in lefts} | ({"falls"} if falls else set())
        gaps = list(pe.gaps)
        if gaps or not hows or "falls" in hows:
            res.inst(ent.fq, f"sample: {what}", "ok", detail="not followed by the sample evaluator" + (f": {gaps[0]}" if gaps else ""))
            continue
        n += 1
        if hows == {"raise"}:
            res.inst(ent.fq, f"sample: {what}", "fail", detail="every path ends in an exception")
            res.fail(Finding(rid, ent.module.rel, ent.qualname, f"sample: {what}", f"a connection table the format allows ({what}) is rejected: following the reader on it ends in an exception on every path",
                             line=ent.node.lineno, extra={"lines": lines}))
            continue
        if "raise" in hows:
            res.inst(ent.fq, f"sample: {what}", "ok", detail=f"paths end in {sorted(hows)}")
            continue
        problems = []
        for _s, how, v in lefts:
            if not (isinstance(v, tuple) and len(v) == 2 and isinstance(v[0], dict) and isinstance(v[1], dict)):
                problems = None
                break
            atoms, bonds = v
            got_atoms = []
            for d in atoms.values():
                if not isinstance(d, dict):
                    problems = None
                    break
                try:
                    got_atoms.append((d.get(SYM), d.get(CHG_, 0), d.get(RAD_, 0), d.get(MASS_, 0), (float(d.get(X_, 0)), float(d.get(Y_, 0)), float(d.get(Z_, 0)))))
                except (TypeError, ValueError):
                    problems = None
                    break
            if problems is None:
                break
            if got_atoms != want_atoms:
                k = next((i for i, (a_, b_) in enumerate(zip(got_atoms, want_atoms)) if a_ != b_), min(len(got_atoms), len(want_atoms)))
                problems.append(f"the atom table holds {len(got_atoms)} atoms, the file states {len(want_atoms)}" if len(got_atoms) != len(want_atoms) else
                                f"atom record {k + 1} (in the order the table is filled) is {got_atoms[k]}, atom line {k + 1} states {want_atoms[k]} (element, charge, radical, mass, coordinates)")
                continue
            posn = {key: i for i, key in enumerate(atoms)}
            got_bonds = {}
            bad_key = False
            for key, d in bonds.items():
                ends_ = tuple(key) if isinstance(key, (tuple, list, frozenset, set)) else None
                if ends_ is None or len(ends_) != 2 or not isinstance(d, dict):
                    problems = None          # a bond table of another make: not judged
                    break
                if not (ends_[0] in posn and ends_[1] in posn):
                    bad_key = True
                    break
                got_bonds[frozenset((posn[ends_[0]], posn[ends_[1]]))] = d.get(BT)
            if problems is None:
                break
            if bad_key:
                problems.append(f"a bond of the bond table {sorted(bonds, key=repr)} does not name two atoms of the atom table {list(atoms)}")
                continue
            if got_bonds != want_bonds:
                show = lambda m_: sorted((tuple(sorted(k_)), t_) for k_, t_ in m_.items())  # noqa: E731
                problems.append(f"the bonds (between atom lines, counted from 0, with type) are {show(got_bonds)}, the file states {show(want_bonds)}")
        if problems is None:
            res.inst(ent.fq, f"sample: {what}", "ok", detail="the reader's result is not a pair of tables: not judged")
            n -= 1
            continue
        bad = bool(problems) and len(problems) == len(lefts)
        res.inst(ent.fq, f"sample: {what}", "fail" if bad else "ok", detail=problems[0] if bad else "")
        if bad:
            res.fail(Finding(rid, ent.module.rel, ent.qualname, f"sample: {what}", f"following the {fmt} reader on a sample connection table ({what}): {problems[0]}",
                             line=ent.node.lineno, extra={"lines": lines}))
    res.counts = {"samples": n}
    res.trusted = ["CTfile formats 2020: the sample connection tables and what they state (rules/readers.py _file_samples)", "the sample evaluator (concrete.py)"]
    return res


@rule("R-V3SAMPLE")
def r_v3sample(ctx) -> RuleResult:
    return _file_sample_rule(ctx, "R-V3SAMPLE", "V3000")


@rule("R-V2SAMPLE")
def r_v2sample(ctx) -> RuleResult:
    return _file_sample_rule(ctx, "R-V2SAMPLE", "V2000")


# --------------------------------------------------------------------------- R-LISTENSAMPLE


def listener_evaluator(ctx):
    """(sample evaluator, its environment, listener class, to_graph, {'atoms' | 'bond' | 'attr': adder method}, first attribute
    keyword) for the TUCAN parser's listener, or a string saying why its samples cannot be put in through adder methods"""
    from ..concrete import PState, SampleNx
    from .common import sample_evaluator
    repo = ctx.repo
    par = repo.module("tucan.parser.parser")
    lis = None
    for ci in par.classes.values():
        if any(b.endswith("tucanListener") for b in repo.base_names(ci)):
            lis = ci
    if lis is None:
        raise AnalysisError("listener implementation vanished")
    tg = repo.mro_method(lis, "to_graph")
    if tg is None:
        raise AnalysisError("listener.to_graph vanished")

    # the adder methods, found through the handlers: the method a handler (or what it calls) hands two / three / (text, n) values
    def self_calls(m, depth=0):
        out = []
        for x in own_walk(m.node):
            if isinstance(x, ast.Call) and isinstance(x.func, ast.Attribute) and isinstance(x.func.value, ast.Name) and x.func.value.id == "self":
                t_ = repo.mro_method(lis, x.func.attr)
                if t_ is not None and t_.cls is lis:
                    out.append((x, t_))
                    if depth < 2:
                        out += self_calls(t_, depth + 1)
        return out
    adders = {}
    for name, m in lis.methods.items():
        if not name.startswith("enter"):
            continue
        low = name.lower()
        kind = "bond" if "tuple" in low else ("attr" if "property" in low else ("atoms" if "carbon" in low or "formula" in low else None))
        if kind is None:
            continue
        want = {"bond": 2, "attr": 3, "atoms": 2}[kind]
        for call, t_ in self_calls(m):
            if len(call.args) == want and not call.keywords and len(params_of(t_.node)) == want + 1 \
                    and not any(isinstance(z, ast.Name) and "ctx" in z.id for a_ in call.args for z in ast.walk(a_)):
                adders.setdefault(kind, t_)
    if set(adders) != {"bond", "attr", "atoms"} or len({a.fq for a in adders.values()}) != 3:
        return f"the methods that store atoms / bonds / attributes were not identified (found {sorted(adders)})"
    # the samples are put in through the adder methods: what the handlers do before they call them is not seen.  A handler
    # side that can raise by itself (an index checked the moment it is read) is outside what the samples can judge
    adder_fqs = {a.fq for a in adders.values()}
    for name, m in lis.methods.items():
        if not name.startswith("enter"):
            continue
        for f_ in [m] + [t_ for _c, t_ in self_calls(m)]:
            if f_.fq in adder_fqs:
                continue
            # a raise under a test that looks at what the listener already holds (self.<field>): an index checked when it is read
            from .readers_guard import guarded_by_state
            if guarded_by_state(f_.node):
                return f"{f_.qualname} can reject what it reads, by what is already stored, before it is stored itself (the samples enter after that point)"
    keys = repo.try_const(par, "_DESERIALIZER_NODE_ATTRIBUTE_MAPPING", None)
    key0 = next(iter(keys)) if isinstance(keys, dict) and keys else "mass"
    pe, env = sample_evaluator(ctx, tg, {"nx": SampleNx()})

    def consts_of(f_):
        out_ = {"nx": SampleNx()}
        for nm in {x.id for x in ast.walk(f_.node) if isinstance(x, ast.Name)}:
            if nm in params_of(f_.node):
                continue
            v = try_const(ctx, f_, ast.Name(nm, ast.Load()), default=None)
            if v is not None:
                out_[nm] = v
        return out_
    pe.instance_classes[lis.name] = {"fields": None, "class_attrs": {}}
    for name, fi_ in lis.methods.items():
        pe.calls[f"{lis.name}.{name}"] = (fi_.node, consts_of(fi_))
    return pe, env, lis, tg, adders, (key0, list(keys) if isinstance(keys, dict) else [key0])


@rule("R-LISTENSAMPLE")
def r_listensample(ctx) -> RuleResult:
    """sample semantics of the parser's listener: what its handlers store is fed to its own adder methods for a handful of
    sample molecules, then to_graph is followed with the sample evaluator.  A sample with an index that names no atom of the
    formula must end in an exception on every path; a sample inside the language must hand back a graph on some path.
    Only a sample on which every path ends the wrong way is reported; what the evaluator cannot follow is skipped."""
    res = RuleResult("R-LISTENSAMPLE", "TUCAN parser, on sample molecules: to_graph raises for every sample with a bond endpoint or attribute index beyond the atoms of the formula, and hands back a graph for the valid samples")
    from ..concrete import PState
    le = listener_evaluator(ctx)
    if isinstance(le, str):
        res.inst("tucan.parser.parser", "sample molecules", "ok", detail=f"not evaluated: {le}")
        res.counts = {"samples": 0}
        return res
    pe, env, lis, tg, adders, (key0, _keys) = le
    A, B, P = adders["atoms"].name, adders["bond"].name, adders["attr"].name
    dangling = [
        ("C2/(1-3)", [("C", 2)], [(1, 3)], []),
        ("C2/(3-1)", [("C", 2)], [(3, 1)], []),
        ("/(1-2)", [], [(1, 2)], []),
        (f"//(1:{key0}=13)", [], [], [(1, 13)]),
        (f"C//(2:{key0}=13)", [("C", 1)], [], [(2, 13)]),
        (f"C2H/(1-2)(1-3)/(4:{key0}=2)", [("C", 2), ("H", 1)], [(1, 2), (1, 3)], [(4, 2)]),
        ("H2/(1-2)(2-5)", [("H", 2)], [(1, 2), (2, 5)], []),
        ("CH4/(1-6)(2-5)", [("C", 1), ("H", 4)], [(1, 6), (2, 5)], []),        # the dangling end is not in the pair that compares largest
        ("CH4/(6-1)(2-5)(3-5)", [("C", 1), ("H", 4)], [(6, 1), (2, 5), (3, 5)], []),
    ]
    valid = [
        (f"C2/(1-2)/(2:{key0}=13)", [("C", 2)], [(1, 2)], [(2, 13)]),
        ("He/", [("He", 1)], [], []),
        ("CH4/(1-5)(2-5)(3-5)(4-5)", [("C", 1), ("H", 4)], [(1, 5), (2, 5), (3, 5), (4, 5)], []),
    ]

    def run(atoms, bonds, attrs):
        src = [f"L = {lis.name}()"] + [f"L.{A}({s_!r}, {n_})" for s_, n_ in atoms] + [f"L.{B}({a_}, {b_})" for a_, b_ in bonds] + [f"L.{P}({t_[0]}, {(t_[1] if len(t_) == 3 else key0)!r}, {t_[-1]})" for t_ in attrs]
        setup = ast.parse("\n".join(src)).body
        del pe.gaps[:]
        falls, lefts = pe.block(setup, [PState(dict(env))])
        if lefts or len(falls) != 1 or pe.gaps:
            return None          # the sample could not even be stored
        falls, lefts = pe.block(ast.parse("g = L.to_graph()").body, falls)
        hows = {how for _s, how, _v in lefts} | ({"return"} if falls else set())
        run.classes = {v_ for _s, how, v_ in lefts if how == "raise"}
        run.graphs = [s_.env.get("g") for s_ in falls]
        return hows, list(pe.gaps)
    from .parserwiring import _parser_exception
    exc_name = _parser_exception(ctx).name
    n = 0
    for text, atoms, bonds, attrs in dangling:
        r_ = run(atoms, bonds, attrs)
        if r_ is None:
            continue
        hows, gaps = r_
        n += 1
        other = sorted(c_ for c_ in run.classes if isinstance(c_, str) and c_ != exc_name)
        if hows == {"raise"} and not gaps and other and None not in run.classes and exc_name not in run.classes:
            res.inst(tg.fq, f"sample {text!r} (an index names no atom)", "fail", detail=f"paths end in {other}")
            res.fail(Finding("R-LISTENSAMPLE", tg.module.rel, tg.qualname, f"sample {text}",
                             f"for what the string {text!r} stores in the listener (an index that names no atom of the formula) to_graph ends in {other[0]} on every path: the string is rejected "
                             f"with an unrelated error instead of {exc_name}", line=tg.node.lineno))
            continue
        bad = hows == {"return"} and not gaps
        res.inst(tg.fq, f"sample {text!r} (an index names no atom)", "fail" if bad else "ok", detail=f"paths end in {sorted(hows)}" + (f"; not followed: {gaps[0]}" if gaps else ""))
        if bad:
            res.fail(Finding("R-LISTENSAMPLE", tg.module.rel, tg.qualname, f"sample {text}",
                             f"for what the string {text!r} stores in the listener (an index that names no atom of the formula) to_graph hands back a graph on every path instead of "
                             "raising: such a string is accepted", line=tg.node.lineno))
    for text, atoms, bonds, attrs in valid:
        r_ = run(atoms, bonds, attrs)
        if r_ is None:
            continue
        hows, gaps = r_
        n += 1
        bad = hows == {"raise"} and not gaps
        res.inst(tg.fq, f"sample {text!r} (inside the language)", "fail" if bad else "ok", detail=f"paths end in {sorted(hows)}" + (f"; not followed: {gaps[0]}" if gaps else ""))
        if bad:
            res.fail(Finding("R-LISTENSAMPLE", tg.module.rel, tg.qualname, f"sample {text}",
                             f"for what the valid string {text!r} stores in the listener to_graph raises on every path: a molecule the grammar admits is rejected", line=tg.node.lineno))
    # spellings of one molecule: tuples reversed, repeated, reordered, attribute blocks split and reordered.  Every spelling must
    # give the graph the string denotes: the formula's atoms numbered by rising atomic number (stable), the listed bonds as a
    # set, the listed attributes on the indexed atoms
    from ..concrete import SampleGraph
    const = lambda n_: ctx.repo.const("tucan.graph_attributes", n_)  # noqa: E731
    SYM_ = const("ELEMENT_SYMBOL")
    names = ctx.repo.try_const(ctx.repo.module("tucan.parser.parser"), "_DESERIALIZER_NODE_ATTRIBUTE_MAPPING", None)
    elem = ctx.repo.try_const("tucan.element_attributes", "ELEMENT_ATTRS", None)
    zkey = const("ATOMIC_NUMBER")
    if isinstance(names, dict) and len(names) >= 2 and isinstance(elem, dict):
        k_a, k_b = list(names)[:2]
        formula = [("C", 1), ("H", 2), ("O", 1)]
        spellings = [
            ("CH2O/(1-3)(2-3)(3-4) with attributes on atoms 1 and 4", [(1, 3), (2, 3), (3, 4)], [(1, k_a, 2), (4, k_b, 2), (1, k_b, 3)]),
            ("the same with tuples reversed, repeated and reordered", [(4, 3), (3, 1), (2, 3), (1, 3)], [(1, k_a, 2), (1, k_b, 3), (4, k_b, 2)]),
            ("the same with the attribute blocks of atom 1 split around another atom's and reordered", [(1, 3), (2, 3), (3, 4)], [(1, k_b, 3), (4, k_b, 2), (1, k_a, 2)]),
        ]
        expanded = [s_ for s_, c_ in formula for _ in range(c_)]
        order = sorted(range(len(expanded)), key=lambda i_: elem[expanded[i_]][zkey])
        want_nodes = {new: {SYM_: expanded[old]} for new, old in enumerate(order)}
        for i_, k_, v_ in spellings[0][2]:
            want_nodes[i_ - 1][names[k_]] = v_
        want_edges = {frozenset((a_ - 1, b_ - 1)) for a_, b_ in spellings[0][1]}
        for what, bonds, attrs in spellings:
            r_ = run(formula, bonds, attrs)
            if r_ is None:
                continue
            hows, gaps = r_
            graphs = [g_ for g_ in run.graphs if isinstance(g_, SampleGraph)]
            if gaps or hows != {"return"} or len(graphs) != len(run.graphs) or not graphs:
                res.inst(tg.fq, f"spelling: {what}", "ok", detail=f"not judged (paths end in {sorted(hows)}" + (f"; not followed: {gaps[0]}" if gaps else "") + ")")
                continue
            n += 1
            wrong = []
            for g_ in graphs:
                got_nodes = {k: {a: v for a, v in d.items() if a == SYM_ or a in names.values()} for k, d in g_._nodes.items()}
                got_edges = {frozenset((a_, b_)) for a_, b_, _d in g_._edge_list()}
                if got_nodes != want_nodes:
                    k_bad = next((k for k in sorted(set(got_nodes) | set(want_nodes), key=repr) if got_nodes.get(k) != want_nodes.get(k)), None)
                    wrong.append(f"atom {k_bad + 1 if isinstance(k_bad, int) else k_bad} comes out as {got_nodes.get(k_bad)}, the string states {want_nodes.get(k_bad)}")
                elif got_edges != want_edges:
                    wrong.append(f"the bonds come out as {sorted(tuple(sorted(e_)) for e_ in got_edges)}, the string states {sorted(tuple(sorted(e_)) for e_ in want_edges)}")
            bad = len(wrong) == len(graphs)
            res.inst(tg.fq, f"spelling: {what}", "fail" if bad else "ok", detail=wrong[0] if bad else "")
            if bad:
                res.fail(Finding("R-LISTENSAMPLE", tg.module.rel, tg.qualname, f"spelling: {what}",
                                 f"for what a sample string stores in the listener ({what}; bonds {bonds}, attributes {attrs}) the graph handed back on every path is not the one the string denotes: {wrong[0]}",
                                 line=tg.node.lineno))
    res.counts = {"samples": n}
    res.trusted = ["the sample evaluator's model of the listener object and of networkx graph construction (concrete.py)"]
    return res


# --------------------------------------------------------------------------- R-INDEXSPACE / R-GRAPHBUILD


def _index_offsets(fi: FuncInfo, ctx=None):
    """[(node, token position k or None, offset c)] for expressions  int(<row>[k]) ± c  (the conversion may sit in a helper
    `h(row, k, ..)` that returns int(row[k]))  and  <name> ± c inside comprehensions over parsed numbers"""
    out = []

    def token_position(l):
        if isinstance(l, ast.Call) and isinstance(l.func, ast.Name) and l.func.id == "int" and l.args and isinstance(l.args[0], ast.Subscript) \
                and isinstance(l.args[0].slice, ast.Constant):
            return l.args[0].slice.value
        if ctx is not None and isinstance(l, ast.Call):
            cs = ctx.cg.resolve_call(fi, l, ctx.cg.local_types(fi), set(params_of(fi.node)))
            if cs.kind == "tucan":
                h = cs.target
                hp = params_of(h.node)
                for r in own_walk(h.node):
                    if isinstance(r, ast.Return) and isinstance(r.value, ast.Call) and isinstance(r.value.func, ast.Name) and r.value.func.id == "int" and r.value.args \
                            and isinstance(r.value.args[0], ast.Subscript) and isinstance(r.value.args[0].slice, ast.Name) and r.value.args[0].slice.id in hp:
                        j = hp.index(r.value.args[0].slice.id)
                        if j < len(l.args) and isinstance(l.args[j], ast.Constant) and isinstance(l.args[j].value, int):
                            return l.args[j].value
        return None
    for n in own_walk(fi.node):
        if isinstance(n, ast.BinOp) and isinstance(n.op, (ast.Add, ast.Sub)) and isinstance(n.right, ast.Constant) and isinstance(n.right.value, int):
            c = n.right.value if isinstance(n.op, ast.Add) else -n.right.value
            k = token_position(n.left)
            if k is not None:
                out.append((n, k, c))
    return out


@rule("R-INDEXSPACE")
def r_indexspace(ctx) -> RuleResult:
    res = RuleResult("R-INDEXSPACE", "V3000: atoms are keyed by the index column of their line, bonds refer to atoms through the same column with the same offset, atom records are stored in file order; V2000: atoms keyed by line position, in file order")
    # ---- V3000
    fi, I, rec, bonds = analyse_reader(ctx, "V3000")
    out = I.call.__self__ if False else None
    atoms_obj = None
    # re-run to get the atom map object itself (analyse_reader caches only the record); cheap
    from ..heap import HeapInterp, Obj, string
    J = HeapInterp(ctx.repo)
    lines = Obj("list")
    lines.elem = string()
    lines.val = "lines"
    ret = J.call(fi, [lines])
    amap, bmap = ret.items
    akeys = {c[1:-1] for c in _labels(amap.keyt, "@idx")}
    ok = akeys == {"2"}
    res.inst(fi.fq, f"V3000 atom records keyed by token {sorted(akeys) or 'none (line position)'} of the atom line", "ok" if ok else "fail")
    if not ok:
        res.fail(Finding("R-INDEXSPACE", fi.module.rel, "_parse_atom_block", f"atom key provenance {sorted(akeys) or 'line position'}",
                         "V3000 atoms are not keyed by the index column of their line while bonds refer to atoms by that index: files whose atom lines are not listed 1..n attach bonds to the wrong atoms",
                         line=fi.node.lineno))
    bkeys = {c[1:-1] for c in _labels(bmap.keyt, "@idx")}
    ok = {"4", "5"} <= bkeys
    res.inst(fi.fq, f"V3000 bond endpoints read from tokens {sorted(bkeys)}", "ok" if ok else "fail")
    if not ok:
        res.fail(Finding("R-INDEXSPACE", fi.module.rel, "_parse_bond_block", f"bond key provenance {sorted(bkeys)}", "V3000 bond endpoints are not read from tokens 4 and 5 of the bond line", line=fi.node.lineno))
    clo = [ctx.cg.funcs[q] for q in ctx.cg.closure([fi.fq])]
    offs = []
    for f in clo:
        for n, k, c in _index_offsets(f, ctx):
            if k in (2, 4, 5):
                offs.append((f, n, k, c))
        # star-atom endpoints: (start, end - 1) in a comprehension
        for n in own_walk(f.node):
            if isinstance(n, (ast.ListComp, ast.GeneratorExp)) and isinstance(n.elt, ast.Tuple) and len(n.elt.elts) == 2:
                e2 = n.elt.elts[1]
                if isinstance(e2, ast.BinOp) and isinstance(e2.op, (ast.Add, ast.Sub)) and isinstance(e2.right, ast.Constant) and isinstance(e2.left, ast.Name) \
                        and isinstance(n.generators[0].target, ast.Name) and e2.left.id == n.generators[0].target.id:
                    offs.append((f, e2, "ENDPTS", e2.right.value if isinstance(e2.op, ast.Add) else -e2.right.value))
                elif isinstance(e2, ast.Name) and isinstance(n.generators[0].target, ast.Name) and e2.id == n.generators[0].target.id and "endpt" in norm(n).lower():
                    offs.append((f, e2, "ENDPTS", 0))
    cs = {c for _, _, _, c in offs}
    ok = len(cs) == 1 and (len(offs) >= 3 or bool(res.findings))
    if len(cs) == 1 and not {2, 4, 5} <= {k for _, _, k, _ in offs} and not res.findings:
        raise AnalysisError(f"R-INDEXSPACE: the conversions of the index fields (tokens 2, 4, 5) are not all found in the V3000 reader (seen: {sorted({str(k) for _, _, k, _ in offs})})")
    res.inst(fi.fq, f"index fields {[(k, c) for _, _, k, c in offs]} carry one common offset", "ok" if ok else "fail")
    if not ok and offs:
        f, n, k, c = offs[0]
        odd = [(f2, n2, k2, c2) for f2, n2, k2, c2 in offs if [x[3] for x in offs].count(c2) == 1] or offs
        f, n, k, c = odd[0]
        res.fail(Finding("R-INDEXSPACE", f.module.rel, f.qualname, norm(n), f"atom index fields are converted with different offsets {sorted(cs)}: bonds refer to other atoms than the file states", line=n.lineno))
    elif not offs:
        raise AnalysisError("R-INDEXSPACE: no index-field conversions found in the V3000 reader")
    # file order
    for ver in ("V3000", "V2000"):
        f0 = reader_entries(ctx)[ver]
        dec = block_decoder(ctx, ver, 0)
        for f in [ctx.cg.funcs[q] for q in ctx.cg.closure([f0.fq])]:
            if (f.fq != dec.fq) if dec is not None else ("atom" not in f.name or "block" not in f.name):
                continue
            loops = [n for n in own_walk(f.node) if isinstance(n, (ast.For, ast.DictComp, ast.ListComp))]
            for lp in loops:
                it = lp.iter if isinstance(lp, ast.For) else lp.generators[0].iter
                base = it
                if isinstance(base, ast.Call) and isinstance(base.func, ast.Name) and base.func.id == "enumerate" and base.args:
                    base = base.args[0]
                if isinstance(base, ast.Name):
                    d = single_def(f.node, base.id)
                    if d is not None:
                        base = d
                pname = params_of(f.node)[0] if params_of(f.node) else None
                direct = (isinstance(base, ast.Subscript) and isinstance(base.slice, ast.Slice) and isinstance(base.value, ast.Name) and base.value.id == pname) or \
                         (isinstance(base, ast.Name) and base.id == pname)
                reorder = isinstance(base, ast.Call) and isinstance(base.func, ast.Name) and base.func.id in ("sorted", "reversed", "set", "frozenset")
                if not direct and not reorder:
                    continue
                res.inst(f.fq, f"{ver}: atom lines are decoded in file order (`{short(it, 60)}`)", "ok" if direct else "fail")
                if reorder:
                    res.fail(Finding("R-INDEXSPACE", f.module.rel, f.qualname, norm(it), f"{ver}: atom lines are reordered before decoding: atoms are not returned in file order", line=it.lineno))
    return res


@rule("R-GRAPHBUILD")
def r_graphbuild(ctx) -> RuleResult:
    res = RuleResult("R-GRAPHBUILD", "graph_from_molecule: node labels and bond endpoints are taken from one key space (the atom keys), all attributes attached, and the final renumbering is one consistent map")
    gfm = ctx.repo.func("tucan.graph_utils.graph_from_molecule")
    fn = gfm.node
    ps = params_of(fn)
    if len(ps) < 2:
        raise AnalysisError("graph_from_molecule signature changed")
    atoms, bonds_p = ps[0], ps[1]

    # the graph may be put together by a helper that is handed both tables as they are: the construction is read there
    bfn, batoms, bbonds = fn, atoms, bonds_p
    if not any(isinstance(n, ast.Call) and isinstance(n.func, ast.Attribute) and n.func.attr in ("add_nodes_from", "add_node", "add_edges_from", "add_edge") for n in own_walk(fn)):
        helpers = []
        for n in own_walk(fn):
            if isinstance(n, ast.Call) and [norm(a_) for a_ in n.args[:2]] == [atoms, bonds_p] and not n.keywords:
                cs_ = ctx.cg.resolve_call(gfm, n, ctx.cg.local_types(gfm), set(ps))
                if cs_.kind == "tucan" and len(params_of(cs_.target.node)) >= 2:
                    helpers.append(cs_.target)
        rebound = {t_.id for n in own_walk(fn) if isinstance(n, (ast.Assign, ast.AugAssign, ast.AnnAssign)) for t_ in ast.walk(n.targets[0] if isinstance(n, ast.Assign) else n.target)
                   if isinstance(t_, ast.Name)} & {atoms, bonds_p}
        if len(helpers) == 1 and not rebound:
            bfn = helpers[0].node
            batoms, bbonds = params_of(bfn)[0], params_of(bfn)[1]
    def numbering(e: ast.expr, depth=0) -> Optional[str]:
        """how labels are derived from the atom table: 'key' | 'insertion' | 'sorted' | None"""
        if depth > 5:
            return None
        if isinstance(e, ast.Name):
            if e.id == batoms:
                return "key"
            d = single_def(bfn, e.id)
            return numbering(d, depth + 1) if d is not None else None
        if isinstance(e, ast.Call) and isinstance(e.func, ast.Name):
            if e.func.id in ("list", "tuple", "iter") and e.args:
                return numbering(e.args[0], depth + 1)
            if e.func.id == "sorted" and e.args:
                inner = numbering(e.args[0], depth + 1)
                return "sorted" if inner in ("key", "insertion") else inner
            if e.func.id == "enumerate" and e.args:
                inner = numbering(e.args[0], depth + 1)
                return {"key": "insertion", "values": "insertion", "sorted": "sorted"}.get(inner, inner)
            if e.func.id == "range":
                return "insertion"
        if isinstance(e, ast.Call) and isinstance(e.func, ast.Attribute) and isinstance(e.func.value, ast.Name) and e.func.value.id == batoms:
            if e.func.attr in ("keys",):
                return "key"
            if e.func.attr in ("items",):
                return "key"
            if e.func.attr == "values":
                return "values"
        if isinstance(e, (ast.GeneratorExp, ast.ListComp, ast.DictComp)):
            return numbering(e.generators[0].iter, depth + 1)
        return None

    # neither table may be filtered (a bond or atom dropped because of its data changes the molecule)
    for n in own_walk(bfn):
        comp = None
        if isinstance(n, (ast.Assign, ast.AnnAssign)) and isinstance(n.value, (ast.DictComp, ast.ListComp, ast.GeneratorExp, ast.SetComp)):
            comp = n.value
        elif isinstance(n, ast.Call) and isinstance(n.func, ast.Attribute) and n.func.attr in ("add_edges_from", "add_nodes_from") and n.args \
                and isinstance(n.args[0], (ast.ListComp, ast.GeneratorExp)):
            comp = n.args[0]
        if comp is not None:
            for g in comp.generators:
                src = norm(g.iter)
                if g.ifs and (batoms in src or bbonds in src):
                    res.inst(gfm.fq, short(comp), "fail")
                    res.fail(Finding("R-GRAPHBUILD", gfm.module.rel, gfm.qualname, norm(comp),
                                     f"{'bonds' if bbonds in src else 'atoms'} are filtered by `{short(g.ifs[0], 50)}` before the graph is built: which {'pairs are bonded' if bbonds in src else 'batoms exist'} depends on non-identity data",
                                     line=comp.lineno))
    node_calls = [n for n in own_walk(bfn) if isinstance(n, ast.Call) and isinstance(n.func, ast.Attribute) and n.func.attr in ("add_nodes_from", "add_node")]
    edge_calls = [n for n in own_walk(bfn) if isinstance(n, ast.Call) and isinstance(n.func, ast.Attribute) and n.func.attr in ("add_edges_from", "add_edge")]
    if not node_calls or not edge_calls:
        raise AnalysisError("R-GRAPHBUILD: graph_from_molecule no longer adds nodes and edges explicitly")
    nspace = numbering(node_calls[0].args[0]) if node_calls[0].args else None
    # edges: endpoints either the bond keys themselves, or mapped through a dict built from the atom table
    earg = edge_calls[0].args[0] if edge_calls[0].args else None
    espace = None
    maps = set()
    if earg is not None:
        for x in ast.walk(earg):
            if isinstance(x, ast.Subscript) and isinstance(x.value, ast.Name) and x.value.id not in (batoms, bbonds):
                maps.add(x.value.id)
        if maps:
            spaces = set()
            for mname in maps:
                d = single_def(bfn, mname)
                spaces.add(numbering(d) if d is not None else None)
            espace = spaces.pop() if len(spaces) == 1 else None
        else:
            src = earg
            while isinstance(src, ast.Call) and isinstance(src.func, ast.Name) and src.func.id in ("list", "tuple") and src.args:
                src = src.args[0]
            t = norm(src)
            if t in (f"{bbonds}.keys()", bbonds, f"{bbonds}.items()") or (isinstance(src, (ast.GeneratorExp, ast.ListComp)) and bbonds in norm(src.generators[0].iter)):
                espace = "key"
    if nspace is None or espace is None:
        raise AnalysisError(f"R-GRAPHBUILD: cannot determine the label space of nodes ({nspace}) / bond endpoints ({espace})")
    ok = nspace == espace or {nspace, espace} == {"key"}
    res.inst(gfm.fq, f"node labels from `{short(node_calls[0], 60)}` ({nspace}); bond endpoints from `{short(edge_calls[0], 60)}` ({espace})", "ok" if ok else "fail")
    if not ok:
        res.fail(Finding("R-GRAPHBUILD", gfm.module.rel, gfm.qualname, norm(edge_calls[0]),
                         f"batoms are numbered by {nspace} order of the atom table but bond endpoints by {espace} order: when the table is not in ascending key order the bonds attach to other batoms",
                         line=edge_calls[0].lineno))
    # attributes attached
    has_nattr = any(isinstance(n, ast.Call) and norm(n.func).endswith("set_node_attributes") for n in own_walk(bfn)) or nspace in ("values",) or \
        any(batoms in norm(c.args[0]) and (".items()" in norm(c.args[0]) or ".values()" in norm(c.args[0])) for c in node_calls if c.args)
    has_eattr = any(isinstance(n, ast.Call) and norm(n.func).endswith("set_edge_attributes") for n in own_walk(bfn)) or \
        any(".items()" in norm(c.args[0]) for c in edge_calls if c.args) or \
        any(c.func.attr == "add_edge" and (any(k.arg is None for k in c.keywords) or len(c.args) > 2) for c in edge_calls)
    if not has_eattr:
        # positively without data: the bond table's keys only
        bare = all(c.func.attr == "add_edges_from" and c.args and norm(c.args[0]) in (bbonds, f"{bbonds}.keys()", f"list({bbonds})", f"list({bbonds}.keys())") for c in edge_calls) \
            or all(c.func.attr == "add_edge" and len(c.args) == 2 and not c.keywords for c in edge_calls)
        if not bare:
            raise AnalysisError(f"R-GRAPHBUILD: cannot see whether `{short(edge_calls[0], 60)}` attaches the bond attributes")
    if not has_nattr:
        bare_n = all(c.args and norm(c.args[0]) in (batoms, f"{batoms}.keys()", f"list({batoms})", f"list({batoms}.keys())") for c in node_calls)
        if not bare_n:
            raise AnalysisError(f"R-GRAPHBUILD: cannot see whether `{short(node_calls[0], 60)}` attaches the atom attributes")
    res.inst(gfm.fq, "atom and bond attributes are attached", "ok" if has_nattr and has_eattr else "fail")
    if not (has_nattr and has_eattr):
        res.fail(Finding("R-GRAPHBUILD", gfm.module.rel, gfm.qualname, "attribute attachment", "node or edge attributes are no longer attached to the graph", line=fn.lineno))
    # final renumbering
    rets = [n for n in own_walk(fn) if isinstance(n, ast.Return) and n.value is not None]
    for r in rets:
        v = r.value
        if isinstance(v, ast.Name):
            dv = [d for d in assigned_names(fn).get(v.id, []) if isinstance(d, (ast.Assign, ast.AnnAssign)) and isinstance(d.targets[0] if isinstance(d, ast.Assign) else d.target, ast.Name)
                  and d.lineno < r.lineno and d.value is not None]
            if dv:
                v = sorted(dv, key=lambda d: d.lineno)[-1].value       # the binding that reaches the return in straight-line code
        conv = isinstance(v, ast.Call) and norm(v.func).endswith("convert_node_labels_to_integers")
        if conv:
            bad_kw = [k for k in v.keywords if k.arg in ("ordering", "first_label") and not (isinstance(k.value, ast.Constant) and k.value.value in ("default", 0))]
            res.inst(gfm.fq, short(r), "ok" if not bad_kw else "fail", detail="labels 0..n-1 in insertion order, one map for nodes and edges")
            if bad_kw:
                res.fail(Finding("R-GRAPHBUILD", gfm.module.rel, gfm.qualname, norm(r), "renumbering does not use insertion order starting at 0", line=r.lineno))
        else:
            ok2 = nspace in ("insertion", "values") or (nspace == espace and nspace in ("sorted",))
            if not ok2 and isinstance(v, ast.Call):
                # some other call produces the returned graph: is it a renumbering to 0..n-1 in insertion order?
                # relabel(graph, dict(zip(graph.nodes, range(n)))) written directly or through a helper with that body
                def zip_nodes_range(call, f, bind):
                    """call = nx.relabel_nodes(G, dict(zip(A, B))) with A = nodes of G, B = range(number of nodes)"""
                    if not (norm(call.func).endswith("relabel_nodes") and len(call.args) >= 2):
                        return None
                    mp_ = call.args[1]
                    if isinstance(mp_, ast.Name):
                        mp_ = single_def(f.node, mp_.id) or mp_
                    if not (isinstance(mp_, ast.Call) and isinstance(mp_.func, ast.Name) and mp_.func.id == "dict" and mp_.args and isinstance(mp_.args[0], ast.Call)
                            and isinstance(mp_.args[0].func, ast.Name) and mp_.args[0].func.id == "zip" and len(mp_.args[0].args) == 2):
                        return None
                    a_, b_ = (bind.get(x.id, x) if isinstance(x, ast.Name) else x for x in mp_.args[0].args)
                    gname = norm(bind.get(call.args[0].id, call.args[0])) if isinstance(call.args[0], ast.Name) else norm(call.args[0])
                    nodes_ok = norm(a_) in (f"{gname}.nodes", gname, f"list({gname})", f"{gname}.nodes()", f"list({gname}.nodes)")
                    rng_ok = norm(b_) in (f"range({gname}.number_of_nodes())", f"range(len({gname}))", f"range(len({gname}.nodes))", "count()", "itertools.count()")
                    return nodes_ok and rng_ok
                verdict = zip_nodes_range(v, gfm, {})
                if verdict is None:
                    csr = ctx.cg.resolve_call(gfm, v, ctx.cg.local_types(gfm), set(params_of(fn)))
                    if csr.kind == "tucan":
                        h = csr.target
                        hrets = [x for x in own_walk(h.node) if isinstance(x, ast.Return) and isinstance(x.value, ast.Call)]
                        allrets = [x for x in own_walk(h.node) if isinstance(x, ast.Return) and x.value is not None]
                        bind = dict(zip(params_of(h.node), v.args))
                        if len(hrets) == 1 and len(allrets) == 1:
                            verdict = zip_nodes_range(hrets[0].value, h, bind)
                        elif allrets:
                            # several ways out of the helper: each hands back a renumbered graph, or the graph it was given
                            verdicts = []
                            for hr in allrets:
                                hv = hr.value
                                if isinstance(hv, ast.Name) and hv.id in bind and not assigned_names(h.node).get(hv.id):
                                    verdicts.append(("as given", hr))
                                elif isinstance(hv, ast.Call) and norm(hv.func).endswith("convert_node_labels_to_integers") and \
                                        not [k for k in hv.keywords if k.arg in ("ordering", "first_label") and not (isinstance(k.value, ast.Constant) and k.value.value in ("default", 0))]:
                                    verdicts.append((True, hr))
                                elif isinstance(hv, ast.Call):
                                    verdicts.append((zip_nodes_range(hv, h, bind), hr))
                                else:
                                    verdicts.append((None, hr))
                            if all(x[0] is True for x in verdicts):
                                verdict = True
                            elif any(x[0] is None for x in verdicts):
                                verdict = None
                            elif any(x[0] == "as given" for x in verdicts) and nspace not in ("insertion", "values"):
                                hr = next(x[1] for x in verdicts if x[0] == "as given")
                                from .parserwiring import _guard_tests
                                tests_ = [t_ for t_ in _guard_tests(h.node, hr) if not isinstance(t_, tuple)]
                                res.inst(gfm.fq, short(r), "fail", detail=f"{h.name} hands the graph back as it was given" + (f" under `{short(tests_[0], 50)}`" if tests_ else ""))
                                res.fail(Finding("R-GRAPHBUILD", h.module.rel, h.qualname, norm(hr),
                                                 f"{h.name} hands the graph back with the labels it was built with" + (f" when `{short(tests_[0], 60)}`" if tests_ else "") +
                                                 ": those are the indices of the file / string, so an input that numbers its atoms in another order (any unique indices are allowed) gives "
                                                 "another labelled graph; the labels must be the positions 0..n-1 in the order of the atom lines", line=hr.lineno))
                                continue
                            else:
                                verdict = all(x[0] is True or x[0] == "as given" for x in verdicts)
                if verdict is None:
                    raise AnalysisError(f"R-GRAPHBUILD: cannot tell whether `{short(v)}` renumbers the atoms 0..n-1 in insertion order")
                ok2 = verdict
            res.inst(gfm.fq, short(r), "ok" if ok2 else "fail", detail=f"no renumbering call; labels already positions ({nspace})" if not isinstance(v, ast.Call) else "renumbered in insertion order")
            if not ok2:
                res.fail(Finding("R-GRAPHBUILD", gfm.module.rel, gfm.qualname, norm(r), "the returned graph keeps file / string indices as labels instead of 0..n-1", line=r.lineno))
    res.trusted = ["networkx.convert_node_labels_to_integers renumbers nodes and edges with one map (R-LIBSRC)"]
    return res


@rule("R-DISPATCH")
def r_dispatch(ctx) -> RuleResult:
    res = RuleResult("R-DISPATCH", "the molfile version is taken from the counts line (4th line) only; header and comment lines are read by nothing before the readers are entered")
    disp = entry(ctx, "read_text")
    readers = {f.fq for f in reader_entries(ctx).values()}
    # functions that run before a reader is entered: reachable from the entry without going through a reader
    # (or through the graph builder, which runs after one)
    stop = set(readers) | {q for q in ctx.cg.funcs if q.endswith(".graph_from_molecule")}
    pre, seen_q, work = [], set(), [disp.fq]
    while work:
        q = work.pop()
        if q in seen_q or q in stop or q not in ctx.cg.funcs:
            continue
        seen_q.add(q)
        pre.append(ctx.cg.funcs[q])
        work.extend(ctx.cg.edges.get(q, ()))
    # names that hold the list of lines: result of .splitlines() / readlines(), and parameters that receive such a name
    lists_of: dict[str, set] = {f.fq: set() for f in pre}
    for fi in pre:
        for name, defs in assigned_names(fi.node).items():
            for d in defs:
                v = getattr(d, "value", None)
                if isinstance(v, ast.Call) and isinstance(v.func, ast.Attribute) and v.func.attr in ("splitlines", "split", "readlines"):
                    lists_of[fi.fq].add(name)
    def is_list_expr(fi, a_):
        return (isinstance(a_, ast.Name) and a_.id in lists_of[fi.fq]) or (isinstance(a_, ast.Attribute) and norm(a_) in lists_of[fi.fq]) or \
               (isinstance(a_, ast.Call) and isinstance(a_.func, ast.Attribute) and a_.func.attr in ("splitlines", "readlines"))
    changed = True
    while changed:
        changed = False
        for fi in pre:
            for cs in sites(ctx, fi):
                # a value class built around the line list: its field is the list in every method
                ci = cs.target if cs.kind == "ctor" else (fi.cls if cs.kind in ("param", "unknown") and isinstance(cs.node.func, ast.Name) and cs.node.func.id == "cls" else None)
                if ci is not None and cs.node.args and is_list_expr(fi, cs.node.args[0]):
                    flds = [st.target.id for st in ci.node.body if isinstance(st, ast.AnnAssign) and isinstance(st.target, ast.Name)]
                    if flds:
                        for g in pre:
                            if g.cls is ci and f"self.{flds[0]}" not in lists_of[g.fq]:
                                lists_of[g.fq].add(f"self.{flds[0]}")
                                changed = True
                if cs.kind == "tucan" and cs.target.fq in lists_of:
                    tp = params_of(cs.target.node)
                    off = 1 if cs.target.cls is not None and tp and tp[0] in ("self", "cls") else 0
                    for i_, a_ in enumerate(cs.node.args):
                        is_list = is_list_expr(fi, a_)
                        if is_list and i_ + off < len(tp) and tp[i_ + off] not in lists_of[cs.target.fq]:
                            lists_of[cs.target.fq].add(tp[i_ + off])
                            changed = True
    n = 0
    suspects = []
    for fi in pre:
        fn = fi.node
        line_lists = lists_of[fi.fq]
        for x in own_walk(fn):
            if isinstance(x, ast.Subscript) and isinstance(x.value, (ast.Name, ast.Attribute)) and norm(x.value) in line_lists and isinstance(x.ctx, ast.Load):
                n += 1
                if isinstance(x.slice, ast.Slice):
                    lo = try_const(ctx, fi, x.slice.lower) if x.slice.lower is not None else 0
                    ok = isinstance(lo, int) and lo >= 3
                    what = f"lines[{norm(x.slice)}]"
                else:
                    k = try_const(ctx, fi, x.slice)
                    ok = isinstance(k, int) and k >= 3
                    what = f"lines[{norm(x.slice)}]"
                if ok:
                    res.inst(fi.fq, f"{what} read before dispatch", "ok")
                else:
                    suspects.append((fi, x, f"{what} covers the title / program / comment lines", f"{what} read before dispatch"))
            if isinstance(x, (ast.For, ast.comprehension)) and isinstance(x.iter, (ast.Name, ast.Attribute)) and norm(x.iter) in line_lists:
                n += 1
                suspects.append((fi, x.iter, "all lines, including title / program / comment lines, are inspected before a reader is chosen", f"iteration over all lines `{short(x.iter)}`"))
    if n == 0:
        raise AnalysisError("R-DISPATCH: the dispatcher no longer reads the version from the line list")
    if suspects:
        # the header lines are looked at.  That alone is not the defect: it is one if their text changes which reader gets the
        # file or what it gets.  The dispatcher is followed on complete sample files whose header lines end in a version word.
        wit = _dispatch_witness(ctx, disp, pre)
        for fi, x, why, what in suspects:
            res.inst(fi.fq, what, "fail" if wit else "undecided")
        if wit is None:
            fi, x, why, what = suspects[0]
            raise AnalysisError(f"R-DISPATCH: {fi.qualname}: {why}; the sample files with a version word in a header line are still handed to the reader of their counts "
                                "line unchanged, so this is not shown to be a defect, and not shown to be none")
        fi, x, why, what = suspects[0]
        res.fail(Finding("R-DISPATCH", fi.module.rel, fi.qualname, norm(x), f"{why}: their text influences how the file is read ({wit})", line=x.lineno))
    return res


def _dispatch_witness(ctx, disp, pre):
    """follow the dispatcher on complete V2000 / V3000 sample files whose title / program / comment line ends in the other
    version's word.  A description of the first sample that is not handed, unchanged, to the reader of its counts line;
    None if all are; AnalysisError if the dispatcher cannot be followed on the samples."""
    import re as _re
    from ..concrete import UNKNOWN, PathEval, PState, _Leave, _Unknown
    ents = reader_entries(ctx)

    def consts_of(f_):
        out_ = {}
        for nm in {x.id for x in ast.walk(f_.node) if isinstance(x, ast.Name)}:
            if nm in params_of(f_.node):
                continue
            v = try_const(ctx, f_, ast.Name(nm, ast.Load()), default=None)
            if v is not None:
                out_.setdefault(nm, v)
            else:
                pat = regex_of(ctx, f_, ast.Name(nm, ast.Load()))
                if pat is not None:
                    try:
                        out_.setdefault(nm, _re.compile(pat))
                    except _re.error:
                        pass
        return out_
    calls = {}
    for f_ in pre:
        if f_.cls is None and "." not in f_.qualname and f_.fq != disp.fq:
            calls[f_.name] = (f_.node, consts_of(f_))
    for ver, ent in ents.items():
        stub = ast.parse(f"def {ent.name}(lines):\n    return (('READ', {ver!r}, list(lines)), 'BONDS')").body[0]
        calls[ent.name] = (stub, {})
    calls["graph_from_molecule"] = (ast.parse("def graph_from_molecule(a, b):\n    return a").body[0], {})
    body = {
        "V2000": ["  1  0  0  0  0  0  0  0  0  0999 V2000", "    0.0000    0.0000    0.0000 C   0  0  0  0  0  0  0  0  0  0  0  0", "M  END"],
        "V3000": ["  0  0  0     0  0            999 V3000", "M  V30 BEGIN CTAB", "M  V30 COUNTS 1 0 0 0 0", "M  V30 BEGIN ATOM", "M  V30 1 C 0 0 0 0", "M  V30 END ATOM",
                  "M  V30 END CTAB", "M  END"],
    }
    other = {"V2000": "V3000", "V3000": "V2000"}
    ps = params_of(disp.node)
    if len(ps) != 1:
        raise AnalysisError(f"R-DISPATCH: {disp.qualname} no longer takes the file text alone")

    def outcome(lines):
        pe = PathEval(calls)
        env = consts_of(disp)
        env[ps[0]] = "\n".join(lines)
        falls, lefts = pe.block(disp.node.body, [PState(env)])
        rets = [v_ for _s, how, v_ in lefts if how == "return"]
        raised = [1 for _s, how, _v in lefts if how == "raise"]
        if pe.gaps or falls or (rets and raised) or len(rets) > 1:
            return None, (pe.gaps or ["several ways through the dispatcher on one sample"])[0]
        if raised and not rets:
            return "raise", None
        v = rets[0]
        if isinstance(v, tuple) and len(v) == 3 and v[0] == "READ":
            return (v[1], v[2]), None
        return None, f"what the dispatcher hands back on the sample is not what the reader gave ({type(v).__name__})"
    for ver in ("V2000", "V3000"):
        plain = ["", "", ""] + body[ver]
        got, gap = outcome(plain)
        if got != (ver, plain):
            raise AnalysisError(f"R-DISPATCH: cannot follow {disp.qualname} on a plain {ver} sample file" + (f" ({gap})" if gap else f" (outcome {got!r:.80})"))
    for ver in ("V2000", "V3000"):
        for k in range(3):
            for text in (f"exported from a {other[ver]}", other[ver], f"  1  0  0  0  0  0  0  0  0  0999 {other[ver]}"):
                lines = ["", "", ""] + body[ver]
                lines[k] = text
                got, gap = outcome(lines)
                if got is None:
                    raise AnalysisError(f"R-DISPATCH: cannot follow {disp.qualname} on a {ver} sample file with `{text}` as line {k + 1} ({gap})")
                if got == "raise":
                    return f"a complete {ver} file whose line {k + 1} (of the three free-text header lines) reads `{text.strip()}` is rejected"
                if got[0] != ver:
                    return f"a complete {ver} file whose line {k + 1} (of the three free-text header lines) reads `{text.strip()}` is given to the {got[0]} reader"
                if got[1] != lines:
                    return f"a complete {ver} file whose line {k + 1} (of the three free-text header lines) reads `{text.strip()}` reaches its reader with lines added or removed"
    return None
