"""Rule registry.  A rule is `fn(ctx) -> RuleResult`; it inspects the current
source through ctx.repo and reports the constructs it analysed."""
from __future__ import annotations

REGISTRY: dict = {}


def rule(rid: str):
    def deco(fn):
        if rid in REGISTRY:
            raise RuntimeError(f"rule {rid} is defined twice ({REGISTRY[rid].__module__} and {fn.__module__})")
        REGISTRY[rid] = fn
        fn.rule_id = rid
        return fn
    return deco


from . import grammar, structural, tables, readers, writer, parserwiring, flow, bliss, shape, effects, libsrc, tokens  # noqa: E402,F401
