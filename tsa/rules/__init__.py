"""Rule registry.  A rule is `fn(ctx) -> RuleResult`; it inspects the current
source through ctx.repo and reports the constructs it analysed."""
from __future__ import annotations

REGISTRY: dict = {}


def rule(rid: str):
    def deco(fn):
        REGISTRY[rid] = fn
        fn.rule_id = rid
        return fn
    return deco


from . import grammar, structural, tables, readers, writer, parserwiring, flow, bliss, shape, effects, libsrc, tokens  # noqa: E402,F401
