"""Frozen facts that are not the repository's to change: the periodic table,
the CTfile (BIOVIA 2020) V2000 column layout and charge codes, the V3000
atom-line keyword list, the igraph convention table."""

IUPAC_SYMBOLS = (
    "H He Li Be B C N O F Ne Na Mg Al Si P S Cl Ar K Ca Sc Ti V Cr Mn Fe Co Ni Cu Zn Ga Ge As Se Br Kr "
    "Rb Sr Y Zr Nb Mo Tc Ru Rh Pd Ag Cd In Sn Sb Te I Xe Cs Ba La Ce Pr Nd Pm Sm Eu Gd Tb Dy Ho Er Tm Yb Lu "
    "Hf Ta W Re Os Ir Pt Au Hg Tl Pb Bi Po At Rn Fr Ra Ac Th Pa U Np Pu Am Cm Bk Cf Es Fm Md No Lr "
    "Rf Db Sg Bh Hs Mt Ds Rg Cn Nh Fl Mc Lv Ts Og"
).split()
assert len(IUPAC_SYMBOLS) == 118 and len(set(IUPAC_SYMBOLS)) == 118

# CTfile V2000 fixed columns (0-based half-open spans)
V2000_COUNTS = {"aaa": (0, 3), "bbb": (3, 6), "lll": (6, 9)}
V2000_ATOM = {"x": (0, 10), "y": (10, 20), "z": (20, 30), "symbol": (31, 34), "dd": (34, 36), "ccc": (36, 39)}
V2000_BOND = {"111": (0, 3), "222": (3, 6), "ttt": (6, 9)}
# "M  XXXnn8 aaa vvv ..." : count at 6..9, entry i (0-based): atom at 10+8i .. +3, value at 14+8i .. +3
V2000_PROP = {"nn8": (6, 9), "entry_offset": 10, "entry_len": 8, "atom": (0, 3), "value": (4, 7)}
# atom-block charge codes: 0 uncharged, 1 +3, 2 +2, 3 +1, 4 doublet radical, 5 -1, 6 -2, 7 -3
V2000_CHARGE_CODES = {1: {"chg": 3}, 2: {"chg": 2}, 3: {"chg": 1}, 4: {"rad": 2}, 5: {"chg": -1}, 6: {"chg": -2}, 7: {"chg": -3}}

# V3000 atom line: M  V30 index type x y z aamap [keyword=value ...]
V3000_ATOM_KEYWORDS = ["CHG", "RAD", "CFG", "MASS", "VAL", "HCOUNT", "STBOX", "INVRET", "EXACHG", "SUBST", "UNSAT", "RBCNT",
                       "ATTCHPT", "RGROUPS", "ATTCHORD", "CLASS", "SEQID"]
V3000_BOND_KEYWORDS = ["CFG", "TOPO", "RXCTR", "STBOX", "ENDPTS", "ATTACH", "DISP"]

# index convention of Graph.canonical_permutation per igraph release line
# FWD: result[i] = canonical id of vertex i ; INV: result[k] = original vertex placed at canonical position k
IGRAPH_CONVENTION = {"0.9": "FWD", "0.10": "FWD", "0.11": "FWD", "1.0": "INV"}

# strftime directive widths used by the molfile header timestamp
STRFTIME_WIDTH = {"%m": 2, "%d": 2, "%y": 2, "%H": 2, "%M": 2, "%S": 2, "%Y": 4, "%j": 3, "%I": 2}

# CTfile formats (BIOVIA), bond block: V2000 `ttt` = 1 single, 2 double, 3 triple, 4 aromatic, 5 single or double,
# 6 single or aromatic, 7 double or aromatic, 8 any; V3000 bond `type` additionally 9 coordination, 10 hydrogen
V2000_BOND_TYPES = tuple(range(1, 9))
V3000_BOND_TYPES = tuple(range(1, 11))
