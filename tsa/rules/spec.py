"""Frozen facts that are not the repository's to change: the periodic table,
the CTfile (BIOVIA 2020) V2000 column layout and charge codes, the V3000
atom-line keyword list, the igraph convention table."""

IUPAC_SYMBOLS = (
    "H He Li Be B C N O F Ne Na Mg Al Si P S Cl Ar K Ca Sc Ti V Cr Mn Fe Co Ni Cu Zn Ga Ge As Se Br Kr "
    "Rb Sr Y Zr Nb Mo Tc Ru Rh Pd Ag Cd In Sn Sb Te I Xe Cs Ba La Ce Pr Nd Pm Sm Eu Gd Tb Dy Ho Er Tm Yb Lu "
    "Hf Ta W Re Os Ir Pt Au Hg Tl Pb Bi Po At Rn Fr Ra Ac Th Pa U Np Pu Am Cm Bk Cf Es Fm Md No Lr "
    "Rf Db Sg Bh Hs Mt Ds Rg Cn Nh Fl Mc Lv Ts Og"
).split()
assert len(IUPAC_SYMBOLS) == 118 and len(set(IUPAC_SYMBOLS)) == 118

# CTfile V2000 fixed columns (0-based half-open spans)
V2000_COUNTS = {"aaa": (0, 3), "bbb": (3, 6), "lll": (6, 9)}
V2000_ATOM = {"x": (0, 10), "y": (10, 20), "z": (20, 30), "symbol": (31, 34), "dd": (34, 36), "ccc": (36, 39)}
V2000_BOND = {"111": (0, 3), "222": (3, 6), "ttt": (6, 9)}
# "M  XXXnn8 aaa vvv ..." : count at 6..9, entry i (0-based): atom at 10+8i .. +3, value at 14+8i .. +3
V2000_PROP = {"nn8": (6, 9), "entry_offset": 10, "entry_len": 8, "atom": (0, 3), "value": (4, 7)}
# The same layout with, per field, the columns that a value the format allows can occupy (right-justified numbers with
# their largest width, the left-justified symbol with two letters): a slice reads field F exactly when it covers all of
# F's occupied columns and none of another field's -- the blank columns around it make no difference on any valid file.
# (name, first column, end, first occupied column, end of occupied columns)
V2000_LAYOUT = {
    "atom": [("x", 0, 10, 0, 10), ("y", 10, 20, 10, 20), ("z", 20, 30, 20, 30), ("symbol", 31, 34, 31, 33), ("dd", 34, 36, 34, 36), ("ccc", 36, 39, 38, 39),
             ("sss", 39, 42, 41, 42), ("hhh", 42, 45, 44, 45), ("bbb", 45, 48, 47, 48), ("vvv", 48, 51, 49, 51), ("HHH", 51, 54, 53, 54), ("rrr", 54, 57, 54, 57),
             ("iii", 57, 60, 57, 60), ("mmm", 60, 63, 60, 63), ("nnn", 63, 66, 65, 66), ("eee", 66, 69, 68, 69)],
    "bond": [("111", 0, 3, 0, 3), ("222", 3, 6, 3, 6), ("ttt", 6, 9, 8, 9), ("sss", 9, 12, 11, 12), ("xxx", 12, 15, 12, 15), ("rrr", 15, 18, 17, 18), ("ccc", 18, 21, 19, 21)],
    "counts": [("aaa", 0, 3, 0, 3), ("bbb", 3, 6, 3, 6), ("lll", 6, 9, 7, 9), ("fff", 9, 12, 11, 12), ("ccc", 12, 15, 14, 15), ("sss", 15, 18, 15, 18), ("xxx", 18, 21, 18, 21),
               ("rrr", 21, 24, 21, 24), ("ppp", 24, 27, 24, 27), ("iii", 27, 30, 27, 30), ("mmm", 30, 33, 30, 33), ("vvvvvv", 33, 39, 33, 39)],
    # one property line with its first entry; entry k is the same 8 columns further right (M  XXXnn8 aaa vvv)
    "prop": [("tag", 0, 6, 0, 6), ("nn8", 6, 9, 8, 9), ("atom", 10, 13, 10, 13), ("value", 14, 17, 14, 17), ("next", 18, 21, 18, 21)],
}


def canon_span(kind: str, lo, hi):
    """the format's span (first column, end) of the one field that the slice lo:hi reads in the sense above, else (lo, hi)"""
    if not isinstance(lo, int) or not (isinstance(hi, int) or hi is None):
        return (lo, hi)
    top = 10 ** 6 if hi is None else hi
    full = [f for f in V2000_LAYOUT[kind] if lo <= f[3] and f[4] <= top]
    touched = [f for f in V2000_LAYOUT[kind] if max(lo, f[3]) < min(top, f[4])]
    if len(full) == 1 and touched == full:
        return (full[0][1], full[0][2])
    return (lo, hi)


def canon_label(kind: str, label: str) -> str:
    """the same for a column label 'a:b' of the heap interpretation"""
    import re as _re
    m = _re.fullmatch(r"(\d*):(\d*)", label)
    if not m:
        return label
    lo = int(m.group(1)) if m.group(1) else 0
    hi = int(m.group(2)) if m.group(2) else None
    a, b = canon_span(kind, lo, hi)
    return f"{a}:{'' if b is None else b}"


# the property-line tags of a V2000 connection table (CTfile, "The Properties Block"); a line-kind test selects the lines
# of one tag exactly when its text is a prefix of that tag and of no other
V2000_PROPERTY_TAGS = ["A  ", "V  ", "G  ", "S  SKP", "M  CHG", "M  RAD", "M  ISO", "M  RBC", "M  SUB", "M  UNS", "M  LIN", "M  ALS", "M  APO", "M  AAL", "M  RGP",
                       "M  LOG", "M  STY", "M  SST", "M  SLB", "M  SCN", "M  SDS", "M  SAL", "M  SBL", "M  SPA", "M  SMT", "M  CRS", "M  SDI", "M  SBV", "M  SDT",
                       "M  SDD", "M  SCD", "M  SED", "M  PXA", "M  SAP", "M  SCL", "M  SNC", "M  SPL", "M  SBT", "M  $3D", "M  ZZC", "M  REG", "M  END"]


def tag_selected_by(prefix: str):
    """the one property tag whose lines a `startswith(prefix)` test selects, else None"""
    hits = [t for t in V2000_PROPERTY_TAGS if t.startswith(prefix)]
    return hits[0] if len(hits) == 1 else None


# atom-block charge codes: 0 uncharged, 1 +3, 2 +2, 3 +1, 4 doublet radical, 5 -1, 6 -2, 7 -3
V2000_CHARGE_CODES = {1: {"chg": 3}, 2: {"chg": 2}, 3: {"chg": 1}, 4: {"rad": 2}, 5: {"chg": -1}, 6: {"chg": -2}, 7: {"chg": -3}}

# every line of a V3000 connection table begins with this (the blank is part of it); a line that ends in `-` is continued
# on the next line, whose prefix is dropped
V3000_LINE_PREFIX = "M  V30 "
V3000_CONTINUATION = "-"

# V3000 atom line: M  V30 index type x y z aamap [keyword=value ...]
V3000_ATOM_KEYWORDS = ["CHG", "RAD", "CFG", "MASS", "VAL", "HCOUNT", "STBOX", "INVRET", "EXACHG", "SUBST", "UNSAT", "RBCNT",
                       "ATTCHPT", "RGROUPS", "ATTCHORD", "CLASS", "SEQID"]
V3000_BOND_KEYWORDS = ["CFG", "TOPO", "RXCTR", "STBOX", "ENDPTS", "ATTACH", "DISP"]

# index convention of Graph.canonical_permutation per igraph release line
# FWD: result[i] = canonical id of vertex i ; INV: result[k] = original vertex placed at canonical position k
IGRAPH_CONVENTION = {"0.9": "FWD", "0.10": "FWD", "0.11": "FWD", "1.0": "INV"}

# strftime directive widths used by the molfile header timestamp
STRFTIME_WIDTH = {"%m": 2, "%d": 2, "%y": 2, "%H": 2, "%M": 2, "%S": 2, "%Y": 4, "%j": 3, "%I": 2}

# CTfile formats (BIOVIA), bond block: V2000 `ttt` = 1 single, 2 double, 3 triple, 4 aromatic, 5 single or double,
# 6 single or aromatic, 7 double or aromatic, 8 any; V3000 bond `type` additionally 9 coordination, 10 hydrogen
V2000_BOND_TYPES = tuple(range(1, 9))
V3000_BOND_TYPES = tuple(range(1, 11))
