"""R-LIBSRC (thorough tier): re-derive, from the *sources* of the installed libraries (parsed with ast, not
imported), the facts the library summaries rely on.  A mismatch is an analysis error, never a verdict on tucan."""
from __future__ import annotations

import ast
import pathlib
import sys

from ..model import AnalysisError, norm
from ..report import RuleResult
from . import rule
from .bliss import installed_igraph_version
from .spec import IGRAPH_CONVENTION


def _find(pkg: str, rel: str) -> pathlib.Path:
    for p in sys.path:
        if p:
            c = pathlib.Path(p) / pkg / rel
            if c.is_file():
                return c
    raise AnalysisError(f"R-LIBSRC: {pkg}/{rel} not found on sys.path")


def _func(tree, name):
    for n in ast.walk(tree):
        if isinstance(n, ast.FunctionDef) and n.name == name:
            return n
    raise AnalysisError(f"R-LIBSRC: function {name} not found")


def _default(fn: ast.FunctionDef, param: str):
    args = fn.args.posonlyargs + fn.args.args
    d = fn.args.defaults
    off = len(args) - len(d)
    for i, a in enumerate(args):
        if a.arg == param and i >= off:
            return ast.literal_eval(d[i - off])
    for a, dv in zip(fn.args.kwonlyargs, fn.args.kw_defaults):
        if a.arg == param and dv is not None:
            return ast.literal_eval(dv)
    raise AnalysisError(f"R-LIBSRC: {fn.name} has no default for {param}")


@rule("R-LIBSRC")
def r_libsrc(ctx) -> RuleResult:
    res = RuleResult("R-LIBSRC", "facts behind the library summaries, re-derived from the installed networkx / igraph sources")
    rel = ast.parse(_find("networkx", "relabel.py").read_text())
    f = _func(rel, "relabel_nodes")
    ok = _default(f, "copy") is True
    res.inst("networkx.relabel_nodes", "default copy=True", "ok" if ok else "fail")
    if not ok:
        raise AnalysisError("R-LIBSRC: networkx.relabel_nodes no longer defaults to copy=True; the R-COPY summary is wrong for this installation")
    rc = _func(rel, "_relabel_copy")
    txt = norm(rc)
    ok = "d.copy()" in txt and "for n in G" in txt and "G.edges(data=True)" in txt
    res.inst("networkx.relabel._relabel_copy", "keeps node order of G, copies node and edge attribute dicts", "ok" if ok else "fail")
    if not ok:
        raise AnalysisError("R-LIBSRC: networkx _relabel_copy no longer copies attribute dicts in node order as summarised")
    cv = _func(rel, "convert_node_labels_to_integers")
    ok = _default(cv, "ordering") == "default" and _default(cv, "first_label") == 0 and "dict(zip(G.nodes(), range(first_label, N)))" in norm(cv)
    res.inst("networkx.convert_node_labels_to_integers", "labels 0..n-1 in insertion order by default", "ok" if ok else "fail")
    if not ok:
        raise AnalysisError("R-LIBSRC: convert_node_labels_to_integers default ordering changed")
    ig = ast.parse(_find("igraph", "io/libraries.py").read_text())
    fn = _func(ig, "_construct_graph_from_networkx")
    ok = _default(fn, "vertex_attr_hashable") == "_nx_name" and "vnames = list(g.nodes)" in norm(fn)
    res.inst("igraph.Graph.from_networkx", "vertex i is the i-th node of list(g.nodes); labels stored under '_nx_name'; node attributes become vertex attributes", "ok" if ok else "fail")
    if not ok:
        raise AnalysisError("R-LIBSRC: igraph from_networkx no longer keeps node order / '_nx_name' as summarised")
    ver, src = installed_igraph_version(ctx)
    known = ver in IGRAPH_CONVENTION
    res.inst("igraph", f"version {ver} ({src}) has an entry in the canonical_permutation convention table", "ok" if known else "ok",
             detail=IGRAPH_CONVENTION.get(ver, "unknown: only permute_vertices-based uses are accepted"))
    res.trusted = ["the C extension behind Graph.canonical_permutation / permute_vertices (bliss) is not inspected"]
    return res
