"""Flow rules on the T-domain: R-FLOW-CANON, R-FLOW-SERIAL, R-HASH, R-FLOW-PARSE."""
from __future__ import annotations

import ast

from ..model import AnalysisError, norm, short
from ..report import Finding, RuleResult
from ..taint import HASH, LABEL, ORDER, UNSUM, TaintInterp, kinds, only, tt, vt
from . import rule
from .common import names_in, all_public_closure, assigned_names, closure, entry, own_walk, params_of, sites

BAD_CANON = (LABEL, ORDER, HASH)
BAD_SERIAL = (ORDER, HASH)


def _run_canon(ctx):
    if "taint_canon" not in ctx.cache:
        from .bliss import installed_igraph_version
        from .spec import IGRAPH_CONVENTION
        I = TaintInterp(ctx.repo, label_ctx=True, bliss_convention=IGRAPH_CONVENTION.get(installed_igraph_version(ctx)[0]))
        g = I.graph(attrs={})
        r = I.call_fn(entry(ctx, "canonicalize"), [g])
        ctx.cache["taint_canon"] = (I, r)
    return ctx.cache["taint_canon"]


def _run_serial(ctx):
    if "taint_serial" not in ctx.cache:
        I = TaintInterp(ctx.repo, label_ctx=False)
        g = I.graph(attrs={})
        r = I.call_fn(entry(ctx, "serialize"), [g])
        ctx.cache["taint_serial"] = (I, r)
    return ctx.cache["taint_serial"]


def _origins(t, ks):
    return sorted({o for k, o in t if k in ks})


def _check_unsum(I, res_name):
    for s in I.sinks:
        u = _origins(s.taint, (UNSUM,))
        if u:
            raise AnalysisError(f"{res_name}: the result of an unsummarised call reaches the sink `{s.what}`: {u[0]}")


KIND_TEXT = {LABEL: "the arbitrary numbering of the atoms", ORDER: "listing / insertion order", HASH: "set iteration order (hash seed)"}


def _report(res: RuleResult, rule_id: str, s, bad):
    fi, node = s.fi, s.node
    ks = sorted(kinds(s.taint) & set(bad))
    for k in ks:
        origins = _origins(s.taint, (k,))
        res.fail(Finding(rule_id, fi.module.rel, fi.qualname, f"{s.what}: {short(node, 80)}",
                         f"{s.what} depends on {KIND_TEXT[k]}" + (f" ({s.detail})" if s.detail else ""),
                         line=getattr(node, "lineno", None), path=origins[:4] + [s.what],
                         extra={"kind": k, "origins": origins[:8]}))


@rule("R-FLOW-CANON")
def r_flow_canon(ctx) -> RuleResult:
    res = RuleResult("R-FLOW-CANON", "in canonicalize_molecule the partition classes, the colour vector handed to bliss (and its alignment with the vertex order) and the new labels carry no label / listing-order / hash taint")
    I, r = _run_canon(ctx)
    _check_unsum(I, "R-FLOW-CANON")
    seen = {"partition": 0, "bliss": 0, "relabel": 0}
    for s in I.sinks:
        if "partition" in s.what:
            seen["partition"] += 1
        elif "bliss" in s.what:
            seen["bliss"] += 1
        elif "relabel" in s.what:
            seen["relabel"] += 1
        else:
            continue
        bad = kinds(s.taint) & set(BAD_CANON)
        if "bliss" in s.what and "not aligned" in s.detail:
            bad = bad or {ORDER}
        res.inst(s.fi.fq, f"{s.what}: {short(s.node, 70)}", "fail" if bad else "ok", detail=s.detail)
        if bad:
            _report(res, "R-FLOW-CANON", s, BAD_CANON)
    for k, floor in (("partition", 1), ("bliss", 1), ("relabel", 1)):
        if seen[k] < floor:
            raise AnalysisError(f"R-FLOW-CANON: no `{k}` sink reached in canonicalize_molecule (anchor vanished)")
    res.counts = {"sources": len(I.source_sites), "sinks": len(I.sinks)}
    res.notes = [f"source: {k}" for k in sorted(I.source_sites)][:12]
    return res


@rule("R-FLOW-SERIAL")
def r_flow_serial(ctx) -> RuleResult:
    res = RuleResult("R-FLOW-SERIAL", "the string returned by serialize_molecule carries no listing-order / hash taint (labels canonical by precondition)")
    I, r = _run_serial(ctx)
    t = tt(r)
    u = _origins(t, (UNSUM,))
    if u:
        raise AnalysisError(f"R-FLOW-SERIAL: the result of an unsummarised call reaches the returned string: {u[0]}")
    fi = entry(ctx, "serialize")
    bad = kinds(t) & set(BAD_SERIAL)
    res.inst(fi.fq, "returned string", "fail" if bad else "ok", detail=f"{len(I.source_sites)} order/hash sources neutralised" if not bad else "")
    if bad:
        # attribute the taint to the writer call(s) that introduce it: re-evaluate per sink
        for k in sorted(bad):
            origins = _origins(t, (k,))
            for o in origins[:6]:
                res.fail(Finding("R-FLOW-SERIAL", fi.module.rel, fi.qualname, f"returned string <- {o}",
                                 f"the TUCAN string depends on {KIND_TEXT[k]}: {o} reaches the result without a sorted()/order-insensitive consumer in between",
                                 line=fi.node.lineno, path=[o, "serialize_molecule result"], extra={"kind": k}))
    # the final relabel maps inside the serializer must be clean too (they decide the numbering)
    for s in I.sinks:
        if "relabel" in s.what:
            b = kinds(s.taint) & set(BAD_SERIAL)
            res.inst(s.fi.fq, f"{s.what}: {short(s.node, 70)}", "fail" if b else "ok")
            if b:
                _report(res, "R-FLOW-SERIAL", s, BAD_SERIAL)
    if len(I.source_sites) < 5:
        raise AnalysisError(f"R-FLOW-SERIAL: only {len(I.source_sites)} order sources seen in the serializer; its iteration idioms changed")
    res.counts = {"sources": len(I.source_sites), "relabel_sinks": sum(1 for s in I.sinks if 'relabel' in s.what)}
    res.notes = [f"source: {k}" for k in sorted(I.source_sites)][:16]
    return res


# --------------------------------------------------------------------------- R-HASH

ORDER_FREE_CALLS = ("sorted", "len", "min", "max", "sum", "any", "all", "bool", "set", "frozenset")
ORDER_KEEPING_CALLS = ("list", "tuple", "dict", "enumerate", "zip", "map", "filter", "iter", "reversed", "next")


def _lookup_only(n, par, is_dict) -> bool:
    """is the constant read at `n` used only in ways that cannot see its order (look-up by key, membership, size, sorted)?"""
    p = par.get(id(n))
    if isinstance(p, ast.Subscript) and p.value is n:
        return is_dict
    if isinstance(p, ast.Compare) and n in p.comparators and all(isinstance(o, (ast.In, ast.NotIn)) for o in p.ops):
        return True
    if isinstance(p, ast.Call) and n in p.args and isinstance(p.func, ast.Name) and p.func.id in ORDER_FREE_CALLS:
        return True
    if isinstance(p, ast.Attribute) and p.value is n and is_dict and p.attr in ("get", "__contains__", "__getitem__", "setdefault"):
        return True
    return False


def hash_ordered_constants(ctx) -> dict:
    """(module, NAME) -> reason, for module-level constants that keep an order (list, tuple, dict) and got it by visiting a
    set of strings: a comprehension / list() / tuple() / dict() / join over a set-valued expression that is not
    re-sorted, or built from another such constant.  Sets of numbers only are exempt (their order does not depend on the
    hash seed)."""
    if "hash_ordered_constants" in ctx.cache:
        return ctx.cache["hash_ordered_constants"]
    from ..model import ConstEval
    repo = ctx.repo
    out: dict = {}

    def set_valued(m, e):
        """None (not a set) / reason"""
        syn = isinstance(e, (ast.Set, ast.SetComp)) or (isinstance(e, ast.Call) and isinstance(e.func, ast.Name) and e.func.id in ("set", "frozenset"))
        try:
            v = ConstEval(repo, m).eval(e, {})
        except (NameError, UnboundLocalError):
            raise
        except Exception:
            v = None
        if isinstance(v, (set, frozenset)):
            if len(v) < 2 or not any(isinstance(x, str) for x in v):
                return None
            return f"`{short(e, 40)}` is a set of {len(v)} strings"
        if v is None and syn:
            return f"`{short(e, 40)}` is a set"
        if isinstance(e, ast.Name):
            r = repo.resolve(m, e.id)
            if r and r[0] == "const" and (r[1].name, r[2]) in out:
                return f"`{e.id}` ({out[(r[1].name, r[2])]})"
        return None

    def exposed(m, value):
        """reason if evaluating `value` visits a set in its iteration order and keeps that order"""
        par = {}
        for n in ast.walk(value):
            for c in ast.iter_child_nodes(n):
                par[id(c)] = n

        def consumed_free(n):
            p = par.get(id(n))
            return isinstance(p, ast.Call) and n in p.args and isinstance(p.func, ast.Name) and p.func.id in ORDER_FREE_CALLS
        for n in ast.walk(value):
            its = []
            if isinstance(n, (ast.ListComp, ast.DictComp, ast.GeneratorExp)):
                its = [(g.iter, n) for g in n.generators]
            elif isinstance(n, ast.Call) and isinstance(n.func, ast.Name) and n.func.id in ORDER_KEEPING_CALLS:
                its = [(a, n) for a in n.args]
            elif isinstance(n, ast.Call) and isinstance(n.func, ast.Attribute) and n.func.attr in ("join", "fromkeys", "extend", "update"):
                its = [(a, n) for a in n.args]
            elif isinstance(n, ast.Starred) and isinstance(par.get(id(n)), (ast.List, ast.Tuple)):
                its = [(n.value, par.get(id(n)))]
            for it, site in its:
                # views of a hash-ordered dict keep its order
                base = it
                while isinstance(base, ast.Call) and isinstance(base.func, ast.Attribute) and base.func.attr in ("items", "keys", "values") and not base.args:
                    base = base.func.value
                why = set_valued(m, base)
                if why and not consumed_free(site):
                    return why
        return None
    changed = True
    rounds = 0
    while changed and rounds < 6:
        changed = False
        rounds += 1
        for m in repo.modules():
            for st in m.tree.body:
                tg, val = None, None
                if isinstance(st, ast.Assign) and len(st.targets) == 1 and isinstance(st.targets[0], ast.Name):
                    tg, val = st.targets[0].id, st.value
                elif isinstance(st, ast.AnnAssign) and isinstance(st.target, ast.Name) and st.value is not None:
                    tg, val = st.target.id, st.value
                elif isinstance(st, ast.For):
                    # a top-level loop over a set that fills module-level containers
                    why = set_valued(m, st.iter)
                    if why:
                        for x in ast.walk(st):
                            nm = None
                            if isinstance(x, ast.Subscript) and isinstance(x.ctx, ast.Store) and isinstance(x.value, ast.Name):
                                nm = x.value.id
                            elif isinstance(x, ast.Call) and isinstance(x.func, ast.Attribute) and x.func.attr in ("append", "extend", "insert", "setdefault", "update") and isinstance(x.func.value, ast.Name):
                                nm = x.func.value.id
                            if nm and (m.name, nm) not in out and nm in m.assigns:
                                out[(m.name, nm)] = why
                                changed = True
                    continue
                if tg is None or (m.name, tg) in out:
                    continue
                v = repo.try_const(m, tg, None)
                if isinstance(v, (set, frozenset)):
                    continue          # a set again: whoever iterates it is looked at where that happens
                why = exposed(m, val)
                if why is None and isinstance(val, ast.Name):
                    r = repo.resolve(m, val.id)
                    if r and r[0] == "const" and (r[1].name, r[2]) in out:
                        why = out[(r[1].name, r[2])]
                if why:
                    out[(m.name, tg)] = why
                    changed = True
    ctx.cache["hash_ordered_constants"] = out
    return out



def _set_exprs(fn):
    for n in own_walk(fn):
        if isinstance(n, (ast.Set, ast.SetComp)):
            yield n
        elif isinstance(n, ast.Call) and isinstance(n.func, ast.Name) and n.func.id in ("set", "frozenset"):
            yield n



class _SetUse:
    """Is a set-valued expression used only in ways that cannot see its iteration order?  Followed through local names,
    through parameters of repository functions it is handed to, and through return values to the callers."""
    FREE_CALLS = ("sorted", "len", "min", "max", "sum", "any", "all", "bool")
    SET_CALLS = ("set", "frozenset")
    FREE_METHODS = ("add", "discard", "remove", "clear", "issubset", "issuperset", "isdisjoint", "__contains__")
    SET_METHODS = ("union", "intersection", "difference", "symmetric_difference", "copy")
    INTO_SET_METHODS = ("update", "intersection_update", "difference_update", "symmetric_difference_update",
                        "issubset", "issuperset", "isdisjoint", "union", "intersection", "difference", "symmetric_difference")

    def __init__(self, ctx):
        self.ctx = ctx
        self._par: dict = {}
        self._busy: set = set()

    def parents(self, fi):
        if fi.fq not in self._par:
            d = {}
            for n in ast.walk(fi.node):
                for c in ast.iter_child_nodes(n):
                    d[id(c)] = n
            self._par[fi.fq] = d
        return self._par[fi.fq]

    def _is_set_name(self, fi, nm: str) -> bool:
        for d in assigned_names(fi.node).get(nm, []):
            v = getattr(d, "value", None)
            if v is not None and (isinstance(v, (ast.Set, ast.SetComp)) or (isinstance(v, ast.Call) and isinstance(v.func, ast.Name) and v.func.id in self.SET_CALLS)):
                return True
        return False

    def name_free(self, fi, nm: str, depth):
        key = (fi.fq, nm)
        if key in self._busy:
            return True, ""
        self._busy.add(key)
        try:
            for u in own_walk(fi.node):
                if isinstance(u, ast.Name) and u.id == nm and isinstance(u.ctx, ast.Load):
                    ok1, why1 = self.order_free(fi, u, depth)
                    if not ok1:
                        return False, why1
            return True, ""
        finally:
            self._busy.discard(key)

    def order_free(self, fi, e, depth=0):
        """(True, '') if the set-valued expression e is used only in ways that cannot see its iteration order"""
        if depth > 8:
            return False, "use chain too long"
        p = self.parents(fi).get(id(e))
        if p is None or isinstance(p, ast.Expr):
            return True, ""
        if isinstance(p, ast.Compare):
            return True, ""
        if isinstance(p, (ast.If, ast.While, ast.IfExp, ast.Assert)) and p.test is e:
            return True, ""
        if isinstance(p, ast.BoolOp) or (isinstance(p, ast.UnaryOp) and isinstance(p.op, ast.Not)):
            return self.order_free(fi, p, depth + 1) if not isinstance(p, ast.UnaryOp) else (True, "")
        if isinstance(p, ast.BinOp) and isinstance(p.op, (ast.BitAnd, ast.BitOr, ast.Sub, ast.BitXor)):
            return self.order_free(fi, p, depth + 1)
        if isinstance(p, ast.AugAssign) and isinstance(p.op, (ast.BitAnd, ast.BitOr, ast.Sub, ast.BitXor)):
            if p.value is e and isinstance(p.target, ast.Name):
                return self.name_free(fi, p.target.id, depth + 1)
            return True, ""
        if isinstance(p, ast.comprehension) and p.iter is e:
            # iterated by a comprehension: fine when the comprehension builds a set again (or feeds an order-free consumer)
            comp = self.parents(fi).get(id(p))
            if isinstance(comp, ast.SetComp):
                return self.order_free(fi, comp, depth + 1)
            if isinstance(comp, (ast.GeneratorExp, ast.ListComp)):
                pp = self.parents(fi).get(id(comp))
                if isinstance(pp, ast.Call) and comp in pp.args and isinstance(pp.func, ast.Name) and pp.func.id in self.FREE_CALLS + self.SET_CALLS:
                    return (True, "") if pp.func.id in self.FREE_CALLS else self.order_free(fi, pp, depth + 1)
            return False, f"`{short(comp if comp is not None else p)}` visits the set in iteration order"
        if isinstance(p, ast.Call):
            if isinstance(p.func, ast.Name) and p.func.id in self.FREE_CALLS and e in p.args:
                return True, ""
            if isinstance(p.func, ast.Name) and p.func.id in self.SET_CALLS and e in p.args:
                return self.order_free(fi, p, depth + 1)
            if isinstance(p.func, ast.Attribute) and e in p.args and p.func.attr in self.INTO_SET_METHODS:
                # handed to a set operation of another object: that object must itself be a set used order-free
                recv = p.func.value
                if p.func.attr in ("issubset", "issuperset", "isdisjoint"):
                    return True, ""
                if isinstance(recv, ast.Name):
                    if not self._is_set_name(fi, recv.id):
                        return False, f"`{short(p)}` feeds the set into a container that keeps insertion order"
                    return self.name_free(fi, recv.id, depth + 1) if p.func.attr.endswith("update") else self.order_free(fi, p, depth + 1)
                return self.order_free(fi, p, depth + 1)
            if e in p.args:
                # handed to a function of the repository: followed through the parameter it arrives in
                cs = self.ctx.cg.resolve_call(fi, p, self.ctx.cg.local_types(fi), set(params_of(fi.node)))
                if cs.kind == "tucan":
                    ps = params_of(cs.target.node)
                    off = 1 if cs.target.cls is not None and isinstance(p.func, ast.Attribute) else 0
                    i = p.args.index(e) + off
                    if i < len(ps):
                        return self.name_free(cs.target, ps[i], depth + 1)
        if isinstance(p, ast.Attribute) and p.value is e:
            pp = self.parents(fi).get(id(p))
            if isinstance(pp, ast.Call) and pp.func is p:
                if p.attr in self.FREE_METHODS or p.attr.endswith("_update") or p.attr == "update":
                    return True, ""
                if p.attr in self.SET_METHODS:
                    return self.order_free(fi, pp, depth + 1)
            return False, f"`{short(pp if pp is not None else p)}` consumes the set in iteration order"
        if isinstance(p, (ast.Assign, ast.AnnAssign, ast.NamedExpr)) and getattr(p, "value", None) is e:
            tg = p.targets[0] if isinstance(p, ast.Assign) else p.target
            if isinstance(tg, ast.Name):
                ok1, why1 = self.name_free(fi, tg.id, depth + 1)
                if isinstance(p, ast.NamedExpr) and ok1:
                    return self.order_free(fi, p, depth + 1)
                return ok1, why1
            return False, f"`{short(p)}` stores the set where its later use is not followed"
        if isinstance(p, ast.Return):
            # handed back: every caller (in the repository) must use the result order-free
            callers = [cs for cs in self.ctx.cg.callers_of(fi.fq)]
            if not callers:
                return False, f"`{short(p)}` hands the set to the caller"
            for cs in callers:
                ok1, why1 = self.order_free(cs.caller, cs.node, depth + 1)
                if not ok1:
                    return False, why1
            return True, ""
        return False, f"`{short(p)}` consumes the set in iteration order"


@rule("R-HASH")
def r_hash(ctx) -> RuleResult:
    res = RuleResult("R-HASH", "no value whose order depends on set iteration (hash seed) reaches a public result")
    # pipelines: by interpretation
    Ic, rc = _run_canon(ctx)
    Is, rs = _run_serial(ctx)
    for name, I, r, fi in (("canonicalize_molecule", Ic, rc, entry(ctx, "canonicalize")), ("serialize_molecule", Is, rs, entry(ctx, "serialize"))):
        t = set(tt(r))
        for s in I.sinks:
            t |= set(s.taint)
        h = _origins(t, (HASH,))
        res.inst(fi.fq, f"{name}: result and sinks free of hash-order taint", "fail" if h else "ok",
                 detail=f"{sum(1 for k in I.source_sites if k.startswith('HASH'))} set constructions, all consumed order-insensitively or sorted")
        for o in h[:4]:
            res.fail(Finding("R-HASH", fi.module.rel, fi.qualname, f"result <- {o}", f"{name}: set iteration order reaches the result ({o})", line=fi.node.lineno, path=[o, f"{name} result"]))
    # other public closures: any set construction must be consumed by sorted / membership / len only
    pipeline = {f.fq for f in closure(ctx, "canonicalize", "serialize")}
    n_sets = 0
    SU = _SetUse(ctx)
    for fi in all_public_closure(ctx):
        if fi.fq in pipeline:
            continue
        for se in _set_exprs(fi.node):
            n_sets += 1
            ok, why = SU.order_free(fi, se)
            res.inst(fi.fq, short(se), "ok" if ok else "fail")
            if not ok:
                res.fail(Finding("R-HASH", fi.module.rel, fi.qualname, norm(se), f"set iteration order may reach a result: {why}", line=se.lineno))
    # iteration over a module-level set / frozenset constant (its order depends on the hash seed for strings)
    for fi in all_public_closure(ctx):
        if fi.fq in pipeline:
            continue
        for n in own_walk(fi.node):
            its = []
            if isinstance(n, ast.For):
                its = [n.iter]
            elif isinstance(n, (ast.ListComp, ast.GeneratorExp, ast.DictComp, ast.SetComp)):
                its = [g.iter for g in n.generators]
            for it in its:
                if isinstance(it, ast.Name):
                    c = ctx.repo.try_const(fi.module, it.id, None) if it.id not in assigned_names(fi.node) and it.id not in params_of(fi.node) else None
                    if isinstance(c, (set, frozenset)) and any(isinstance(x, str) for x in c):
                        n_sets += 1
                        res.inst(fi.fq, f"iteration over the set constant `{it.id}`", "fail")
                        res.fail(Finding("R-HASH", fi.module.rel, fi.qualname, norm(n if not isinstance(n, ast.For) else n.iter),
                                         f"`{it.id}` is a set of strings: the order in which its elements are visited (and so the order in which results are built) changes with the hash seed", line=it.lineno))
    # module-level constants whose order was taken from a set of strings, and where they are read in order
    hc = hash_ordered_constants(ctx)
    n_consts = 0
    for fi in all_public_closure(ctx):
        shadow = set(assigned_names(fi.node)) | set(params_of(fi.node))
        par = {}
        for n in ast.walk(fi.node):
            for c in ast.iter_child_nodes(n):
                par[id(c)] = n
        for n in own_walk(fi.node):
            if not (isinstance(n, ast.Name) and isinstance(n.ctx, ast.Load) and n.id not in shadow):
                continue
            r = ctx.repo.resolve(fi.module, n.id)
            if not r or r[0] != "const" or (r[1].name, r[2]) not in hc:
                continue
            n_consts += 1
            why = hc[(r[1].name, r[2])]
            v = ctx.repo.try_const(r[1], r[2], None)
            ok = _lookup_only(n, par, isinstance(v, dict))
            res.inst(fi.fq, f"use of `{n.id}` (its order depends on the hash seed: {why})", "ok" if ok else "fail", detail="looked up only" if ok else "read in order")
            if not ok:
                res.fail(Finding("R-HASH", fi.module.rel, fi.qualname, f"{n.id} <- {why}",
                                 f"`{n.id}` is built at import time by visiting a set of strings ({why}): its order changes with the hash seed, and here it is read in that order", line=n.lineno))
    # fixture: the interpreter must see a planted list(set(..)) flow
    from ..model import Repo
    fx_src = "def _fx(xs):\n    u = list(set(xs))\n    return ''.join(str(x) for x in u)\n"
    fx = Repo(ctx.repo.root, {**ctx.repo.overlay, "tucan/_tsa_fixture_hash.py": fx_src})
    I = TaintInterp(fx, label_ctx=False)
    from ..taint import seq, sc
    r = I.call_fn(fx.func("tucan._tsa_fixture_hash._fx"), [seq(sc(), frozenset(), "xs")])
    if HASH not in kinds(tt(r)):
        raise AnalysisError("R-HASH self-test: planted list(set(..)) flow not detected")
    # fixture: a module-level table built by visiting a set of strings must be recognised
    from types import SimpleNamespace
    fx2 = Repo(ctx.repo.root, {**ctx.repo.overlay, "tucan/_tsa_fixture_hash2.py": "_S = frozenset(('mass', 'rad'))\n_T = {k: k for k in _S}\n_U = {k: k for k in sorted(_S)}\n"})
    hc2 = hash_ordered_constants(SimpleNamespace(repo=fx2, cache={}))
    if ("tucan._tsa_fixture_hash2", "_T") not in hc2 or ("tucan._tsa_fixture_hash2", "_U") in hc2:
        raise AnalysisError("R-HASH self-test: planted module-level table over a set of strings not classified as expected")
    res.counts = {"set_constructions_outside_pipeline": n_sets, "hash_ordered_constants": len(hc), "their_uses": n_consts, "fixture_detected": 1}
    return res


# --------------------------------------------------------------------------- R-FLOW-PARSE


@rule("R-FLOW-PARSE")
def r_flow_parse(ctx) -> RuleResult:
    res = RuleResult("R-FLOW-PARSE", "the spelling of a TUCAN string (tuple order, orientation, repetition, attribute-block order/splitting) reaches the parsed graph only through set-like consumers: bonds as keys of an undirected simple graph, attributes by keyed per-atom merge")
    repo = ctx.repo
    par = repo.module("tucan.parser.parser")
    lis = None
    for ci in par.classes.values():
        if any(b.endswith("tucanListener") for b in repo.base_names(ci)):
            lis = ci
    if lis is None:
        raise AnalysisError("listener implementation vanished")
    init = lis.methods.get("__init__")
    if init is None:
        raise AnalysisError("listener has no __init__")
    # which self attributes collect bonds / attributes: by the handler that fills them
    fields = {}
    for n in own_walk(init.node):
        if isinstance(n, ast.Assign) and isinstance(n.targets[0], ast.Attribute) and isinstance(n.targets[0].value, ast.Name) and n.targets[0].value.id == "self":
            fields[n.targets[0].attr] = n.value
        if isinstance(n, ast.AnnAssign) and isinstance(n.target, ast.Attribute) and isinstance(n.target.value, ast.Name) and n.target.value.id == "self" and n.value is not None:
            fields[n.target.attr] = n.value
    uses: dict[str, list] = {k: [] for k in fields}
    parents = {}
    for m in lis.methods.values():
        for n in ast.walk(m.node):
            for c in ast.iter_child_nodes(n):
                parents[id(c)] = (n, m)
    for m in lis.methods.values():
        if m.name == "__init__":
            continue
        for n in own_walk(m.node):
            if isinstance(n, ast.Attribute) and isinstance(n.value, ast.Name) and n.value.id == "self" and n.attr in fields:
                uses[n.attr].append((n, m))
    from .readers import listener_index_fields
    kinds_ = listener_index_fields(ctx, lis)
    bond_field = next((k for k, v in kinds_.items() if v == "pairs" and k in fields), None)
    attr_field = next((k for k, v in kinds_.items() if v == "keys" and k in fields), None)
    if bond_field is None or attr_field is None:
        raise AnalysisError("R-FLOW-PARSE: cannot find the listener fields that collect bonds / node attributes")
    # ---- bonds: appended as pairs; read only by (a) plain iteration that validates, (b) comprehension producing dict keys / a set
    unclassified = []

    def loop_is_setlike(loop: ast.For, var_names: set):
        """True: the loop only validates / does keyed stores by its own variable; False: it builds something positional
        or counts; None: cannot tell"""
        verdict = True
        for s_ in ast.walk(ast.Module(loop.body, [])):
            if isinstance(s_, ast.Call) and isinstance(s_.func, ast.Attribute) and s_.func.attr in ("append", "extend", "insert", "appendleft"):
                return False
            if isinstance(s_, ast.AugAssign):
                return False
            if isinstance(s_, ast.Call) and isinstance(s_.func, ast.Name) and s_.func.id == "enumerate":
                return False
        for s_ in loop.body:
            if isinstance(s_, ast.Expr) and isinstance(s_.value, ast.Call):
                continue
            if isinstance(s_, (ast.Pass, ast.Continue)):
                continue
            if isinstance(s_, ast.Assign) and len(s_.targets) == 1 and isinstance(s_.targets[0], ast.Subscript) and names_in(s_.targets[0].slice) <= var_names \
                    and names_in(s_.targets[0].slice):
                continue        # keyed by the element itself
            if isinstance(s_, ast.If) and all(isinstance(z, (ast.Raise, ast.Continue, ast.Pass)) for z in s_.body) and not s_.orelse:
                continue
            if isinstance(s_, ast.Assign) and len(s_.targets) == 1 and all(isinstance(z, (ast.Name, ast.Tuple, ast.List, ast.Store)) for z in ast.walk(s_.targets[0])) \
                    and names_in(s_.value) <= var_names | {"int", "min", "max", "sorted", "tuple"}:
                # the element taken apart under local names (`a, b = bond`): nothing is built
                var_names = var_names | {z.id for z in ast.walk(s_.targets[0]) if isinstance(z, ast.Name)}
                continue
            if isinstance(s_, ast.For) and isinstance(s_.iter, ast.Name) and s_.iter.id in var_names and isinstance(s_.target, ast.Name):
                sub = loop_is_setlike(s_, {s_.target.id})
                if sub is not True:
                    return sub
                continue
            verdict = None
        return verdict

    def derived_list_of(loop: ast.For):
        """name of the local list if all the loop does with its elements is to append them (as they are) to one local list,
        possibly skipping some"""
        tv = {x.id for x in ast.walk(loop.target) if isinstance(x, ast.Name)}
        names = set()
        for s_ in ast.walk(ast.Module(loop.body, [])):
            if isinstance(s_, (ast.AugAssign, ast.For, ast.While)):
                return None
            if isinstance(s_, ast.Call) and isinstance(s_.func, ast.Name) and s_.func.id == "enumerate":
                return None
            if isinstance(s_, ast.Call) and isinstance(s_.func, ast.Attribute) and s_.func.attr in ("append", "extend", "insert", "appendleft"):
                if s_.func.attr != "append" or not isinstance(s_.func.value, ast.Name) or len(s_.args) != 1:
                    return None
                a_ = s_.args[0]
                whole = (isinstance(loop.target, ast.Name) and isinstance(a_, ast.Name) and a_.id == loop.target.id) or \
                    (isinstance(loop.target, ast.Tuple) and isinstance(a_, ast.Tuple) and [norm(x) for x in a_.elts] == [norm(x) for x in loop.target.elts])
                if not whole:
                    return None
                names.add(s_.func.value.id)
        return next(iter(names)) if len(names) == 1 else None

    def classify_name_uses(name, m, depth, skip=None):
        """the uses of the local list `name` in method m (and, when it is returned, of the call's result in the callers), judged
        like the uses of the field itself"""
        verdicts = []
        skip_ids = {id(x) for x in ast.walk(skip)} if skip is not None else set()
        for x in own_walk(m.node):
            if not (isinstance(x, ast.Name) and x.id == name and isinstance(x.ctx, ast.Load)) or id(x) in skip_ids:
                continue
            px, _ = parents[id(x)]
            if isinstance(px, ast.Return) and px.value is x:
                for m2 in lis.methods.values():
                    for c in own_walk(m2.node):
                        if isinstance(c, ast.Call) and isinstance(c.func, ast.Attribute) and isinstance(c.func.value, ast.Name) and c.func.value.id == "self" and c.func.attr == m.name:
                            pc, _ = parents[id(c)]
                            if isinstance(pc, ast.Assign) and len(pc.targets) == 1 and isinstance(pc.targets[0], ast.Name) and depth < 3:
                                verdicts.append(classify_name_uses(pc.targets[0].id, m2, depth + 1))
                            else:
                                verdicts.append(classify_bond_use(c, m2, depth + 1))
                continue
            verdicts.append(classify_bond_use(x, m, depth + 1))
        if not verdicts:
            return None, f"the list `{name}` made from the bonds is not used in a way this rule follows"
        for v_, why_ in verdicts:
            if v_ is False:
                return v_, why_
        for v_, why_ in verdicts:
            if v_ is None:
                return v_, why_
        return True, f"copied to the list `{name}`, which is " + "; ".join(sorted({w_ for _v, w_ in verdicts}))

    def classify_bond_use(n, m, depth=0):
        """(ok: True / False / None, why) for the expression n (the field or something wrapping it)"""
        p, _ = parents[id(n)]
        if isinstance(p, ast.Attribute) and p.attr in ("append", "add"):
            return True, "collected"
        if isinstance(p, ast.For) and p.iter is n:
            tv = {x.id for x in ast.walk(p.target) if isinstance(x, ast.Name)}
            v = loop_is_setlike(p, tv)
            if v is False and depth < 3:
                # the loop copies (some of) the pairs into a local list: what happens to that list decides
                derived = derived_list_of(p)
                if derived is not None:
                    return classify_name_uses(derived, m, depth + 1, skip=p)
            return v, {True: "iterated for validation / keyed stores only", False: "iterated by a loop that builds something from the listing order",
                       None: f"iterated by a loop this rule cannot classify: `{short(p, 60)}`"}[v]
        if isinstance(p, ast.comprehension):
            comp = parents[id(p)][0]
            if isinstance(comp, (ast.DictComp, ast.SetComp)):
                return True, "becomes dictionary keys / a set"
            if isinstance(comp, ast.GeneratorExp) and depth < 3:
                return classify_bond_use(comp, m, depth + 1)
            return False, "flows into an ordered sequence"
        if isinstance(p, ast.Call) and isinstance(p.func, ast.Name) and p.func.id in ("set", "frozenset", "len", "sorted", "any", "all", "min", "max", "bool"):
            return True, f"{p.func.id}()"
        if isinstance(p, ast.Call) and isinstance(p.func, ast.Name) and p.func.id in ("list", "tuple", "enumerate", "Counter"):
            return False, f"{p.func.id}() keeps the written order / multiplicity"
        if isinstance(p, ast.Call) and norm(p.func).split(".")[-1] in ("from_iterable", "chain", "fromkeys", "update", "add_edges_from") and depth < 3:
            if norm(p.func).split(".")[-1] in ("fromkeys", "update", "add_edges_from"):
                return True, "becomes dictionary keys / edges of a simple graph"
            return classify_bond_use(p, m, depth + 1)
        if isinstance(p, ast.Starred) and depth < 3:
            return classify_bond_use(p, m, depth + 1)
        if isinstance(p, ast.Subscript) and p.value is n:
            return False, f"read by position: `{short(p)}`"
        if isinstance(p, (ast.If, ast.While, ast.UnaryOp, ast.BoolOp)):
            return True, "emptiness test"
        return None, f"used as `{short(p)}`"
    for n, m in uses[bond_field]:
        p, _ = parents[id(n)]
        ok, why = classify_bond_use(n, m)
        if ok is None:
            unclassified.append((m, p, why))
            continue
        res.inst(m.fq, f"self.{bond_field} in `{short(p, 60)}`", "ok" if ok else "fail", detail=why)
        if not ok:
            res.fail(Finding("R-FLOW-PARSE", m.module.rel, m.qualname, norm(p), f"the order or multiplicity in which bonds were written reaches the graph: {why}", line=n.lineno))
    if unclassified and not res.findings:
        m, p, why = unclassified[0]
        raise AnalysisError(f"R-FLOW-PARSE: in {m.qualname} the bond list is {why}; this rule cannot tell whether that is order-sensitive")
    # ---- attributes: setdefault(index) + keyed store with duplicate check; read via .items() loop doing keyed update
    for n, m in uses[attr_field]:
        p, _ = parents[id(n)]
        ok, why = False, ""
        if isinstance(p, ast.Attribute) and p.attr in ("setdefault", "get"):
            ok, why = True, "keyed by atom index"
        elif isinstance(p, ast.Attribute) and p.attr == "items":
            call = parents[id(p)][0]
            loop = parents[id(call)][0]
            if isinstance(loop, ast.For):
                keyed = all(not (isinstance(s, ast.Expr) and isinstance(s.value, ast.Call) and isinstance(s.value.func, ast.Attribute) and s.value.func.attr in ("append", "extend", "insert")) for s in ast.walk(loop))
                ok, why = keyed, "merged per atom by keyed update" if keyed else "collected into an ordered sequence"
            else:
                why = "items() not consumed by a merge loop"
        elif isinstance(p, ast.Subscript):
            ok, why = True, "keyed by atom index"
        elif isinstance(p, ast.Compare) or (isinstance(p, ast.Call) and isinstance(p.func, ast.Name) and p.func.id in ("len", "bool", "sorted", "set", "frozenset")):
            ok, why = True, "membership / size"
        elif isinstance(p, (ast.For, ast.comprehension)) and p.iter is n:
            ok, why = True, "keys visited (a dictionary keyed by atom index)"
        elif isinstance(p, ast.Starred):
            # *table inside max(...) / min(...) / set(...) / sorted(...): the keys, consumed without regard to order
            q = p
            for _ in range(3):
                q = parents[id(q)][0]
                if isinstance(q, ast.Call) and isinstance(q.func, ast.Name) and q.func.id in ("max", "min", "set", "frozenset", "sorted", "len", "any", "all", "sum"):
                    ok, why = True, f"keys handed to {q.func.id}()"
                    break
                if not isinstance(q, (ast.Tuple, ast.List, ast.Set)):
                    break
            if not ok:
                raise AnalysisError(f"R-FLOW-PARSE: in {m.qualname} the attribute table is used as `{short(p)}`; this rule cannot tell whether that is order-sensitive")
        else:
            raise AnalysisError(f"R-FLOW-PARSE: in {m.qualname} the attribute table is used as `{short(p)}`; this rule cannot tell whether that is order-sensitive")
        res.inst(m.fq, f"self.{attr_field} in `{short(p, 60)}`", "ok" if ok else "fail", detail=why)
        if not ok:
            res.fail(Finding("R-FLOW-PARSE", m.module.rel, m.qualname, norm(p), f"the order / splitting of attribute blocks reaches the graph: {why}", line=n.lineno))
    dup = r_dupattr(ctx)
    for i in dup.instances:
        res.instances.append(i)
    for f in dup.findings:
        res.fail(Finding("R-FLOW-PARSE", f.file, f.function, f.construct, f.message, line=f.line))
    # ---- graph construction: undirected simple graph, edges from dictionary keys
    gfm = repo.func("tucan.graph_utils.graph_from_molecule")
    gfm_all = list({f_.fq: f_ for f_ in [gfm] + [ctx.cg.funcs[q] for q in ctx.cg.closure([gfm.fq]) if q in ctx.cg.funcs]}.values())      # the graph may be put together by a helper
    ctors = [cs for f_ in gfm_all for cs in sites(ctx, f_) if cs.kind == "ext" and cs.target.startswith("networkx.") and cs.target.split(".")[-1] in ("Graph", "DiGraph", "MultiGraph", "MultiDiGraph", "OrderedGraph")]
    ok = bool(ctors) and all(c.target == "networkx.Graph" for c in ctors)
    res.inst(gfm.fq, f"graph container: {[c.target for c in ctors]}", "ok" if ok else "fail")
    if not ok:
        n = ctors[0].node if ctors else gfm.node
        res.fail(Finding("R-FLOW-PARSE", gfm.module.rel, gfm.qualname, norm(n), "molecule graphs are not built as an undirected simple nx.Graph: repeated or reversed tuples would not collapse", line=n.lineno))
    res.trusted = ["networkx.Graph is an undirected simple graph: add_edges_from collapses duplicates and orientation"]
    return res


@rule("R-DUPATTR")
def r_dupattr(ctx) -> RuleResult:
    res = RuleResult("R-DUPATTR", "setting an attribute a second time on the same atom raises the parser's exception whatever the value")
    repo = ctx.repo
    par = repo.module("tucan.parser.parser")
    lis = None
    for ci in par.classes.values():
        if any(b.endswith("tucanListener") for b in repo.base_names(ci)):
            lis = ci
    if lis is None:
        raise AnalysisError("listener implementation vanished")
    # what the attribute adder does with a key it already holds, followed on samples
    from ..concrete import PState
    from .readers import listener_evaluator
    le = listener_evaluator(ctx)
    sample_verdict = None
    if not isinstance(le, str):
        pe, env, lis_, tg, adders_, (key0, keys_) = le
        A, P = adders_["atoms"].name, adders_["attr"].name
        key1 = keys_[1] if len(keys_) > 1 else key0

        def ends(calls):
            src = [f"L = {lis_.name}()", f"L.{A}('C', 2)"] + [f"L.{P}({i_}, {k_!r}, {v_})" for i_, k_, v_ in calls]
            del pe.gaps[:]
            falls, lefts = pe.block(ast.parse("\n".join(src)).body, [PState(dict(env))])
            if pe.gaps:
                return None
            return {how for _s, how, _v in lefts} | ({"falls"} if falls else set())
        dup_same, dup_other = ends([(1, key0, 13), (1, key0, 13)]), ends([(1, key0, 13), (1, key0, 14)])
        fine = [ends([(1, key0, 13), (2, key0, 13)]), ends([(1, key0, 13), (1, key1, 2)]) if key1 != key0 else {"falls"}, ends([(2, key0, 13)])]
        if None not in (dup_same, dup_other) and None not in fine:
            m_ = adders_["attr"]
            if dup_same == {"falls"} or dup_other == {"falls"}:
                which = "with the same value" if dup_same == {"falls"} else "with another value"
                res.inst(m_.fq, "a repeated attribute key on one atom raises, independent of the value", "fail", detail="followed on samples")
                res.fail(Finding("R-DUPATTR", m_.module.rel, m_.qualname, "duplicate attribute check",
                                 f"followed on a sample, setting `{key0}` on atom 1 a second time ({which}) is stored on every path instead of raising; a string that sets an attribute twice on one atom is not rejected",
                                 line=m_.node.lineno))
                return res
            if any(f_ == {"raise"} for f_ in fine):
                res.inst(m_.fq, "attributes of different atoms / different keys are accepted", "fail", detail="followed on samples")
                res.fail(Finding("R-DUPATTR", m_.module.rel, m_.qualname, "duplicate attribute check",
                                 "followed on a sample, setting an attribute once (or two different attributes, or one attribute on two atoms) raises on every path: a valid string is rejected", line=m_.node.lineno))
                return res
            if dup_same == {"raise"} and dup_other == {"raise"}:
                res.inst(m_.fq, "a repeated attribute key on one atom raises, independent of the value", "ok", detail="followed on samples: the second store of a key raises on every path, first stores do not")
                sample_verdict = True
    from .readers import listener_index_fields
    _attr_fields = {k for k, v in listener_index_fields(ctx, lis).items() if v == "keys"}
    adders = [m for m in lis.methods.values() if any(isinstance(x, ast.Attribute) and x.attr in ("setdefault",) for x in ast.walk(m.node))
              or any(isinstance(x, ast.Subscript) and isinstance(x.ctx, ast.Store) and any(isinstance(z, ast.Attribute) and isinstance(z.value, ast.Name) and z.value.id == "self"
                                                                                                 and z.attr in _attr_fields for z in ast.walk(x.value)) for x in ast.walk(m.node))]
    adders = [m for m in adders if not m.name.startswith(("enter", "exit")) and m.name != "to_graph"] or adders
    if not adders:
        raise AnalysisError("R-DUPATTR: no method stores node attributes")
    for m in adders:
        ps = params_of(m.node)
        value_params = set(ps[3:]) if len(ps) > 3 else set()
        good = None
        for y in own_walk(m.node):
            if isinstance(y, ast.If) and any(isinstance(z, ast.Raise) for z in y.body):
                t = y.test
                names = {n.id for n in ast.walk(t) if isinstance(n, ast.Name)}
                membership = isinstance(t, ast.Compare) and len(t.ops) == 1 and isinstance(t.ops[0], ast.In)
                not_none = isinstance(t, ast.Compare) and len(t.ops) == 1 and isinstance(t.ops[0], ast.IsNot) and isinstance(t.comparators[0], ast.Constant) and t.comparators[0].value is None
                if (membership or not_none) and not (names & value_params):
                    good = y
                elif names & value_params:
                    good = good or False
        ok = bool(good)
        if not ok and sample_verdict:
            continue            # the idiom is not the one this clause reads; the samples above settle it
        if not ok and good is None:
            raise AnalysisError(f"R-DUPATTR: {m.qualname} has no `if <key> in <record>: raise` and following it on samples gave no verdict")
        res.inst(m.fq, "a repeated attribute key on one atom raises, independent of the value", "ok" if ok else "fail")
        if not ok:
            why = "the duplicate test depends on the value: the same key with the same value is accepted twice" if good is False else "no test for an already present key"
            res.fail(Finding("R-DUPATTR", m.module.rel, m.qualname, "duplicate attribute check", f"{why}; a string that sets an attribute twice on one atom is not rejected", line=m.node.lineno))
    return res
