"""Shared helpers for rules: public entry points, closures, call-site queries."""
from __future__ import annotations

import ast
from typing import Iterable, Iterator, Optional

from ..model import AnalysisError, CallSite, FuncInfo, norm, short

PUBLIC = {
    "canonicalize": "tucan.canonicalization.canonicalize_molecule",
    "serialize": "tucan.serialization.serialize_molecule",
    "read_text": "tucan.io.molfile_reader.graph_from_molfile_text",
    "read_file": "tucan.io.molfile_reader.graph_from_file",
    "write": "tucan.io.molfile_writer.graph_to_molfile",
    "parse": "tucan.parser.parser.graph_from_tucan",
    "permute": "tucan.graph_utils.permute_molecule",
}


def attribute_spelling_tables(ctx):
    """(name, dict) of the serializer's table graph-attribute key -> spelling in the string, and of the parser's table
    spelling -> graph-attribute key: the module-level constant dicts of those modules whose keys (values) are graph
    attribute keys and whose values (keys) are strings; found by content, whatever they are called"""
    if "spelling_tables" in ctx.cache:
        return ctx.cache["spelling_tables"]
    repo = ctx.repo
    ga = repo.module("tucan.graph_attributes")
    attr_keys = {v for n in ga.assigns for v in [repo.try_const(ga, n, None)] if isinstance(v, str)}

    def find(modname, keys_are_attrs):
        m = repo.module(modname)
        hits = []
        for n in m.assigns:
            v = repo.try_const(m, n, None)
            if isinstance(v, dict) and v and all(isinstance(k, str) and isinstance(x, str) for k, x in v.items()):
                side = set(v) if keys_are_attrs else set(v.values())
                if side <= attr_keys:
                    hits.append((n, v))
        if len(hits) == 1:
            return hits[0]
        named = [h for h in hits if "ATTRIBUTE_MAPPING" in h[0]]
        return named[0] if len(named) == 1 else (None, None)
    out = (find("tucan.serialization", True), find("tucan.parser.parser", False))
    ctx.cache["spelling_tables"] = out
    return out


def entry(ctx, key: str) -> FuncInfo:
    return ctx.repo.func(PUBLIC[key])


def closure(ctx, *keys: str) -> list[FuncInfo]:
    cg = ctx.cg
    roots = [entry(ctx, k).fq for k in keys]
    return [cg.funcs[q] for q in cg.closure(roots)]


def all_public_closure(ctx) -> list[FuncInfo]:
    return closure(ctx, *PUBLIC.keys())


def sites(ctx, fi: FuncInfo) -> list[CallSite]:
    return ctx.cg.sites.get(fi.fq, [])


def ext_calls(ctx, fis: Iterable[FuncInfo], names: Iterable[str] | None = None, prefix: str | None = None) -> Iterator[CallSite]:
    names = set(names or ())
    for fi in fis:
        for cs in sites(ctx, fi):
            if cs.kind == "ext":
                if (names and cs.target in names) or (prefix and cs.target.startswith(prefix)) or (not names and not prefix):
                    yield cs


def method_calls(ctx, fis: Iterable[FuncInfo], attr: str) -> Iterator[CallSite]:
    for fi in fis:
        for cs in sites(ctx, fi):
            if isinstance(cs.node.func, ast.Attribute) and cs.node.func.attr == attr:
                yield cs


def kwarg(call: ast.Call, name: str) -> Optional[ast.expr]:
    for k in call.keywords:
        if k.arg == name:
            return k.value
    return None


def const_value(ctx, fi: FuncInfo, e: ast.expr):
    """constant value of an expression in the context of function fi, or NotConst; `self.NAME` / `cls.NAME` read the
    class-level constant NAME of fi's class"""
    from ..model import ConstEval
    env = {}
    if fi.cls is not None:
        for n in ast.walk(e):
            if isinstance(n, ast.Attribute) and isinstance(n.value, ast.Name) and n.value.id in ("self", "cls"):
                for st in fi.cls.node.body:
                    tg = st.targets[0] if isinstance(st, ast.Assign) and len(st.targets) == 1 else (st.target if isinstance(st, ast.AnnAssign) else None)
                    if isinstance(tg, ast.Name) and tg.id == n.attr and getattr(st, "value", None) is not None:
                        try:
                            env[f"__attr_{n.value.id}_{n.attr}"] = ConstEval(ctx.repo, fi.module).eval(st.value, {})
                        except (NameError, UnboundLocalError):
                            raise
                        except Exception:
                            pass
        if env:
            class Sub(ast.NodeTransformer):
                def visit_Attribute(self, node):
                    if isinstance(node.value, ast.Name) and f"__attr_{node.value.id}_{node.attr}" in env:
                        return ast.copy_location(ast.Name(f"__attr_{node.value.id}_{node.attr}", ast.Load()), node)
                    return self.generic_visit(node)
            import copy
            e = ast.fix_missing_locations(Sub().visit(copy.deepcopy(e)))
    # a parameter of fi with a constant default that no call in the repository passes has that default
    for nm, val in unpassed_defaults(ctx, fi).items():
        if any(isinstance(n, ast.Name) and n.id == nm for n in ast.walk(e)):
            env[nm] = val
    return ConstEval(ctx.repo, fi.module).eval(e, env)


def unpassed_defaults(ctx, fi: FuncInfo) -> dict:
    """{parameter: value} for the parameters of fi whose default is a constant (a literal or a module-level constant name) and
    that no call site in the repository passes (by position, by keyword, or through * / **): inside fi they hold that value.
    A function that is never called in the repository (a public entry) is taken as called with its defaults as well, since
    the properties speak about the library as its own callers use it."""
    cache = ctx.cache.setdefault("unpassed_defaults", {})
    if fi.fq in cache:
        return cache[fi.fq]
    cache[fi.fq] = {}
    from ..model import ConstEval, NotConst
    a = fi.node.args
    pos = [x.arg for x in a.posonlyargs + a.args]
    dflt = dict(zip(pos[len(pos) - len(a.defaults):], a.defaults))
    dflt.update({x.arg: d for x, d in zip(a.kwonlyargs, a.kw_defaults) if d is not None})
    out = {}
    if dflt:
        off = 1 if fi.cls is not None and pos and pos[0] in ("self", "cls") else 0
        for nm, d in dflt.items():
            if not isinstance(d, (ast.Constant, ast.Name, ast.Attribute)):
                continue
            try:
                val = ConstEval(ctx.repo, fi.module).eval(d, {})
            except (NameError, UnboundLocalError):
                raise
            except Exception:
                continue
            if not isinstance(val, (str, int, float, bool, type(None), tuple, frozenset)):
                continue
            passed = False
            for g in ctx.cg.funcs.values():
                for cs in ctx.cg.sites.get(g.fq, []):
                    if cs.kind == "tucan" and cs.target.fq == fi.fq:
                        if any(k.arg == nm or k.arg is None for k in cs.node.keywords) or any(isinstance(x, ast.Starred) for x in cs.node.args) \
                                or (nm in pos and len(cs.node.args) > pos.index(nm) - off):
                            passed = True
            # handed on as a value (map(f, ..), key=f): what it is called with is not seen
            if not passed:
                out[nm] = val
    cache[fi.fq] = out
    return out


def try_const(ctx, fi: FuncInfo, e: ast.expr, default=None):
    from ..model import NotConst
    try:
        return const_value(ctx, fi, e)
    except (NotConst, TypeError, KeyError, IndexError, ValueError):
        return default


def mentions_text(ctx, fi: FuncInfo, node: ast.AST, text: str) -> bool:
    """does the code under `node` mention the string `text`, as a literal or through the name of a module-level constant?"""
    for x in ast.walk(node):
        if isinstance(x, ast.Constant) and x.value == text:
            return True
        if isinstance(x, ast.Name) and isinstance(x.ctx, ast.Load):
            try:
                if ctx.repo.try_const(fi.module, x.id, None) == text:
                    return True
            except (NameError, UnboundLocalError):
                raise
            except Exception:
                pass
    return False


def own_walk(node: ast.AST) -> Iterator[ast.AST]:
    """walk excluding nested function / lambda bodies"""
    stack = [node]
    first = True
    while stack:
        n = stack.pop()
        if not first and isinstance(n, (ast.FunctionDef, ast.AsyncFunctionDef, ast.Lambda)):
            continue
        first = False
        yield n
        stack.extend(ast.iter_child_nodes(n))


def parent_map(fn: ast.AST) -> dict:
    out = {}
    for n in ast.walk(fn):
        for c in ast.iter_child_nodes(n):
            out[c] = n
    return out


def names_in(e: ast.AST) -> set[str]:
    return {n.id for n in ast.walk(e) if isinstance(n, ast.Name)}


def assigned_names(fn: ast.FunctionDef) -> dict[str, list[ast.AST]]:
    """name -> list of value expressions / binding statements in the function"""
    out: dict[str, list] = {}
    for n in own_walk(fn):
        if isinstance(n, ast.Assign):
            for t in n.targets:
                for nm in _target_names(t):
                    out.setdefault(nm, []).append(n)
        elif isinstance(n, (ast.AnnAssign, ast.AugAssign)):
            for nm in _target_names(n.target):
                out.setdefault(nm, []).append(n)
        elif isinstance(n, ast.NamedExpr):
            out.setdefault(n.target.id, []).append(n)
        elif isinstance(n, (ast.For, ast.comprehension)):
            for nm in _target_names(n.target):
                out.setdefault(nm, []).append(n)
        elif isinstance(n, ast.With):
            for it in n.items:
                if it.optional_vars is not None:
                    for nm in _target_names(it.optional_vars):
                        out.setdefault(nm, []).append(n)
    return out


def _target_names(t: ast.AST) -> list[str]:
    if isinstance(t, ast.Name):
        return [t.id]
    if isinstance(t, (ast.Tuple, ast.List)):
        out = []
        for e in t.elts:
            out += _target_names(e)
        return out
    if isinstance(t, ast.Starred):
        return _target_names(t.value)
    return []


def single_def(fn: ast.FunctionDef, name: str) -> Optional[ast.expr]:
    """the value expression if `name` is bound exactly once by a plain assignment"""
    defs = assigned_names(fn).get(name, [])
    if len(defs) == 1:
        d = defs[0]
        if isinstance(d, ast.Assign) and len(d.targets) == 1 and isinstance(d.targets[0], ast.Name):
            return d.value
        if isinstance(d, ast.AnnAssign) and d.value is not None:
            return d.value
        if isinstance(d, ast.NamedExpr):
            return d.value
    return None


def strip_wrappers(e: ast.expr, wrappers=("list", "tuple", "sorted", "reversed", "iter")) -> ast.expr:
    """peel list(...)/sorted(...)/tuple(...) — order-only wrappers that keep the element set"""
    while isinstance(e, ast.Call) and isinstance(e.func, ast.Name) and e.func.id in wrappers and e.args:
        e = e.args[0]
    return e


def params_of(fn: ast.FunctionDef) -> list[str]:
    a = fn.args
    return [x.arg for x in a.posonlyargs + a.args + a.kwonlyargs]


def loc(fi: FuncInfo, node: ast.AST) -> tuple[str, int]:
    return fi.module.rel, getattr(node, "lineno", None)


def need(cond, msg: str):
    if not cond:
        raise AnalysisError(msg)


def empty_graph_tests(gname: str) -> set[str]:
    """the ways this code base (and ordinary networkx use) asks whether a graph has no atoms, as normalised source text"""
    g = gname
    return {f"{g}.number_of_nodes() == 0", f"len({g}) == 0", f"not {g}", f"not {g}.nodes", f"len({g}.nodes) == 0", f"{g}.number_of_nodes() < 1",
            f"not {g}.number_of_nodes()", f"{g}.order() == 0", f"not len({g})", f"len({g}) < 1", f"not {g}.nodes()", f"len({g}.nodes()) == 0"}


def only_for_empty_graph(fn: ast.AST, target: ast.AST, gnames) -> Optional[ast.expr]:
    """the test of an enclosing `if <graph has no atoms>:` whose body holds `target` -- the statement is then executed only
    for the molecule without atoms, which the claims about numbering, classes and string shape do not cover"""
    accepted = set()
    for g in gnames:
        accepted |= empty_graph_tests(g)
    for n in ast.walk(fn):
        if isinstance(n, ast.If) and norm(n.test) in accepted and any(x is target for b_ in n.body for x in ast.walk(b_)):
            return n.test
    return None


def record_classes(ctx, *modules) -> dict:
    """name -> namedtuple class, for the NamedTuple classes of these modules (for concrete.PathEval.record_classes)"""
    from ..concrete import record_class_of
    out = {}
    for m in modules:
        for ci in m.classes.values():
            rc = record_class_of(ci.node)
            if rc is not None:
                out[ci.name] = rc
    return out


def record_methods(ctx, consts_of, *modules) -> dict:
    """'Class.method' -> (function node, constants) for the class / static methods of the NamedTuple classes of these
    modules (for concrete.PathEval.calls)"""
    from ..concrete import record_class_of
    out = {}
    for m in modules:
        for ci in m.classes.values():
            if record_class_of(ci.node) is None:
                continue
            for name, fi in ci.methods.items():
                if any(norm(d) in ("classmethod", "staticmethod") for d in fi.node.decorator_list):
                    out[f"{ci.name}.{name}"] = (fi.node, consts_of(fi))
    return out


def sample_evaluator(ctx, root: FuncInfo, extra_env: dict | None = None):
    """(PathEval, environment of `root`) set up to follow `root` and the module-level functions it reaches: constants,
    compiled patterns, NamedTuple classes with their class methods, and module-level tables that need those (records,
    lambdas) evaluated with the evaluator itself"""
    import re as _re
    from ..concrete import PathEval, PState, _Unknown
    extra_env = extra_env or {}

    from ..concrete import ModuleValues

    def consts_of(f_):
        out_ = {}
        for nm in {x.id for x in ast.walk(f_.node) if isinstance(x, ast.Name)}:
            if nm in params_of(f_.node):
                continue
            v = try_const(ctx, f_, ast.Name(nm, ast.Load()), default=None)
            if v is not None:
                out_.setdefault(nm, v)
                continue
            r_ = ctx.repo.resolve(f_.module, nm)
            if r_ and r_[0] == "mod":
                vals = {}
                for cn in r_[1].assigns:
                    try:
                        vals[cn] = ctx.repo.const(r_[1], cn)
                    except Exception as ex:
                        if isinstance(ex, (NameError, UnboundLocalError)):
                            raise
                out_.setdefault(nm, ModuleValues(vals))
        return out_
    funcs = [root] + [ctx.cg.funcs[q] for q in ctx.cg.closure([root.fq]) if q in ctx.cg.funcs]
    mods = {f.module.name: f.module for f in funcs}
    calls = {}
    for g in funcs:
        if g.cls is None and "." not in g.qualname and g is not root:
            calls[g.name] = (g.node, consts_of(g))
    calls.update(record_methods(ctx, consts_of, *mods.values()))
    pe = PathEval(calls)
    pe.record_classes = record_classes(ctx, *mods.values())
    # record classes with a __str__ of their own: a subclass of the rebuilt tuple whose __str__ follows the repository's
    from ..concrete import PState as _PS, record_class_of as _rco
    for m_ in mods.values():
        for ci in m_.classes.values():
            if ci.name in pe.record_classes or "__str__" not in ci.methods:
                continue
            base_ = _rco(ci.node, allow_str=True)
            if base_ is None:
                continue
            key_ = f"{ci.name}.__str__"
            calls[key_] = (ci.methods["__str__"].node, consts_of(ci.methods["__str__"]))

            def _make(base__, key__):
                class _R(base__):
                    __slots__ = ()

                    def __str__(self):
                        return pe.call(key__, [self], _PS({}))

                    def __format__(self, spec):
                        return format(str(self), spec)
                _R.__name__ = base__.__name__
                return _R
            pe.record_classes[ci.name] = _make(base_, key_)
    for m_ in mods.values():
        for ci in m_.classes.values():
            if ci.name in pe.record_classes:
                for name, fi_ in ci.methods.items():
                    if not (name.startswith("__") and name.endswith("__")):
                        calls.setdefault(f"{ci.name}.{name}", (fi_.node, consts_of(fi_)))
    # plain classes (and dataclasses) of those modules: objects with attributes, methods followed like functions
    from ..concrete import _NO_DEFAULT, record_class_of
    for m_ in mods.values():
        for ci in m_.classes.values():
            if record_class_of(ci.node) is not None:
                continue
            bases = [norm(b) for b in ci.node.bases]
            if any(b not in ("object",) for b in bases):
                continue            # inherits from something that is not followed
            is_dc = any("dataclass" in norm(d) for d in ci.node.decorator_list)
            fields, class_attrs = ([] if is_dc else None), {}
            ok = True
            for st in ci.node.body:
                if isinstance(st, ast.AnnAssign) and isinstance(st.target, ast.Name) and is_dc:
                    if st.value is None:
                        fields.append((st.target.id, _NO_DEFAULT))
                    elif isinstance(st.value, ast.Constant):
                        fields.append((st.target.id, st.value.value))
                    elif isinstance(st.value, ast.Call) and norm(st.value.func).endswith("field") and kwarg(st.value, "default_factory") is not None \
                            and norm(kwarg(st.value, "default_factory")) in ("list", "dict", "set"):
                        fields.append((st.target.id, {"list": list, "dict": dict, "set": set}[norm(kwarg(st.value, "default_factory"))]))
                    else:
                        ok = False
                elif isinstance(st, (ast.Assign, ast.AnnAssign)) and not is_dc:
                    tg = st.targets[0] if isinstance(st, ast.Assign) else st.target
                    if isinstance(tg, ast.Name) and st.value is not None:
                        v_ = try_const(ctx, next(iter(ci.methods.values())) if ci.methods else root, st.value, default=None)
                        if v_ is not None:
                            class_attrs[tg.id] = v_
            if not ok:
                continue
            pe.instance_classes[ci.name] = {"fields": fields, "class_attrs": class_attrs}
            for name, fi_ in ci.methods.items():
                calls[f"{ci.name}.{name}"] = (fi_.node, consts_of(fi_))

    def known(v_):
        if isinstance(v_, _Unknown):
            return False
        if isinstance(v_, (tuple, list)):
            return all(known(x_) for x_ in v_)
        if isinstance(v_, dict):
            return all(known(x_) for x_ in v_.values())
        return True
    root_env = consts_of(root)
    for key_, (node_, env_) in calls.items():
        for k_, v_ in extra_env.items():
            env_.setdefault(k_, v_)
    for g in funcs:
        env_g = root_env if g is root else calls.get(g.name, (None, None))[1]
        if env_g is None:
            continue
        for k_, v_ in extra_env.items():
            env_g.setdefault(k_, v_)
        for nm in {x.id for x in ast.walk(g.node) if isinstance(x, ast.Name)} - set(env_g) - set(params_of(g.node)):
            val = g.module.assigns.get(nm)
            if val is None:
                continue
            from ..model import norm as _norm
            if isinstance(val, ast.Call) and _norm(val.func) in ("re.compile", "compile") and val.args:
                pat = try_const(ctx, g, val.args[0], default=None)
                if isinstance(pat, str):
                    try:
                        env_g[nm] = _re.compile(pat)
                    except _re.error:
                        pass
                continue
            base = consts_of(g)
            for nm2 in {x.id for x in ast.walk(val) if isinstance(x, ast.Name)}:
                v2 = try_const(ctx, g, ast.Name(nm2, ast.Load()), default=None)
                if v2 is not None:
                    base.setdefault(nm2, v2)
            base.update(extra_env)
            v_ = pe.ev(val, PState(base))
            if known(v_) and not pe.gaps:
                env_g[nm] = v_
            pe.gaps = []
    return pe, root_env


def bind_defaults(fnode: ast.FunctionDef, env: dict):
    """bind every parameter of fnode that is not in env yet to its constant default (positional and keyword-only)"""
    pos = fnode.args.posonlyargs + fnode.args.args
    for a_, d_ in zip(pos[len(pos) - len(fnode.args.defaults):], fnode.args.defaults):
        if a_.arg not in env and isinstance(d_, ast.Constant):
            env[a_.arg] = d_.value
    for a_, d_ in zip(fnode.args.kwonlyargs, fnode.args.kw_defaults):
        if a_.arg not in env and isinstance(d_, ast.Constant):
            env[a_.arg] = d_.value

