"""Grammar-side rules: R-GRAM3, R-LEX, R-GRAMREC, R-GENCODE."""
from __future__ import annotations

import ast

from ..gram import (NFA, Det, build, charclass, compare, find_cycle, grammars, literals_of, rule_refs)
from ..model import AnalysisError, norm
from ..report import Finding, RuleResult
from . import rule

EBNF, G4 = "tucan/parser/tucan.ebnf", "tucan/parser/tucan.g4"
GENP, GENL = "tucan/parser/tucanParser.py", "tucan/parser/tucanLexer.py"


def _show(word):
    return " ".join(str(w) for w in word) if word else "<empty string>"


@rule("R-GRAMREC")
def r_gramrec(ctx) -> RuleResult:
    res = RuleResult("R-GRAMREC", "rule graphs of tucan.ebnf, tucan.g4 and the generated ATN are acyclic; repetition only by * and +")
    G = grammars(ctx)
    for nm, rules, f in (("ebnf", G.ebnf, EBNF), ("g4", G.g4, G4)):
        cyc = find_cycle({k: rule_refs(v) for k, v in rules.items()})
        i = res.inst(f, f"rule graph ({len(rules)} rules)", "ok" if not cyc else "fail")
        if cyc:
            res.fail(Finding("R-GRAMREC", f, cyc[0], " -> ".join(cyc),
                             "grammar rule is recursive: parse depth grows with input length"))
    cyc = find_cycle(G.gen.rule_graph())
    res.inst(GENP, f"ATN rule graph ({len(G.gen.rule_names)} rules)", "ok" if not cyc else "fail")
    if cyc:
        res.fail(Finding("R-GRAMREC", GENP, cyc[0], " -> ".join(cyc),
                         "generated parser is recursive: parse-tree depth and ParseTreeWalker recursion grow with input length"))
    res.counts = {"ebnf_rules": len(G.ebnf), "g4_rules": len(G.g4), "atn_rules": len(G.gen.rule_names)}
    res.trusted = ["antlr4 runtime ATNDeserializer decodes the serialized ATN as the library does"]
    return res


@rule("R-GRAM3")
def r_gram3(ctx) -> RuleResult:
    res = RuleResult("R-GRAM3", "L_EBNF(tucan) = L_G4(tucan) = L_ATN(tucan) as languages over token texts (and G4 = ATN for the *_start rules)")
    G = grammars(ctx)
    bad = G.check_acyclic()
    if bad:
        # recursion is R-GRAMREC's finding; a recursive grammar has no finite automaton here
        raise AnalysisError(f"{bad[0]} grammar is recursive ({' -> '.join(bad[1])}); language comparison needs the regular case")
    states = 0
    for a, b, fa, fb in (("ebnf", "g4", EBNF, G4), ("ebnf", "atn", EBNF, GENP)):
        for start in ("tucan",):
            for nm, rules in (("ebnf", G.ebnf), ("g4", G.g4)):
                if start not in rules and nm in (a, b):
                    raise AnalysisError(f"start rule {start} vanished from {nm}")
            ok, wit, n, side = compare(G.det(a, start), G.det(b, start))
            states += n
            res.inst(f"{fa} vs {fb}", f"L_{a}({start}) == L_{b}({start})", "ok" if ok else "fail", detail=f"{n} product states")
            if not ok:
                acc = a if side == "left" else b
                rej = b if side == "left" else a
                res.fail(Finding("R-GRAM3", fb if b != "ebnf" else fa, start, f"L_{a}({start}) != L_{b}({start})",
                                 f"token string `{_show(wit)}` is accepted by the {acc} grammar and rejected by the {rej} grammar",
                                 extra={"witness": list(map(str, wit)), "accepted_by": acc}))
    for start in ("sum_formula_start", "tuples_start", "node_attributes_start"):
        if start in G.g4 and start in G.gen.rule_names:
            ok, wit, n, side = compare(G.det("g4", start), G.det("atn", start))
            states += n
            res.inst(f"{G4} vs {GENP}", f"L_g4({start}) == L_atn({start})", "ok" if ok else "fail", detail=f"{n} product states")
            if not ok:
                res.fail(Finding("R-GRAM3", GENP, start, f"L_g4({start}) != L_atn({start})",
                                 f"token string `{_show(wit)}` distinguishes tucan.g4 from the generated parser tables"))
    # EBNF has no EOF notion: the g4/ATN start rule must end in EOF (else trailing garbage is accepted)
    res.counts = {"product_states": states}
    res.trusted = ["ANTLR's ALL(*) engine recognises exactly the language of its ATN"]
    return res


def _lexer_model(G):
    """per token symbol: finite set of strings or the name of a char-level automaton"""
    return G.gen.lexer_rules()


@rule("R-LEX")
def r_lex(ctx) -> RuleResult:
    res = RuleResult("R-LEX", "lexer rules = grammar literals; GREATER_THAN_NINE agrees in EBNF, G4 and lexer ATN; maximal-munch lexing of every sentence returns its own token sequence")
    G = grammars(ctx)
    lex = G.gen.lexer_rules()
    # (a) literal sets
    ebnf_lits = literals_of(G.ebnf, "tucan") if "tucan" in G.ebnf else set()
    g4_lits = literals_of(G.g4, "tucan") if "tucan" in G.g4 else set()
    lex_lits = {next(iter(i["strings"])) for i in lex.values() if i["strings"] is not None and len(i["strings"]) == 1}
    res.inst(f"{EBNF} vs {G4}", f"literal sets equal ({len(ebnf_lits)})", "ok" if ebnf_lits == g4_lits else "fail")
    if ebnf_lits != g4_lits:
        d = sorted(ebnf_lits ^ g4_lits)
        res.fail(Finding("R-LEX", G4, "tucan", "literal set", f"literals differ between EBNF and G4: {d[:8]}"))
    res.inst(f"{G4} vs {GENL}", f"lexer literal rules = grammar literals ({len(lex_lits)})", "ok" if g4_lits == lex_lits else "fail")
    if g4_lits != lex_lits:
        d = sorted(g4_lits ^ lex_lits)
        res.fail(Finding("R-LEX", GENL, "serializedATN", "literal set", f"generated lexer's literal rules differ from tucan.g4's literals: {d[:8]}"))
    # the name tables the parser prints/uses must agree with what the lexer ATN really matches
    for tt, info in sorted(lex.items()):
        if info["strings"] is not None and len(info["strings"]) == 1:
            s = next(iter(info["strings"]))
            for tbl, f in ((G.gen.p_literal_names, GENP), (G.gen.l_literal_names, GENL)):
                want = f"'{s}'"
                got = tbl[tt] if tt < len(tbl) else None
                if got != want:
                    res.fail(Finding("R-LEX", f, "literalNames", f"literalNames[{tt}]",
                                     f"table says {got} but the lexer ATN matches {want} for token type {tt}"))
    res.inst(GENL, f"literalNames tables agree with the lexer ATN ({len(lex)} token types)", "ok" if not res.findings else "fail")
    # (b) non-literal lexer rules, char-level equivalence EBNF == G4 == lexer ATN
    for tt, info in sorted(lex.items()):
        if info["strings"] is not None and len(info["strings"]) == 1:
            continue
        name = info["name"]
        nfa, a, b = info["nfa"]
        dl = Det(nfa, a, b)
        for nm, rules, f in (("ebnf", G.ebnf, EBNF), ("g4", G.g4, G4)):
            if name not in rules:
                res.inst(f, f"lexer rule {name}", "fail")
                res.fail(Finding("R-LEX", f, name, f"lexer rule {name}", f"token rule {name} of the generated lexer has no definition in {f}"))
                continue
            n2 = NFA()
            x, y = build(n2, rules[name], rules, (), charlevel=True)
            ok, wit, n, side = compare(Det(n2, x, y), dl)
            res.inst(f"{f} vs {GENL}", f"L_char({name}) equal", "ok" if ok else "fail")
            if not ok:
                res.fail(Finding("R-LEX", f, name, f"lexer rule {name}",
                                 f"character string `{''.join(wit)}` is matched by {'the grammar file' if side == 'left' else 'the generated lexer'} only"))
    # upper-case rules of the grammar files that the lexer does not know
    for nm, rules, lexset, f in (("ebnf", G.ebnf, G.ebnf_lex, EBNF), ("g4", G.g4, G.g4_lex, G4)):
        known = {i["name"] for i in lex.values()}
        for r in sorted(lexset - known):
            res.fail(Finding("R-LEX", f, r, f"lexer rule {r}", "token rule is not in the generated lexer"))
    # (c) maximal munch
    _munch(ctx, G, lex, res)
    res.trusted = ["ANTLR lexer = maximal munch over its rules, ties to the earlier rule"]
    return res


def _munch(ctx, G, lex, res: RuleResult):
    """For every sentence w of L_tok(tucan), lexing concat(w) by maximal munch
    gives w back.  Decided on the sentence DFA: for every edge  S --a--> T  and
    every lexer rule R, R must not accept  s + y  with s a text of a and y a
    non-empty prefix of the characters that can follow in state T (look-ahead =
    longest literal + 1 characters; automaton tokens are followed symbolically)."""
    if G.check_acyclic():
        return
    D = G.det("g4", "tucan")
    rdet: dict = {}          # terminal symbol -> char-level Det
    texts: dict = {}         # terminal symbol -> literal text or None
    for tt, info in lex.items():
        ss = info["strings"]
        nfa, a, b = info["nfa"]
        if ss is not None and len(ss) == 1:
            sym = next(iter(ss))
            texts[sym] = sym
        else:
            sym = info["name"]
            texts[sym] = None
        if sym in rdet:
            res.fail(Finding("R-LEX", GENL, "serializedATN", f"lexer rules for {sym!r}", "two lexer rules match the same text"))
        rdet[sym] = Det(nfa, a, b)
    # token texts must be pairwise disjoint (else rule priority decides the token type)
    for sym, t in texts.items():
        if t is None:
            continue
        for other, d in rdet.items():
            if other != sym and d.accepts(t):
                res.fail(Finding("R-LEX", G4, other, f"token {other} vs literal {t!r}",
                                 f"text {t!r} is matched by two lexer rules; priority, not the grammar, decides its token type"))
    def after(a_sym, R):
        """states of R's automaton after reading some complete text of token a"""
        if texts[a_sym] is not None:
            S = R.start
            for ch in texts[a_sym]:
                S = R.moves(S).get(ch, 0)
                if not S:
                    return []
            return [S]
        A = rdet[a_sym]
        seen, work, out = {(A.start, R.start)}, [(A.start, R.start)], []
        while work:
            x, y = work.pop()
            if A.accepting(x):
                out.append(y)
            for ch, x2 in A.moves(x).items():
                y2 = R.moves(y).get(ch, 0)
                if y2 and (x2, y2) not in seen:
                    seen.add((x2, y2))
                    work.append((x2, y2))
        return out

    def longer(R, r_state, T):
        """can R, continuing from r_state, accept after reading a non-empty prefix of what may follow
        in sentence-DFA state T?  joint walk, memoised on (R state, DFA state) at token boundaries"""
        seen = set()
        work = [(r_state, T, "")]
        while work:
            rs, S, y = work.pop()
            if (rs, S) in seen:
                continue
            seen.add((rs, S))
            for sym, S2 in D.moves(S).items():
                if sym not in rdet:
                    raise AnalysisError(f"grammar terminal {sym!r} has no lexer rule")
                if texts[sym] is not None:
                    cur, yy = rs, y
                    for ch in texts[sym]:
                        cur = R.moves(cur).get(ch, 0)
                        yy += ch
                        if not cur:
                            break
                        if R.accepting(cur):
                            return yy
                    if cur:
                        work.append((cur, S2, yy))
                else:
                    B = rdet[sym]
                    seen2 = set()
                    w2 = [(rs, B.start, y)]
                    while w2:
                        c, b, yy = w2.pop()
                        if (c, b) in seen2:
                            continue
                        seen2.add((c, b))
                        if b != B.start and R.accepting(c):
                            return yy
                        if B.accepting(b):
                            work.append((c, S2, yy))
                        for ch, b2 in B.moves(b).items():
                            c2 = R.moves(c).get(ch, 0)
                            if c2:
                                w2.append((c2, b2, yy + ch))
        return None

    after_cache: dict = {}
    pairs = 0
    conflicts = []
    states = D.reachable_states()
    seen_edges = set()
    for S in states:
        for a, T in D.moves(S).items():
            if (a, T) in seen_edges:
                continue
            seen_edges.add((a, T))
            pairs += 1
            if a not in rdet:
                raise AnalysisError(f"grammar terminal {a!r} has no lexer rule")
            if a not in after_cache:
                after_cache[a] = [(r, R, st) for r, R in rdet.items() for st in [after(a, R)] if st]
            for r, R, sts in after_cache[a]:
                for st in sts:
                    y = longer(R, st, T)
                    if y:
                        conflicts.append((a, r, y))
                        break
    res.inst(G4, f"maximal munch over {pairs} (token, follow-state) edges of the sentence DFA ({len(states)} states)",
             "ok" if not conflicts else "fail")
    res.counts["munch_edges"] = pairs
    shown = set()
    for a, r, y in conflicts:
        if (a, r) in shown or len(shown) >= 5:
            continue
        shown.add((a, r))
        res.fail(Finding("R-LEX", G4, "tucan", f"token {a!r} followed by {y!r}",
                         f"maximal munch reads a longer token {r!r} where a sentence has {a!r} followed by {y!r}: "
                         "the scannerless EBNF reading and the lexer+parser reading differ"))


@rule("R-GENCODE")
def r_gencode(ctx) -> RuleResult:
    """generated rule methods follow their ATN: `self.state = N; self.match(T)` /
    `self.state = N; self.<rule>()` must be a transition of state N"""
    from antlr4.atn.Transition import AtomTransition, RuleTransition, SetTransition
    res = RuleResult("R-GENCODE", "every `self.state = N; self.match(T)` / `self.<rule>()` in a generated rule method is an ATN transition of state N")
    G = grammars(ctx)
    gen = G.gen
    cls = next((n for n in gen.ptree.body if isinstance(n, ast.ClassDef) and n.name == "tucanParser"), None)
    if cls is None:
        raise AnalysisError("class tucanParser vanished")
    consts = {}
    for st in cls.body:
        if isinstance(st, ast.Assign) and isinstance(st.targets[0], ast.Name) and isinstance(st.value, ast.Constant):
            consts[st.targets[0].id] = st.value.value
    consts["EOF"] = -1
    atn = gen.patn
    checked = 0
    methods = 0
    def rname(n):   # ANTLR appends '_' to rule names that collide with Python keywords / builtins
        return n if n in gen.rule_names else (n[:-1] if n.endswith("_") and n[:-1] in gen.rule_names else None)
    for st in cls.body:
        if not (isinstance(st, ast.FunctionDef) and rname(st.name)):
            continue
        methods += 1
        ri = gen.rule_index(rname(st.name))
        cur = None
        bad = []
        for n in ast.walk(st):
            pass
        # linear scan of statements in source order
        stmts = sorted((x for x in ast.walk(st) if isinstance(x, (ast.Assign, ast.Expr))), key=lambda x: (x.lineno, x.col_offset))
        for x in stmts:
            if isinstance(x, ast.Assign) and norm(x.targets[0]) == "self.state" and isinstance(x.value, ast.Constant):
                cur = x.value.value
                continue
            if isinstance(x, ast.Expr) and isinstance(x.value, ast.Call) and isinstance(x.value.func, ast.Attribute) \
                    and isinstance(x.value.func.value, ast.Name) and x.value.func.value.id == "self":
                name = x.value.func.attr
                if name == "match" and cur is not None:
                    arg = x.value.args[0]
                    tname = arg.attr if isinstance(arg, ast.Attribute) else None
                    tt = consts.get(tname)
                    s = atn.states[cur]
                    ok = s is not None and s.ruleIndex == ri and any(
                        (isinstance(t, AtomTransition) and t.label_ == tt) for t in s.transitions)
                    checked += 1
                    if not ok:
                        bad.append((x, f"state {cur} has no transition on token {tname}"))
                    cur = None
                elif rname(name) and cur is not None:
                    name = rname(name)
                    s = atn.states[cur]
                    ok = s is not None and s.ruleIndex == ri and any(
                        isinstance(t, RuleTransition) and t.ruleIndex == gen.rule_index(name) for t in s.transitions)
                    checked += 1
                    if not ok:
                        bad.append((x, f"state {cur} has no rule transition to {name}"))
                    cur = None
        res.inst(f"tucanParser.{st.name}", "match/rule-call sequence follows ATN", "ok" if not bad else "fail")
        for x, msg in bad[:3]:
            res.fail(Finding("R-GENCODE", GENP, f"tucanParser.{st.name}", norm(x), msg, line=x.lineno))
    if methods < len(gen.rule_names):
        res.fail(Finding("R-GENCODE", GENP, "tucanParser", "rule methods", f"{len(gen.rule_names) - methods} ATN rules have no generated method"))
    res.counts = {"rule_methods": methods, "match_or_call_sites": checked}
    return res
