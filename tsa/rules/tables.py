"""Keys, tables, codec agreement: R-KEYS, R-ELEMTABLE, R-CODEC, R-ATTRREAD."""
from __future__ import annotations

import ast
from typing import Optional

from ..gram import Det, NFA, build, compare, grammars, literals_of
from ..model import AnalysisError, FuncInfo, NotConst, norm, short
from ..report import Finding, RuleResult
from . import rule
from .common import (assigned_names, closure, entry, ext_calls, kwarg, names_in, own_walk, params_of, single_def, sites,
                     try_const)
from .spec import IUPAC_SYMBOLS

SER = "tucan/serialization.py"
PAR = "tucan/parser/parser.py"
GU = "tucan/graph_utils.py"

# what the properties (C01, C06, C13) say identifies an atom
IDENTITY_KEYS = ("atomic_number", "mass", "rad")


def keyset(ctx, fi: FuncInfo, e: ast.expr, within: Optional[set[str]] = None, depth=0) -> Optional[set]:
    """finite set of constant values an expression can take: constant, parameter with constant call
    sites, loop / comprehension variable over a constant container, attribute of such (icd.key)"""
    if depth > 6:
        return None
    v = try_const(ctx, fi, e, default=_NO)
    if v is not _NO:
        try:
            hash(v)
            return {v}
        except TypeError:
            return None
    if isinstance(e, ast.Name):
        if e.id in params_of(fi.node):
            return ctx.cg.param_values(fi, e.id, within)
        # loop variable over a constant container
        for n in own_walk(fi.node):
            gens = []
            if isinstance(n, ast.For):
                gens = [(n.target, n.iter)]
            elif isinstance(n, (ast.ListComp, ast.SetComp, ast.DictComp, ast.GeneratorExp)):
                gens = [(g.target, g.iter) for g in n.generators]
            for tg, it in gens:
                if isinstance(it, ast.Name) and it.id not in params_of(fi.node) and single_def(fi.node, it.id) is not None:
                    it = single_def(fi.node, it.id)          # a view kept under a local name:  pairs = TABLE.items() ... for k, v in pairs
                    while isinstance(it, ast.Call) and isinstance(it.func, ast.Name) and it.func.id in ("tuple", "list", "sorted") and len(it.args) == 1 and not it.keywords:
                        it = it.args[0]                      # tuple(TABLE.items()): the same pairs
                if isinstance(tg, ast.Tuple) and tg.elts and isinstance(tg.elts[0], ast.Name) and tg.elts[0].id == e.id and isinstance(it, ast.Call) \
                        and isinstance(it.func, ast.Attribute) and it.func.attr == "items" and not it.args:
                    c = try_const(ctx, fi, it.func.value, default=_NO)
                    if isinstance(c, dict):
                        return set(c)
                if isinstance(tg, ast.Name) and tg.id == e.id and isinstance(it, ast.BinOp) and isinstance(it.op, ast.BitAnd):
                    for side in (it.left, it.right):
                        base = side.func.value if isinstance(side, ast.Call) and isinstance(side.func, ast.Attribute) and side.func.attr == "keys" else side
                        c = try_const(ctx, fi, base, default=_NO)
                        if isinstance(c, (dict, set, frozenset, list, tuple)):
                            return set(c)       # an intersection with a constant key set is a subset of it
                if isinstance(tg, ast.Name) and tg.id == e.id:
                    c = try_const(ctx, fi, it, default=_NO)
                    if c is not _NO:
                        try:
                            return set(c)
                        except TypeError:
                            return None
                    ks = keyset(ctx, fi, it, within, depth + 1)
                    return None
        d = single_def(fi.node, e.id)
        if d is not None:
            return keyset(ctx, fi, d, within, depth + 1)
    return None


_NO = object()


def invariant_helper_call(ctx):
    """the call in graph_from_molecule whose callee (closure) writes the invariant-code attribute"""
    fi = ctx.repo.func("tucan.graph_utils.graph_from_molecule")
    inv_key = ctx.repo.const("tucan.graph_attributes", "INVARIANT_CODE")
    for cs in sites(ctx, fi):
        if cs.kind != "tucan":
            continue
        fns = [cs.target] + [ctx.cg.funcs[q] for q in ctx.cg.closure([cs.target.fq])]
        for f in fns:
            for n in ast.walk(f.node):
                if (isinstance(n, ast.Name) and ctx.repo.try_const(f.module, n.id, None) == inv_key and n.id not in params_of(f.node)) or \
                        (isinstance(n, ast.Constant) and n.value == inv_key):
                    return cs
    return None


def serializer_writers(ctx) -> list:
    """the functions of the serializer that produce a section of the string: declared to return str (or named _write*)"""
    from ..model import annotation_name
    ser = entry(ctx, "serialize")
    out = []
    for f in closure(ctx, "serialize"):
        if f.fq == ser.fq or f.cls is not None:
            continue
        ret = annotation_name(f.node.returns) or ""
        if f.module.name == ser.module.name and (ret == "str" or f.name.startswith("_write")):
            out.append(f)
    return out


def invariant_definitions(ctx) -> tuple[FuncInfo, list[tuple[str, object]], ast.AST]:
    """[(key, default)] of the invariant code, resolved from graph_from_molecule"""
    fi = ctx.repo.func("tucan.graph_utils.graph_from_molecule")
    # find the call that computes the invariant code and the list passed to it
    target = invariant_helper_call(ctx)
    lst = None
    if target is None or len(target.node.args) < 2:
        # no helper call (the computation is written out in graph_from_molecule): the definitions are the list / tuple of
        # definition records (constructor calls of one tucan class with a constant attribute key first) found there or
        # at module level
        cands = [n for n in own_walk(fi.node) if isinstance(n, (ast.List, ast.Tuple))] + \
                [v for v in fi.module.assigns.values() if isinstance(v, (ast.List, ast.Tuple))]
        for c in cands:
            if c.elts and all(isinstance(e_, ast.Call) and e_.args and (ctx.repo.resolve_dotted(fi.module, e_.func) or (None,))[0] == "class"
                              and isinstance(try_const(ctx, fi, e_.args[0]), str) for e_ in c.elts):
                lst = c
                break
        if lst is None:
            raise AnalysisError("graph_from_molecule no longer calls the invariant-code helper and holds no list of definitions (anchor vanished)")
    else:
        lst = target.node.args[1]
    if isinstance(lst, ast.Name):
        lst = single_def(fi.node, lst.id) or lst          # a local name, or a module-level table (evaluated below)
    if lst is not None and not isinstance(lst, (ast.List, ast.Tuple)):
        # a table held elsewhere (module constant, built by a call): evaluate it
        from ..model import ConstInst
        val = try_const(ctx, fi, lst, default=_NO)
        if val is not _NO and isinstance(val, (list, tuple)) and val:
            defs = []
            for el in val:
                if isinstance(el, ConstInst):
                    vals = list(el.fields.values())
                elif isinstance(el, (tuple, list)):
                    vals = list(el)
                else:
                    raise AnalysisError(f"invariant-code definition {el!r} not understood")
                if not vals or not isinstance(vals[0], str):
                    raise AnalysisError(f"invariant-code definition {el!r} has no constant key")
                defs.append((vals[0], vals[1] if len(vals) > 1 else None))
            return fi, defs, lst
    if not isinstance(lst, (ast.List, ast.Tuple)):
        raise AnalysisError("invariant-code definitions are not a literal list")
    defs = []
    for el in lst.elts:
        if not (isinstance(el, ast.Call) and el.args):
            raise AnalysisError(f"invariant-code definition `{short(el)}` not understood")
        r = ctx.repo.resolve_dotted(fi.module, el.func)
        if not (r and r[0] == "class"):
            raise AnalysisError(f"invariant-code definition `{short(el)}` is not a definition record")
        key = try_const(ctx, fi, el.args[0], default=_NO)
        if key is _NO:
            raise AnalysisError(f"invariant-code key `{short(el.args[0])}` is not a constant")
        default = None
        darg = el.args[1] if len(el.args) > 1 else kwarg(el, "default_value")
        if darg is not None:
            default = try_const(ctx, fi, darg, default=_NO)
            if default is _NO:
                raise AnalysisError("invariant-code default is not a constant")
        defs.append((key, default))
    return fi, defs, lst


@rule("R-KEYS")
def r_keys(ctx) -> RuleResult:
    res = RuleResult("R-KEYS", "invariant code = (atomic_number, mass default 0, rad default 0); serializer writes exactly {mass, rad}; parser's key table is its inverse; grammar's node_property_key literals are its values; colouring starts from the invariant code")
    repo = ctx.repo
    fi, defs, node = invariant_definitions(ctx)
    keys = [k for k, _ in defs]
    ok = sorted(keys) == sorted(IDENTITY_KEYS) and len(keys) == len(set(keys))
    res.inst(fi.fq, f"invariant code keys {keys}", "ok" if ok else "fail")
    if not ok:
        extra = sorted(set(keys) - set(IDENTITY_KEYS))
        missing = sorted(set(IDENTITY_KEYS) - set(keys))
        msg = "invariant code is not exactly (element, isotope mass, radical)"
        if extra:
            msg += f": extra {extra} makes non-identity data influence the colouring"
        if missing:
            msg += f": missing {missing} lets atoms that differ in it share a colour"
        res.fail(Finding("R-KEYS", fi.module.rel, fi.qualname, norm(node), msg, line=node.lineno))
    for k, d in defs:
        if k == "atomic_number":
            good = d is None
            why = "atomic number must be required (no default)"
        else:
            good = d == 0 and d is not None and not isinstance(d, bool)
            why = f"default of {k} must be 0 (absent = explicit default), found {d!r}"
        res.inst(fi.fq, f"default of {k} = {d!r}", "ok" if good else "fail")
        if not good:
            res.fail(Finding("R-KEYS", fi.module.rel, fi.qualname, f"InvariantCodeDefinition({k})", why, line=node.lineno))
    # the helper really builds the tuple from these definitions and stores it under INVARIANT_CODE
    _check_invariant_helper(ctx, res)
    # serializer map
    ser = repo.module("tucan.serialization")
    from .common import attribute_spelling_tables
    (SNAME, smap), (DNAME, dmap0) = attribute_spelling_tables(ctx)
    if smap is None:
        smap = _NO
    if smap is _NO or not isinstance(smap, dict):
        raise AnalysisError("the serializer's table of attribute spellings is no longer a constant dict (anchor vanished)")
    want = set(IDENTITY_KEYS) - {"atomic_number"}
    ok = set(smap) == want
    res.inst("tucan.serialization", f"serializer attribute map keys {sorted(smap)}", "ok" if ok else "fail")
    if not ok:
        res.fail(Finding("R-KEYS", SER, SNAME, "keys " + str(sorted(smap)),
                         f"serializer writes attributes {sorted(smap)}; the identity attributes besides the element are {sorted(want)}",
                         line=ser.assign_nodes[SNAME].lineno))
    inj = len(set(smap.values())) == len(smap)
    res.inst("tucan.serialization", "serializer attribute map is injective", "ok" if inj else "fail")
    if not inj:
        res.fail(Finding("R-KEYS", SER, SNAME, str(smap), "two attributes share one spelling: the string cannot be decoded"))
    # parser map = inverse
    par = repo.module("tucan.parser.parser")
    dmap = dmap0 if dmap0 is not None else _NO
    if dmap is _NO:
        raise AnalysisError("the parser's table of attribute spellings is no longer a constant (anchor vanished)")
    inv = {v: k for k, v in smap.items()}
    ok = dmap == inv
    res.inst("tucan.parser.parser", f"parser key table {dmap} = inverse of serializer's", "ok" if ok else "fail")
    if not ok:
        res.fail(Finding("R-KEYS", PAR, DNAME, str(dmap), f"parser's key table is not the inverse of the serializer's ({inv})",
                         line=par.assign_nodes[DNAME].lineno))
    # grammar literals
    G = grammars(ctx)
    for nm, rules, f in (("ebnf", G.ebnf, "tucan/parser/tucan.ebnf"), ("g4", G.g4, "tucan/parser/tucan.g4")):
        if "node_property_key" not in rules:
            raise AnalysisError(f"rule node_property_key vanished from {f}")
        lits = literals_of(rules, "node_property_key")
        ok = lits == set(smap.values())
        res.inst(f, f"node_property_key literals {sorted(lits)}", "ok" if ok else "fail")
        if not ok:
            res.fail(Finding("R-KEYS", f, "node_property_key", str(sorted(lits)), f"grammar's attribute keys differ from what the serializer writes ({sorted(smap.values())})"))
    # colouring starts from the invariant code
    inv_key = repo.const("tucan.graph_attributes", "INVARIANT_CODE")
    part_key = repo.const("tucan.graph_attributes", "PARTITION")
    can = entry(ctx, "canonicalize")
    from .structural import _step_function
    step = _step_function(ctx)
    used = set()
    first = None
    for cs in sites(ctx, can):
        if cs.kind == "tucan" and cs.target.fq == step.fq:
            a = cs.node.args[1] if len(cs.node.args) > 1 else kwarg(cs.node, "attribute")
            v = try_const(ctx, can, a, default=_NO) if a is not None else _NO
            used.add(v)
            first = cs
    ok = used == {inv_key}
    res.inst(can.fq, f"initial colouring attribute {sorted(map(str, used))}", "ok" if ok else "fail")
    if not ok:
        n = first.node if first else can.node
        res.fail(Finding("R-KEYS", can.module.rel, can.qualname, norm(n), f"initial colouring does not start from the invariant code ({inv_key})", line=n.lineno))
    # the record written under INVARIANT_CODE is only ever produced by the helper
    return res


def _check_invariant_helper(ctx, res: RuleResult):
    """what flows into the invariant code of an atom: followed with the heap interpreter from the call in
    graph_from_molecule (atom records with one labelled value per attribute, the definitions as written at the call)"""
    from ..heap import HeapInterp, Obj, E, taint
    repo = ctx.repo
    inv_key = repo.const("tucan.graph_attributes", "INVARIANT_CODE")
    gfm = repo.func("tucan.graph_utils.graph_from_molecule")
    target = invariant_helper_call(ctx)
    inline = target is None or len(target.node.args) < 2
    fi = gfm if inline else target.target
    universe = ["element_symbol", "atomic_number", "partition", "x_coord", "y_coord", "z_coord", "chg", "mass", "rad"]
    J = HeapInterp(repo, sink_keys=())
    rec = Obj("rec")
    for k in universe:
        rec.fields[k] = Obj("scalar", frozenset({f"@field:{k}"}))
    atoms = Obj("map")
    atoms.elem = rec
    try:
        if inline:
            # the computation is written out in graph_from_molecule: follow that function itself (graph library calls are
            # opaque to the interpreter; the atom records are what matters)
            bonds_ = Obj("map")
            J.call(gfm, [atoms, bonds_])
        else:
            darg = target.node.args[1]
            if isinstance(darg, ast.Name):
                d0 = single_def(gfm.node, darg.id)
                if d0 is None and darg.id in params_of(gfm.node):
                    # a parameter of graph_from_molecule that no caller passes: its default
                    a_ = gfm.node.args
                    pos_ = [x.arg for x in a_.posonlyargs + a_.args]
                    dflt_ = dict(zip(pos_[len(pos_) - len(a_.defaults):], a_.defaults))
                    from .common import unpassed_defaults
                    if darg.id in dflt_ and not any(cs.kind == "tucan" and cs.target.fq == gfm.fq and (len(cs.node.args) > pos_.index(darg.id) or any(k.arg in (darg.id, None) for k in cs.node.keywords))
                                                    for g_ in ctx.cg.funcs.values() for cs in ctx.cg.sites.get(g_.fq, [])):
                        d0 = dflt_[darg.id]
                darg = d0 or darg
            defs = J.ev(darg, {}, E, gfm)
            J.call(fi, [atoms, defs])
    except AnalysisError as ex:
        raise AnalysisError(f"R-KEYS: cannot follow the invariant-code helper {fi.qualname}: {ex}")
    got = rec.fields.get(inv_key)
    if got is None:
        raise AnalysisError(f"invariant-code helper {fi.qualname}: no value stored under {inv_key!r} in the atom records")
    # the code of an atom is computed from that atom's own record in the same iteration: it does not come out of a container
    # that outlives the iteration and is filled inside the loop (a cache keyed by part of the attributes would hand one
    # atom the code of another)
    for lp in [n for n in own_walk(fi.node) if isinstance(n, ast.For)]:
        stores_ = []
        for n in ast.walk(lp):
            if isinstance(n, ast.Call) and isinstance(n.func, ast.Attribute) and n.func.attr == "update" and n.args and isinstance(n.args[0], ast.Dict):
                for k_, v_ in zip(n.args[0].keys, n.args[0].values):
                    if k_ is not None and try_const(ctx, fi, k_) == inv_key:
                        stores_.append(v_)
            if isinstance(n, ast.Assign) and isinstance(n.targets[0], ast.Subscript) and try_const(ctx, fi, n.targets[0].slice) == inv_key:
                stores_.append(n.value)
        if not stores_:
            continue
        iterated = {x.id for x in ast.walk(lp.iter) if isinstance(x, ast.Name)}
        target_names = {x.id for x in ast.walk(lp.target) if isinstance(x, ast.Name)}
        filled = set()
        for n in ast.walk(ast.Module(lp.body, [])):
            if isinstance(n, ast.Assign) and isinstance(n.targets[0], ast.Subscript) and isinstance(n.targets[0].value, ast.Name):
                filled.add(n.targets[0].value.id)
            if isinstance(n, ast.Call) and isinstance(n.func, ast.Attribute) and n.func.attr in ("append", "add", "setdefault", "update", "extend", "insert") and isinstance(n.func.value, ast.Name):
                filled.add(n.func.value.id)
        body_assigned = {x.id for x in ast.walk(ast.Module(lp.body, [])) if isinstance(x, ast.Name) and isinstance(x.ctx, ast.Store)}
        carried = {c for c in filled if c not in body_assigned and c not in iterated and c not in target_names}
        # backward slice of the stored value inside the loop body
        seen_n, work = set(), [x for v_ in stores_ for x in ast.walk(v_)]
        reads_carried = None
        while work:
            x = work.pop()
            if isinstance(x, ast.Subscript) and isinstance(x.value, ast.Name) and x.value.id in carried and isinstance(x.ctx, ast.Load):
                reads_carried = x
            if isinstance(x, ast.Call) and isinstance(x.func, ast.Attribute) and x.func.attr in ("get", "pop", "setdefault") and isinstance(x.func.value, ast.Name) and x.func.value.id in carried:
                reads_carried = x
            if isinstance(x, ast.Name) and isinstance(x.ctx, ast.Load) and x.id not in seen_n:
                seen_n.add(x.id)
                for d in ast.walk(ast.Module(lp.body, [])):
                    if isinstance(d, (ast.Assign, ast.AnnAssign, ast.NamedExpr)) and getattr(d, "value", None) is not None:
                        tgs = d.targets if isinstance(d, ast.Assign) else [d.target]
                        if any(isinstance(t_, ast.Name) and t_.id == x.id for t_ in tgs):
                            work += list(ast.walk(d.value))
        ok_own = reads_carried is None
        res.inst(fi.fq, "an atom's invariant code is computed from its own record within the iteration", "ok" if ok_own else "fail")
        if not ok_own:
            res.fail(Finding("R-KEYS", fi.module.rel, fi.qualname, norm(reads_carried),
                             f"the invariant code stored for an atom is read from `{short(reads_carried)}`, a container filled across iterations: "
                             "an atom can receive the code computed from another atom's attributes", line=reads_carried.lineno))
    labels = {x[len("@field:"):] for x in taint(got) if isinstance(x, str) and x.startswith("@field:")}
    want = set(IDENTITY_KEYS)
    if labels >= set(universe):
        raise AnalysisError(f"R-KEYS: cannot resolve which attributes {fi.qualname} reads for the invariant code (the definitions are not followed)")
    ok = labels == want
    res.inst(fi.fq, f"invariant code is computed from the attributes {sorted(labels)}", "ok" if ok else "fail",
             detail="followed from the call in graph_from_molecule with one labelled value per attribute")
    if not ok:
        extra, missing = sorted(labels - want), sorted(want - labels)
        why = (f"extra {extra}" if extra else "") + (" " if extra and missing else "") + (f"missing {missing}" if missing else "")
        res.fail(Finding("R-KEYS", fi.module.rel, fi.qualname, f"invariant code <- {sorted(labels)}",
                         f"invariant code is not built from exactly the defined keys ({why})", line=fi.node.lineno))


# --------------------------------------------------------------------------- R-ELEMTABLE


_RESPELL = {"capitalize", "title", "upper", "lower", "casefold", "swapcase", "replace", "translate", "get", "join", "format"}
_AS_WRITTEN = {"strip", "rstrip", "lstrip", "removeprefix", "removesuffix"}


def _symbol_kept_as_written(ctx) -> list:
    """for every place where a molfile reader stores an atom's element symbol: (function, origin tags, expression); tags:
    'raw' text of the file (possibly stripped / sliced), 'const' a literal, 'respelled' result of a case-changing method or a
    table look-up, 'unknown' anything else"""
    from .readers import reader_entries
    es = ctx.repo.const("tucan.graph_attributes", "ELEMENT_SYMBOL")
    out = []

    def tags_of(fi, e, depth, seen):
        if depth > 6:
            return {"unknown"}
        if isinstance(e, ast.Constant):
            return {"const"}
        if isinstance(e, ast.NamedExpr):
            return tags_of(fi, e.value, depth, seen)
        if isinstance(e, ast.IfExp):
            return tags_of(fi, e.body, depth, seen) | tags_of(fi, e.orelse, depth, seen)
        if isinstance(e, ast.Subscript):
            return {"raw"} if "respelled" not in (t := tags_of(fi, e.value, depth, seen)) and "unknown" not in t else t
        if isinstance(e, ast.Name):
            if (fi.fq, e.id) in seen:
                return set()
            seen = seen | {(fi.fq, e.id)}
            t = set()
            if e.id in params_of(fi.node):
                t.add("raw")
            for tgt in [n for n in own_walk(fi.node) if isinstance(n, (ast.Assign, ast.AnnAssign, ast.NamedExpr, ast.For, ast.AugAssign))]:
                if isinstance(tgt, ast.NamedExpr):
                    if isinstance(tgt.target, ast.Name) and tgt.target.id == e.id:
                        t |= tags_of(fi, tgt.value, depth, seen)
                    continue
                if isinstance(tgt, ast.For):
                    if e.id in names_in(tgt.target):
                        t.add("raw")
                    continue
                targets = tgt.targets if isinstance(tgt, ast.Assign) else [tgt.target]
                val = tgt.value
                for tg in targets:
                    if isinstance(tg, ast.Name) and tg.id == e.id and val is not None:
                        t |= tags_of(fi, val, depth, seen) if not isinstance(tgt, ast.AugAssign) else {"unknown"}
                    elif isinstance(tg, (ast.Tuple, ast.List)) and any(isinstance(x, ast.Name) and x.id == e.id for x in tg.elts):
                        pos = [i for i, x in enumerate(tg.elts) if isinstance(x, ast.Name) and x.id == e.id][0]
                        if isinstance(val, (ast.Tuple, ast.List)) and len(val.elts) == len(tg.elts):
                            t |= tags_of(fi, val.elts[pos], depth, seen)
                        elif isinstance(val, ast.Call):
                            cs = ctx.cg.resolve_call(fi, val, ctx.cg.local_types(fi), set(params_of(fi.node)))
                            if cs.kind == "tucan":
                                for r in own_walk(cs.target.node):
                                    if isinstance(r, ast.Return) and isinstance(r.value, ast.Tuple) and len(r.value.elts) == len(tg.elts):
                                        t |= tags_of(cs.target, r.value.elts[pos], depth + 1, seen)
                                    elif isinstance(r, ast.Return):
                                        t.add("unknown")
                            else:
                                t.add("unknown")
                        else:
                            t.add("raw" if isinstance(val, (ast.Subscript, ast.Name)) else "unknown")
            return t or {"unknown"}
        if isinstance(e, ast.Call):
            if isinstance(e.func, ast.Attribute) and e.func.attr in _AS_WRITTEN:
                return tags_of(fi, e.func.value, depth, seen)
            if isinstance(e.func, ast.Attribute) and e.func.attr in _RESPELL:
                return {"respelled"}
            cs = ctx.cg.resolve_call(fi, e, ctx.cg.local_types(fi), set(params_of(fi.node)))
            if cs.kind == "tucan":
                t = set()
                for r in own_walk(cs.target.node):
                    if isinstance(r, ast.Return) and r.value is not None:
                        t |= tags_of(cs.target, r.value, depth + 1, seen)
                return t or {"unknown"}
            if isinstance(e.func, ast.Name) and e.func.id == "str" and e.args:
                return tags_of(fi, e.args[0], depth, seen)
            return {"unknown"}
        return {"unknown"}

    for ver, ent in reader_entries(ctx).items():
        clo = [ent] + [ctx.cg.funcs[q] for q in ctx.cg.closure([ent.fq])]
        for fi in clo:
            for n in own_walk(fi.node):
                if isinstance(n, ast.Dict):
                    for k, v in zip(n.keys, n.values):
                        if k is not None and try_const(ctx, fi, k) == es:
                            out.append((fi, tags_of(fi, v, 0, frozenset()), v))
                elif isinstance(n, ast.Assign) and len(n.targets) == 1 and isinstance(n.targets[0], ast.Subscript) and try_const(ctx, fi, n.targets[0].slice) == es:
                    out.append((fi, tags_of(fi, n.value, 0, frozenset()), n.value))
    if not out:
        raise AnalysisError("R-ELEMTABLE: no reader stores an element symbol (anchor vanished)")
    return out


@rule("R-ELEMTABLE")
def r_elemtable(ctx) -> RuleResult:
    res = RuleResult("R-ELEMTABLE", "element table = IUPAC H..Og with atomic number = position; grammar's formula language = Hill order over exactly these symbols")
    repo = ctx.repo
    ea = repo.module("tucan.element_attributes")
    syms = repo.try_const(ea, "element_symbols", _NO)
    attrs = repo.try_const(ea, "ELEMENT_ATTRS", _NO)
    # a table object of a class of its own: does it answer for keys it does not hold?
    tv = ea.assigns.get("ELEMENT_ATTRS")
    if isinstance(tv, ast.Call):
        rc = repo.resolve_dotted(ea, tv.func)
        if rc and rc[0] == "class":
            ci = rc[1]
            lenient = []
            for mname in ("__missing__", "__getitem__", "get", "__contains__"):
                mth = ci.methods.get(mname)
                if mth is None:
                    continue
                returns_value = [r for r in own_walk(mth.node) if isinstance(r, ast.Return) and r.value is not None
                                 and not (isinstance(r.value, ast.Call) and isinstance(r.value.func, ast.Attribute) and isinstance(r.value.func.value, ast.Call)
                                          and norm(r.value.func.value.func) == "super" and [norm(a) for a in r.value.args] == [p_ for p_ in params_of(mth.node)[1:]])]
                if returns_value:
                    lenient.append((mth, returns_value[0]))
            if lenient:
                # a lenient table is harmless when the readers store the table's own spelling, not the file's
                kept = _symbol_kept_as_written(ctx)
                undecided = [k for k in kept if k[1] - {"raw", "const"}]
                if undecided:
                    fi_, tags_, node_ = undecided[0]
                    raise AnalysisError(f"R-ELEMTABLE: the element table ({ci.name}.{lenient[0][0].name}) answers for spellings that are not among its keys, and "
                                        f"{fi_.qualname} stores a symbol that is re-spelled on the way (`{short(node_, 50)}`): whether every stored symbol is the table's own spelling is not decided")
            res.inst(ci.fq, f"the element table is a {ci.name}: look-ups answer only for keys it holds", "fail" if lenient else "ok")
            if lenient:
                mth, r0 = lenient[0]
                res.fail(Finding("R-ELEMTABLE", F0 if (F0 := "tucan/element_attributes.py") else "", f"{ci.name}.{mth.name}", norm(r0)[:100],
                                 f"the element table answers look-ups for spellings that are not among its keys ({ci.name}.{mth.name} returns a value of its own): readers and parser keep the symbol "
                                 "as it was written, so an atom can carry a symbol that is not the table's spelling of its element; its sum formula is then outside the grammar or names other elements",
                                 line=r0.lineno))
                return res
    if attrs is _NO or not isinstance(attrs, dict):
        raise AnalysisError("ELEMENT_ATTRS is no longer a constant table (anchor vanished)")
    an = repo.const("tucan.graph_attributes", "ATOMIC_NUMBER")
    F = "tucan/element_attributes.py"
    table = {}
    for s, d in attrs.items():
        if not isinstance(d, dict) or an not in d:
            res.fail(Finding("R-ELEMTABLE", F, "ELEMENT_ATTRS", f"entry {s!r}", "entry has no atomic number"))
            continue
        table[s] = d[an]
    want = {s: i + 1 for i, s in enumerate(IUPAC_SYMBOLS)}
    bad = sorted(set(table.items()) ^ set(want.items()))
    res.inst("tucan.element_attributes", f"ELEMENT_ATTRS: {len(table)} symbols ↦ atomic numbers", "ok" if not bad else "fail")
    if bad:
        res.fail(Finding("R-ELEMTABLE", F, "ELEMENT_ATTRS", f"symbol/number pairs {bad[:6]}",
                         f"element table differs from the periodic table at {bad[:6]}",
                         line=ea.assign_nodes.get("element_symbols", ea.assign_nodes["ELEMENT_ATTRS"]).lineno))
    inj = len(set(table.values())) == len(table)
    res.inst("tucan.element_attributes", "symbol ↔ atomic number is a bijection", "ok" if inj else "fail")
    if not inj:
        res.fail(Finding("R-ELEMTABLE", F, "ELEMENT_ATTRS", "atomic numbers", "two symbols share an atomic number"))
    # grammar: L(sum_formula) == Hill language over the table's symbols
    G = grammars(ctx)
    symbols = sorted(table)
    cnt = ("opt", ("toks", [str(d) for d in range(2, 10)] + ["GREATER_THAN_NINE"]))

    def el(s):
        return ("cat", [("tok", s), cnt])
    rest_c = [s for s in symbols if s not in ("C", "H")]
    rest_nc = [s for s in symbols if s != "C"]
    hill = ("alt", [
        ("cat", [el("C"), ("opt", el("H"))] + [("opt", el(s)) for s in rest_c]),
        ("cat", [("opt", el(s)) for s in rest_nc]),
    ])
    n = NFA()
    a, b = build(n, hill)
    ref = Det(n, a, b)
    for nm, f in (("ebnf", "tucan/parser/tucan.ebnf"), ("g4", "tucan/parser/tucan.g4")):
        rules = G.ebnf if nm == "ebnf" else G.g4
        if "sum_formula" not in rules:
            raise AnalysisError(f"rule sum_formula vanished from {f}")
        ok, wit, states, side = compare(G.det(nm, "sum_formula"), ref)
        res.inst(f, "L(sum_formula) == Hill-order language over the element table", "ok" if ok else "fail", detail=f"{states} product states")
        if not ok:
            w = " ".join(wit) if wit else "<empty>"
            res.fail(Finding("R-ELEMTABLE", f, "sum_formula", "L(sum_formula)",
                             f"formula `{w}` is {'accepted by the grammar but is not' if side == 'left' else 'rejected by the grammar although it is'} a Hill-order formula over the element table"))
    res.trusted = ["frozen IUPAC symbol sequence H..Og (tsa/rules/spec.py)", "Python's sorted() order of the symbols = alphabetical order (ASCII, upper case first letter)"]
    return res


# --------------------------------------------------------------------------- R-CODEC


class Offset:
    """abstract value 'node index from the string + k' / 'graph label + k'"""

    def __init__(self, k: int, src: ast.AST):
        self.k, self.src = k, src


def _offset_eval(e: ast.expr, env: dict) -> Optional[Offset]:
    if isinstance(e, ast.Name):
        v = env.get(e.id)
        return v if isinstance(v, Offset) else None
    if isinstance(e, ast.BinOp) and isinstance(e.op, (ast.Add, ast.Sub)):
        l = _offset_eval(e.left, env)
        r = _offset_eval(e.right, env)
        if l is not None and isinstance(e.right, ast.Constant) and isinstance(e.right.value, int):
            return Offset(l.k + (e.right.value if isinstance(e.op, ast.Add) else -e.right.value), l.src)
        if r is not None and isinstance(e.left, ast.Constant) and isinstance(e.left.value, int) and isinstance(e.op, ast.Add):
            return Offset(r.k + e.left.value, r.src)
    if isinstance(e, ast.Call) and isinstance(e.func, ast.Name) and e.func.id == "int" and e.args:
        inner = e.args[0]
        if "node_index" in norm(inner) and "getText" in norm(inner):
            return Offset(0, e)
        if isinstance(inner, ast.Call) and isinstance(inner.func, ast.Attribute) and inner.func.attr == "getText" and isinstance(inner.func.value, ast.Name) \
                and env.get(inner.func.value.id) == "NODE_INDEX_CTX":
            return Offset(0, e)
        return _offset_eval(inner, env)
    if isinstance(e, ast.Name) and env.get(e.id) == "NODE_INDEX_CTX":
        return None
    if isinstance(e, ast.Call) and isinstance(e.func, ast.Attribute) and isinstance(e.func.value, ast.Name) and e.func.value.id == "self" and callable(env.get("__resolve__")) \
            and env.get("__depth__", 0) < 3:
        # a method of the listener that reads an index:  self._read(ctx.node_index(0))  with  def _read(self, c): return int(c.getText()) [± k]
        tgt = env["__resolve__"](e.func.attr)
        if tgt is not None:
            ps = [a.arg for a in tgt.node.args.args][1:]
            env2 = {"__resolve__": env["__resolve__"], "__depth__": env.get("__depth__", 0) + 1}
            for p_, a_ in zip(ps, e.args):
                t_ = norm(a_)
                if "node_index(" in t_ and "getText" not in t_ or (isinstance(a_, ast.Name) and env.get(a_.id) == "NODE_INDEX_CTX"):
                    env2[p_] = "NODE_INDEX_CTX"
                else:
                    v_ = _offset_eval(a_, env)
                    if v_ is not None:
                        env2[p_] = v_
            if len(env2) > 2:
                for n in ast.walk(tgt.node):
                    if isinstance(n, ast.Assign) and len(n.targets) == 1 and isinstance(n.targets[0], ast.Name):
                        v_ = _offset_eval(n.value, env2)
                        if v_ is not None:
                            env2[n.targets[0].id] = v_
                outs = [_offset_eval(r.value, env2) for r in ast.walk(tgt.node) if isinstance(r, ast.Return) and r.value is not None]
                if outs and all(o is not None for o in outs) and len({o.k for o in outs}) == 1:
                    return Offset(outs[0].k, e)
    return None


@rule("R-CODEC")
def r_codec(ctx) -> RuleResult:
    res = RuleResult("R-CODEC", "serializer and parser agree: emitted index = label+1, parsed label = index-1; final numbering sorted by atomic number first, parser stable-sorts atoms by atomic number; nothing is filtered out of the string")
    repo = ctx.repo
    an = repo.const("tucan.graph_attributes", "ATOMIC_NUMBER")
    # ---- parser: index - 1
    lis = None
    par = repo.module("tucan.parser.parser")
    for ci in par.classes.values():
        if any(b.endswith("tucanListener") for b in repo.base_names(ci)):
            lis = ci
    if lis is None:
        raise AnalysisError("listener implementation vanished")
    n_par = 0

    def run_method(mfi: FuncInfo, env: dict, depth=0):
        nonlocal n_par
        if depth > 4:
            return
        # names that stand for one node_index context:  c = ctx.node_index(0)  /  for c in ctx.node_index()
        for n in ast.walk(mfi.node):
            tg = it = None
            if isinstance(n, ast.Assign) and len(n.targets) == 1 and isinstance(n.targets[0], ast.Name):
                tg, it = n.targets[0].id, n.value
            elif isinstance(n, ast.For) and isinstance(n.target, ast.Name):
                tg, it = n.target.id, n.iter
            elif isinstance(n, ast.comprehension) and isinstance(n.target, ast.Name):
                tg, it = n.target.id, n.iter
            if tg and isinstance(it, ast.Call) and isinstance(it.func, ast.Attribute) and it.func.attr == "node_index":
                env[tg] = "NODE_INDEX_CTX"
        for n in own_walk(mfi.node):
            if isinstance(n, ast.Assign) and len(n.targets) == 1 and isinstance(n.targets[0], ast.Name):
                v = _offset_eval(n.value, env)
                if v is not None:
                    env[n.targets[0].id] = v
            elif isinstance(n, ast.Assign) and len(n.targets) == 1 and isinstance(n.targets[0], (ast.Tuple, ast.List)):
                tgs = n.targets[0].elts
                if isinstance(n.value, (ast.GeneratorExp, ast.ListComp)):
                    v = _offset_eval(n.value.elt, env)
                    if v is not None:
                        for t in tgs:
                            if isinstance(t, ast.Name):
                                env[t.id] = v
                elif isinstance(n.value, (ast.Tuple, ast.List)) and len(n.value.elts) == len(tgs):
                    for t, x in zip(tgs, n.value.elts):
                        v = _offset_eval(x, env)
                        if v is not None and isinstance(t, ast.Name):
                            env[t.id] = v
        for n in own_walk(mfi.node):
            if not isinstance(n, ast.Call):
                continue
            if isinstance(n.func, ast.Attribute) and isinstance(n.func.value, ast.Name) and n.func.value.id == "self":
                tgt = repo.mro_method(lis, n.func.attr)
                if tgt is not None:
                    tp = params_of(tgt.node)[1:]
                    env2 = {}
                    for p, a in zip(tp, n.args):
                        v = _offset_eval(a, env)
                        if v is not None:
                            env2[p] = v
                    if env2:
                        run_method(tgt, env2, depth + 1)
                    continue
            # sinks: self._bonds.append((a, b)) ; self._node_attributes.setdefault(k, {}) / [k]
            if isinstance(n.func, ast.Attribute) and n.func.attr in ("append", "add", "setdefault", "extend") and norm(n.func.value).startswith("self."):
                args = n.args[0].elts if (n.args and isinstance(n.args[0], ast.Tuple)) else n.args[:1]
                for a in args:
                    v = _offset_eval(a, env)
                    if v is not None:
                        n_par += 1
                        ok = v.k == -1
                        res.inst(mfi.fq, short(n), "ok" if ok else "fail", detail=f"stored label = index{v.k:+d}")
                        if not ok:
                            res.fail(Finding("R-CODEC", mfi.module.rel, mfi.qualname, norm(n),
                                             f"label stored as string index{v.k:+d}; the serializer writes label+1, so the parser must store index-1", line=n.lineno))
        for n in own_walk(mfi.node):
            tg_ = next((t_ for t_ in n.targets if isinstance(t_, ast.Subscript) and norm(t_.value).startswith("self.")), None) if isinstance(n, ast.Assign) else None
            if tg_ is not None:          # also the store in a chained assignment  x = self.table[k] = {}
                v = _offset_eval(tg_.slice, env)
                if v is not None:
                    n_par += 1
                    ok = v.k == -1
                    res.inst(mfi.fq, short(n), "ok" if ok else "fail", detail=f"stored label = index{v.k:+d}")
                    if not ok:
                        res.fail(Finding("R-CODEC", mfi.module.rel, mfi.qualname, norm(n), f"label stored as string index{v.k:+d}", line=n.lineno))
    for name, mfi in lis.methods.items():
        if name.startswith(("enter", "exit")):
            run_method(mfi, {"__resolve__": lambda nm: repo.mro_method(lis, nm)})
    if n_par < 3:
        raise AnalysisError(f"R-CODEC: found only {n_par} parsed-index store sites in the listener (expected bond endpoints and attribute index)")
    # ---- parser: stable sort by atomic number, index = position
    tg = repo.mro_method(lis, "to_graph")
    if tg is None:
        raise AnalysisError("listener.to_graph vanished")
    # the sort may sit in to_graph or in a helper it calls
    tg_clo = [tg] + [ctx.cg.funcs[q] for q in ctx.cg.closure([tg.fq]) if ctx.cg.funcs[q].cls is tg.cls and q != tg.fq]
    sorts = [(f, n) for f in tg_clo for n in own_walk(f.node) if isinstance(n, ast.Call) and
             ((isinstance(n.func, ast.Name) and n.func.id == "sorted") or (isinstance(n.func, ast.Attribute) and n.func.attr == "sort"))]

    def key_is_atomic_number(f, key):
        """True / False / None (cannot tell)"""
        if key is None:
            return False
        if isinstance(key, ast.Lambda):
            return isinstance(key.body, ast.Subscript) and isinstance(key.body.value, ast.Name) and key.args.args and \
                key.body.value.id == key.args.args[0].arg and try_const(ctx, f, key.body.slice) == an
        if isinstance(key, ast.Call) and norm(key.func).split(".")[-1] == "itemgetter":
            return len(key.args) == 1 and try_const(ctx, f, key.args[0]) == an
        if isinstance(key, (ast.Name, ast.Attribute)):
            r = ctx.repo.resolve_dotted(f.module, key) if not (isinstance(key, ast.Attribute) and isinstance(key.value, ast.Name) and key.value.id == "self") else \
                (("func", repo.mro_method(f.cls, key.attr)) if f.cls is not None and repo.mro_method(f.cls, key.attr) is not None else None)
            if r and r[0] == "func":
                kf = r[1]
                ps = [p for p in params_of(kf.node) if p not in ("self", "cls")]
                rets = [x for x in own_walk(kf.node) if isinstance(x, ast.Return)]
                if len(ps) == 1 and len(rets) == 1 and isinstance(rets[0].value, ast.Subscript) and isinstance(rets[0].value.value, ast.Name) \
                        and rets[0].value.value.id == ps[0]:
                    return try_const(ctx, kf, rets[0].value.slice) == an
                return None
            if isinstance(key, ast.Name):
                d = single_def(f.node, key.id)
                if d is not None:
                    return key_is_atomic_number(f, d)
        return None
    ok = False
    why = "no sort of the atoms by atomic number"
    node = tg.node
    unknown = None
    for f, s_ in sorts:
        key = kwarg(s_, "key")
        rev = kwarg(s_, "reverse")
        node = s_
        if rev is not None and not (isinstance(rev, ast.Constant) and rev.value in (False, None)):
            why = "atoms sorted in reverse"
            continue
        verdict = key_is_atomic_number(f, key)
        if verdict is True:
            ok, why = True, "stable sort on atomic number only"
            break
        if verdict is None:
            unknown = key
        why = f"sort key `{short(key) if key is not None else None}` is not the atomic number alone (ties must keep formula order)"
    if not ok and unknown is not None:
        raise AnalysisError(f"R-CODEC: cannot tell what the sort key `{short(unknown)}` of the parser's atom numbering reads")
    if not ok and not sorts:
        elsewhere = [n for m_ in lis.methods.values() for n in own_walk(m_.node) if isinstance(n, ast.Call) and
                     ((isinstance(n.func, ast.Name) and n.func.id in ("sorted", "insort")) or (isinstance(n.func, ast.Attribute) and n.func.attr in ("sort", "insort")))]
        if elsewhere:
            raise AnalysisError("R-CODEC: the parser sorts atoms outside to_graph; this rule reads the numbering only there")
    res.inst(tg.fq, short(node), "ok" if ok else "fail", detail=why)
    if not ok:
        res.fail(Finding("R-CODEC", tg.module.rel, tg.qualname, norm(node), f"parser numbers atoms differently from the serializer: {why}", line=getattr(node, "lineno", None)))
    # ---- serializer: writers receive the graph numbered by sort_molecule_by_attribute(.., ATOMIC_NUMBER)
    ser = entry(ctx, "serialize")
    sortf = ctx.repo.find_func("tucan.graph_utils.sort_molecule_by_attribute")
    wfq = {f.fq for f in serializer_writers(ctx)}
    writer_calls = [cs for cs in sites(ctx, ser) if cs.kind == "tucan" and cs.target.fq in wfq and cs.node.args]
    if not writer_calls:
        # the writers may be called by a helper of the serializer (one that assembles the sections)
        best = None
        for q in ctx.cg.closure([ser.fq]):
            f_ = ctx.cg.funcs[q]
            if f_.module.name != ser.module.name or q in wfq and not any(cs.kind == "tucan" and cs.target.fq in wfq and cs.target.fq != q for cs in sites(ctx, f_)):
                continue
            wc_ = [cs for cs in sites(ctx, f_) if cs.kind == "tucan" and cs.target.fq in wfq and cs.target.fq != q and cs.node.args]
            if len(wc_) >= 2 and (best is None or len(wc_) > len(best[1])):
                best = (f_, wc_)
        if best is not None:
            ser, writer_calls = best
    if not writer_calls:
        # writers reached through a table / loop variable: the argument of every call of a non-tucan callee in the serializer
        # that receives a local graph stands for them
        reach = [q for q in ctx.cg.closure([ser.fq]) if q in wfq]
        if not reach:
            raise AnalysisError("serialize_molecule calls no _write_* helper (anchor vanished)")
        writer_calls = [cs for cs in sites(ctx, ser) if cs.kind in ("unknown", "param", "method") and cs.node.args and isinstance(cs.node.args[0], ast.Name)
                        and isinstance(cs.node.func, ast.Name)]
        if not writer_calls:
            raise AnalysisError("R-CODEC: cannot see with which graph the serializer's writers are called")
    from .common import only_for_empty_graph
    for cs in writer_calls:
        arg = cs.node.args[0] if cs.node.args else None
        if isinstance(arg, ast.Name) and arg.id in params_of(cs.caller.node) and only_for_empty_graph(cs.caller.node, cs.node, [arg.id]) is not None:
            res.inst(cs.caller.fq, short(cs.node), "ok", detail="only for the molecule without atoms: nothing to number")
            continue
        src = single_def(ser.node, arg.id) if isinstance(arg, ast.Name) else arg
        good = False
        why = "graph passed to the writer is not the one numbered by atomic number"
        if isinstance(src, ast.Call):
            c2 = ctx.cg.resolve_call(ser, src, ctx.cg.local_types(ser), set(params_of(ser.node)))
            if c2.kind == "tucan" and sortf is not None and c2.target.fq == sortf.fq:
                a = src.args[1] if len(src.args) > 1 else kwarg(src, "attribute")
                if a is not None and try_const(ctx, ser, a) == an:
                    good, why = True, "numbered by sort on (atomic number, ...)"
                else:
                    why = f"final numbering sorts by `{short(a) if a is not None else '?'}`, not by atomic number"
        res.inst(ser.fq, short(cs.node), "ok" if good else "fail", detail=why)
        if not good:
            res.fail(Finding("R-CODEC", ser.module.rel, ser.qualname, norm(cs.node), why + ": the formula no longer identifies each index's element", line=cs.node.lineno))
    # sort_molecule_by_attribute: sorted((key(atom), atom)) -> dict(zip(labels, range(n)))
    if sortf is not None:
        _check_sort_relabel(ctx, sortf, res)
    # ---- serializer: label + 1 at every emitted index; no filtering
    _check_emitters(ctx, res)
    res.trusted = ["Python's sorted() is stable"]
    return res


def _check_sort_relabel(ctx, fi: FuncInfo, res: RuleResult):
    fn = fi.node
    rel = [cs for cs in sites(ctx, fi) if cs.kind == "ext" and cs.target == "networkx.relabel_nodes"]
    if len(rel) != 1:
        # the renumbering is applied some other way (e.g. the graph is rebuilt): R-REBUILD decides whether nodes and
        # bonds are renamed consistently; here only the sorted order of the (key, label) pairs is checked
        class _N:   # stand-in for the site reported
            node = fn
        rel = [_N]
    # direction of the renaming: old label -> its rank (the k-th label in sorted order becomes k), not rank -> label
    if hasattr(rel[0], "kind") and len(rel[0].node.args) >= 2:
        mp = rel[0].node.args[1]
        if isinstance(mp, ast.Name):
            mp = single_def(fn, mp.id) or mp
        if isinstance(mp, ast.Call) and isinstance(mp.func, ast.Name) and mp.func.id == "dict" and len(mp.args) == 1 and isinstance(mp.args[0], ast.Call) \
                and isinstance(mp.args[0].func, ast.Name) and mp.args[0].func.id == "zip" and len(mp.args[0].args) == 2:
            def is_ranks(e_):
                while isinstance(e_, ast.Call) and isinstance(e_.func, ast.Name) and e_.func.id in ("list", "tuple") and e_.args:
                    e_ = e_.args[0]
                return isinstance(e_, ast.Call) and norm(e_.func) in ("range", "count", "itertools.count")
            a_, b_ = mp.args[0].args
            if is_ranks(a_) != is_ranks(b_):
                good = is_ranks(b_)
                res.inst(fi.fq, f"renaming `{short(mp, 60)}` takes a label to its rank", "ok" if good else "fail")
                if not good:
                    res.fail(Finding("R-CODEC", fi.module.rel, fi.qualname, norm(mp),
                                     "the renaming maps rank -> label instead of label -> rank: relabel_nodes then gives atom k the label of the atom that ranks k-th (the inverse "
                                     "permutation), so the atoms are not numbered in sorted order", line=mp.lineno))
    srt = [n for n in own_walk(fn) if isinstance(n, ast.Call) and isinstance(n.func, ast.Name) and n.func.id == "sorted"]
    ok = False
    why = "no sorted(...) of (key, atom) pairs"
    for s in srt:
        rev = kwarg(s, "reverse")
        if rev is not None and not (isinstance(rev, ast.Constant) and rev.value in (False, None)):
            why = "sorted with reverse: direction changes"
            continue
        key = kwarg(s, "key")
        if key is not None:
            # sorted(<atoms>, key=K) with K(atom) = (attribute key, atom): the same total order as sorting the pairs
            kfn = None
            if isinstance(key, ast.Lambda):
                kparams, kret, kowner = [a.arg for a in key.args.args], key.body, fi
            else:
                cs_k = None
                if isinstance(key, ast.Name):
                    cand = f"{fi.qualname}.<locals>.{key.id}"
                    kfn = fi.module.functions.get(cand)
                    if kfn is None:
                        r_ = ctx.repo.resolve(fi.module, key.id)
                        kfn = r_[1] if r_ and r_[0] == "func" else None
                if kfn is None:
                    raise AnalysisError(f"R-CODEC: cannot resolve the sort key `{short(key)}` in {fi.qualname}")
                rets_ = [x for x in ast.walk(kfn.node) if isinstance(x, ast.Return) and x.value is not None]
                if len(rets_) != 1:
                    raise AnalysisError(f"R-CODEC: sort key function {kfn.qualname} has several returns")
                kparams, kret, kowner = params_of(kfn.node), rets_[0].value, kfn
            if len(kparams) != 1:
                raise AnalysisError(f"R-CODEC: sort key `{short(key)}` does not take exactly one atom")
            a_ = kparams[0]
            if isinstance(kret, ast.Tuple) and len(kret.elts) == 2 and isinstance(kret.elts[1], ast.Name) and kret.elts[1].id == a_ and isinstance(kret.elts[0], ast.Call) \
                    and a_ in {x.id for x in ast.walk(kret.elts[0]) if isinstance(x, ast.Name)}:
                cs2 = ctx.cg.resolve_call(kowner, kret.elts[0], ctx.cg.local_types(kowner), set(params_of(kowner.node)))
                src_ = s.args[0]
                over_nodes = norm(src_) in (params_of(fn)[0], f"{params_of(fn)[0]}.nodes", f"list({params_of(fn)[0]})", f"{params_of(fn)[0]}.nodes()")
                if cs2.kind == "tucan" and over_nodes:
                    ok, why = True, f"atoms sorted by key (key({a_}), {a_}), key = {cs2.target.name}"
                    break
                raise AnalysisError(f"R-CODEC: `{short(s)}` sorts something other than the atoms of the graph, or by a key this rule cannot follow")
            why = f"sort key `{short(kret)}` does not end with the atom's label: atoms with equal keys keep their listing order"
            continue
        inner = s.args[0]
        if isinstance(inner, ast.Name):
            inner = single_def(fn, inner.id) or inner
        if isinstance(inner, (ast.ListComp, ast.GeneratorExp)) and isinstance(inner.elt, ast.Tuple) and len(inner.elt.elts) == 2:
            keyexpr, atom = inner.elt.elts
            gen = inner.generators[0]
            if isinstance(gen.target, ast.Name) and norm(atom) == gen.target.id and not gen.ifs and isinstance(keyexpr, ast.Call):
                cs = ctx.cg.resolve_call(fi, keyexpr, ctx.cg.local_types(fi), set(params_of(fn)))
                if cs.kind == "tucan":
                    ok, why = True, f"sorted (key({gen.target.id}), {gen.target.id}) pairs, key = {cs.target.name}"
            elif isinstance(gen.target, ast.Tuple) and len(gen.target.elts) == 2 and all(isinstance(t_, ast.Name) for t_ in gen.target.elts) and not gen.ifs \
                    and isinstance(keyexpr, ast.Name) and isinstance(atom, ast.Name) and {keyexpr.id, atom.id} == {t_.id for t_ in gen.target.elts} \
                    and isinstance(gen.iter, ast.Call) and isinstance(gen.iter.func, ast.Name) and gen.iter.func.id == "zip" and len(gen.iter.args) == 2:
                # (key, atom) for atom, key in zip(<atoms>, <keys of all atoms>): the same pairs (that the two sequences are
                # aligned is R-FLOW-SERIAL's clause)
                t0 = gen.target.elts[0].id
                a_i = 0 if t0 == atom.id else 1
                nodes_e, keys_e = gen.iter.args[a_i], gen.iter.args[1 - a_i]
                p0 = params_of(fn)[0]
                if norm(nodes_e) in (p0, f"{p0}.nodes", f"list({p0})", f"{p0}.nodes()") and isinstance(keys_e, ast.Call):
                    cs = ctx.cg.resolve_call(fi, keys_e, ctx.cg.local_types(fi), set(params_of(fn)))
                    if cs.kind == "tucan":
                        ok, why = True, f"sorted (key, atom) pairs, keys of all atoms from {cs.target.name}"
    if not ok and srt and why == "no sorted(...) of (key, atom) pairs":
        raise AnalysisError(f"R-CODEC: `{short(srt[0], 70)}` in {fi.qualname}: cannot tell whether it sorts (attribute key, label) pairs")
    res.inst(fi.fq, "numbering = rank in sorted((attribute key, label))", "ok" if ok else "fail", detail=why)
    if not ok:
        res.fail(Finding("R-CODEC", fi.module.rel, fi.qualname, norm(rel[0].node), f"final numbering is not the sorted order of (attribute key, label): {why}", line=rel[0].node.lineno))


def _check_emitters(ctx, res: RuleResult):
    """in the string-writing functions of the serializer: every formatted node label is `label + 1`;
    iterations over edges / nodes are unfiltered (except: attribute present, no attribute at all)"""
    writers = serializer_writers(ctx)
    n_emit = 0
    LV: dict = {}
    param_labels: dict = {}
    seen_filters = set()
    for fi in writers + writers + writers:
        fn = fi.node
        label_vars = dict(param_labels.get(fi.fq, {}))      # name -> 'edge' (pair of labels) | 'label'
        LV[fi.fq] = label_vars
        walk2 = list(own_walk(fn)) + list(own_walk(fn))
        for n in walk2:
            gens = []
            if isinstance(n, ast.For):
                gens = [(n.target, n.iter, n)]
            elif isinstance(n, (ast.ListComp, ast.GeneratorExp, ast.SetComp, ast.DictComp)):
                gens = [(g.target, g.iter, n) for g in n.generators]
            for tg, it, owner in gens:
                src = _iter_source(fi, it)
                if src is None:
                    # items of a local dict that was filled with node labels as keys
                    base = it
                    while isinstance(base, ast.Call) and isinstance(base.func, ast.Name) and base.func.id in ("sorted", "list", "tuple") and base.args:
                        base = base.args[0]
                    if isinstance(base, ast.Call) and isinstance(base.func, ast.Attribute) and base.func.attr == "items" and isinstance(base.func.value, ast.Name):
                        dname = base.func.value.id
                        keyed = any(isinstance(x, ast.Assign) and isinstance(x.targets[0], ast.Subscript) and isinstance(x.targets[0].value, ast.Name)
                                    and x.targets[0].value.id == dname and isinstance(x.targets[0].slice, ast.Name) and label_vars.get(x.targets[0].slice.id) == "label"
                                    for x in own_walk(fn)) or \
                            any(isinstance(x, ast.Call) and isinstance(x.func, ast.Attribute) and x.func.attr == "setdefault" and isinstance(x.func.value, ast.Name) and x.func.value.id == dname
                                and x.args and isinstance(x.args[0], ast.Name) and label_vars.get(x.args[0].id) == "label" for x in own_walk(fn))
                        if keyed and isinstance(tg, ast.Tuple) and isinstance(tg.elts[0], ast.Name):
                            label_vars[tg.elts[0].id] = "label"
                    continue
                kind = src
                if kind == "edges":
                    if isinstance(tg, ast.Name):
                        label_vars[tg.id] = "edge"
                    elif isinstance(tg, ast.Tuple):
                        for e in tg.elts[:2]:
                            if isinstance(e, ast.Name):
                                label_vars[e.id] = "label"
                elif kind in ("nodes_data", "nodes"):
                    if isinstance(tg, ast.Tuple) and isinstance(tg.elts[0], ast.Name):
                        label_vars[tg.elts[0].id] = "label"
                    elif isinstance(tg, ast.Name) and kind == "nodes":
                        label_vars[tg.id] = "label"
                # filtering
                filt = []
                if isinstance(owner, ast.For):
                    def jumps_of(stmts):
                        """continue / break statements that belong to this loop (not to a loop nested in it)"""
                        for st_ in stmts:
                            if isinstance(st_, (ast.Continue, ast.Break)):
                                yield st_
                            elif isinstance(st_, (ast.For, ast.While, ast.FunctionDef)):
                                continue
                            else:
                                for fld in ("body", "orelse", "finalbody"):
                                    sub_ = getattr(st_, fld, None)
                                    if isinstance(sub_, list):
                                        yield from jumps_of([z for z in sub_ if isinstance(z, ast.stmt)])
                                for h in getattr(st_, "handlers", []) or []:
                                    yield from jumps_of(h.body)
                    filt += list(jumps_of(owner.body))
                else:
                    for g in owner.generators:
                        if g.iter is it:
                            filt += g.ifs
                for f in filt:
                    if id(f) in seen_filters:
                        continue
                    seen_filters.add(id(f))
                    okf = _accepted_filter(ctx, fi, f, owner, {k for k, v in label_vars.items()})
                    if okf is None:
                        raise AnalysisError(f"R-CODEC: cannot tell whether the filter `{short(f if not isinstance(f, ast.Continue) else (_guard_of(owner, f) or f))}` "
                                            f"in {fi.qualname} drops part of the molecule (iteration over {kind})")
                    res.inst(fi.fq, f"iteration over {kind}: filter `{short(f)}`", "ok" if okf else "fail")
                    if not okf:
                        res.fail(Finding("R-CODEC", fi.module.rel, fi.qualname, norm(f if not isinstance(f, (ast.Continue, ast.Break)) else _guard_of(owner, f) or f),
                                         f"part of the molecule is filtered out of the string (iteration over {kind})", line=getattr(f, "lineno", None)))
        # a label handed to another writer (one that formats a single atom / bond) is a label there
        for n in own_walk(fn):
            if isinstance(n, ast.Call):
                cs_ = ctx.cg.resolve_call(fi, n, ctx.cg.local_types(fi), set(params_of(fn)))
                if cs_.kind == "tucan" and cs_.target in writers and cs_.target is not fi:
                    ps_ = params_of(cs_.target.node)
                    for i_, a_ in enumerate(n.args):
                        if i_ < len(ps_) and isinstance(a_, ast.Name) and label_vars.get(a_.id) in ("label", "edge"):
                            param_labels.setdefault(cs_.target.fq, {})[ps_[i_]] = label_vars[a_.id]
    for fi in writers:
        fn = fi.node
        label_vars = LV[fi.fq]
        formatted = []
        for n in own_walk(fn):
            if isinstance(n, ast.FormattedValue):
                formatted.append(n.value)
            elif isinstance(n, ast.Call) and isinstance(n.func, ast.Attribute) and n.func.attr == "format" and isinstance(try_const(ctx, fi, n.func.value), str):
                formatted += list(n.args) + [k.value for k in n.keywords]
            elif isinstance(n, ast.BinOp) and isinstance(n.op, ast.Mod) and isinstance(try_const(ctx, fi, n.left), str):
                formatted += list(n.right.elts) if isinstance(n.right, ast.Tuple) else [n.right]
            elif isinstance(n, ast.Call) and isinstance(n.func, ast.Name) and n.func.id == "str" and len(n.args) == 1:
                formatted.append(n.args[0])
        for e in formatted:
            if True:
                base = e
                k = 0
                if isinstance(e, ast.BinOp) and isinstance(e.op, (ast.Add, ast.Sub)):
                    rv = e.right.value if isinstance(e.right, ast.Constant) else try_const(ctx, fi, e.right, default=None)      # a literal or a module-level constant
                    if isinstance(rv, int) and not isinstance(rv, bool):
                        base = e.left
                        k = rv if isinstance(e.op, ast.Add) else -rv
                is_label = (isinstance(base, ast.Name) and label_vars.get(base.id) == "label") or \
                           (isinstance(base, ast.Subscript) and isinstance(base.value, ast.Name) and label_vars.get(base.value.id) == "edge")
                if is_label:
                    n_emit += 1
                    ok = k == 1
                    res.inst(fi.fq, f"emitted index `{short(e)}`", "ok" if ok else "fail")
                    if not ok:
                        res.fail(Finding("R-CODEC", fi.module.rel, fi.qualname, norm(e), f"emitted index is label{k:+d}; the parser subtracts 1", line=e.lineno))
    if n_emit < 3:
        # second pass: a dict keyed by labels may be filled before the loop that formats it is reached in walk order
        raise AnalysisError(f"R-CODEC: found only {n_emit} emitted node indices in the serializer's writers (expected two bond endpoints and the attribute index)")
    res.counts["emitted_index_sites"] = n_emit


def _iter_source(fi: FuncInfo, it: ast.expr, depth=0) -> Optional[str]:
    """'edges' | 'nodes_data' | 'nodes' when the iterable is (a sorted/list copy of, or a comprehension over) the graph's edges / nodes"""
    if depth > 5:
        return None
    while isinstance(it, ast.Call) and isinstance(it.func, ast.Name) and it.func.id in ("sorted", "list", "tuple", "reversed", "set", "frozenset") and it.args:
        it = it.args[0]
    if isinstance(it, ast.Call) and isinstance(it.func, ast.Name) and it.func.id == "map" and len(it.args) == 2 and isinstance(it.args[0], ast.Name) \
            and it.args[0].id in ("sorted", "tuple", "list"):
        return _iter_source(fi, it.args[1], depth + 1)          # map(sorted, m.edges()): the same edges, endpoints ordered
    if isinstance(it, ast.Call) and isinstance(it.func, ast.Attribute) and it.func.attr == "items" and isinstance(it.func.value, ast.Attribute) and it.func.value.attr == "nodes":
        return "nodes_data"                                     # m.nodes.items(): (label, attributes) of every node
    if isinstance(it, ast.Call) and isinstance(it.func, ast.Attribute) and it.func.attr == "items" and not it.args:
        # nx.get_node_attributes(m, K).items(): (label, value) of the nodes that carry K
        b = it.func.value
        if isinstance(b, ast.Name):
            b = single_def(fi.node, b.id) or b
        if isinstance(b, ast.Call) and norm(b.func).endswith("get_node_attributes"):
            return "nodes_data"
    if isinstance(it, ast.Name):
        d = single_def(fi.node, it.id)
        return _iter_source(fi, d, depth + 1) if d is not None else None
    if isinstance(it, (ast.ListComp, ast.GeneratorExp)) and len(it.generators) == 1:
        inner = _iter_source(fi, it.generators[0].iter, depth + 1)
        if inner == "edges":
            return "edges"
        return None
    t = norm(it)
    if isinstance(it, ast.Call) and isinstance(it.func, ast.Attribute):
        if it.func.attr == "edges":
            return "edges"
        if it.func.attr == "nodes":
            d = kwarg(it, "data") or (it.args[0] if it.args else None)
            return "nodes_data" if d is not None else "nodes"
    if isinstance(it, ast.Attribute) and it.attr == "edges":
        return "edges"
    if isinstance(it, ast.Attribute) and it.attr == "nodes":
        return "nodes"
    return None


def _guard_of(loop: ast.AST, stmt: ast.AST) -> Optional[ast.AST]:
    for n in ast.walk(loop):
        if isinstance(n, ast.If) and any(s is stmt for s in n.body + n.orelse):
            return n.test
    return None


def _presence_collection(ctx, fi: FuncInfo, e: ast.expr, scope: ast.AST, depth=0):
    """Is e a collection of the serialised attributes an atom has, built under key-presence tests only (so that it is
    empty exactly for an atom without such attributes)?  True / False (it depends on something else) / None (cannot tell)"""
    if depth > 4 or e is None:
        return None
    if isinstance(e, ast.NamedExpr):
        return _presence_collection(ctx, fi, e.value, scope, depth + 1)
    if isinstance(e, ast.Name):
        defs = [n.value for n in ast.walk(scope) if isinstance(n, ast.Assign) and isinstance(n.targets[0], ast.Name) and n.targets[0].id == e.id]
        defs += [n.value for n in ast.walk(scope) if isinstance(n, ast.NamedExpr) and n.target.id == e.id]
        if len(defs) == 1:
            return _presence_collection(ctx, fi, defs[0], scope, depth + 1)
        if len(defs) >= 2 and all(isinstance(d, (ast.List, ast.Dict, ast.Set)) and not (getattr(d, "elts", None) or getattr(d, "keys", None)) for d in defs[:1]):
            return None
        # a list started empty and appended to under presence tests
        empties = [d for d in defs if isinstance(d, (ast.List, ast.Dict, ast.Set)) and not (getattr(d, "elts", None) or getattr(d, "keys", None))]
        if empties and len(defs) == len(empties):
            return _appends_under_presence(scope, e.id)
        return None
    if isinstance(e, (ast.ListComp, ast.GeneratorExp, ast.SetComp, ast.DictComp)) and len(e.generators) == 1:
        ifs = e.generators[0].ifs
        if all(isinstance(c, ast.Compare) and len(c.ops) == 1 and isinstance(c.ops[0], ast.In) for c in ifs) and ifs:
            return True
        return False if ifs else None
    if isinstance(e, ast.List) and not e.elts:
        return _appends_under_presence(scope, None)
    if isinstance(e, ast.BinOp) and isinstance(e.op, ast.BitAnd) and all(isinstance(x, ast.Call) and isinstance(x.func, ast.Attribute) and x.func.attr == "keys" for x in (e.left, e.right)):
        return True
    if isinstance(e, ast.Call):
        cs = ctx.cg.resolve_call(fi, e, ctx.cg.local_types(fi), set(params_of(fi.node)))
        if cs.kind == "tucan":
            h = cs.target
            rets = [r for r in own_walk(h.node) if isinstance(r, ast.Return) and r.value is not None]
            if len(rets) == 1:
                return _presence_collection(ctx, h, rets[0].value, h.node, depth + 1)
        if isinstance(e.func, ast.Name) and e.func.id in ("list", "tuple", "sorted", "set") and e.args:
            return _presence_collection(ctx, fi, e.args[0], scope, depth + 1)
    return None


def _appends_under_presence(scope: ast.AST, name: Optional[str]):
    """every append/add to the collection `name` inside scope is guarded by key-presence tests only"""
    found = False
    for n in ast.walk(scope):
        if isinstance(n, ast.Call) and isinstance(n.func, ast.Attribute) and n.func.attr in ("append", "add", "extend") and isinstance(n.func.value, ast.Name) \
                and (name is None or n.func.value.id == name):
            found = True
            # guards between the append and the scope
            guards = []
            def find(node, acc):
                for child in ast.iter_child_nodes(node):
                    if child is n or any(x is n for x in ast.walk(child)):
                        if isinstance(node, ast.If):
                            inb = any(child is b_ or any(x is n for x in ast.walk(b_)) for b_ in node.body)
                            acc = acc + [(node.test, inb)]
                        if child is n:
                            guards.extend(acc)
                            return True
                        return find(child, acc)
                return False
            find(scope, [])
            # `if k not in attrs: continue` before the append counts as a presence guard as well
            for t, pol in guards:
                ok = isinstance(t, ast.Compare) and len(t.ops) == 1 and isinstance(t.ops[0], (ast.In, ast.NotIn)) and (isinstance(t.ops[0], ast.In) == pol)
                if not ok:
                    return False
    if not found:
        return None
    # continue-guards of the loop(s) that do the appending (not of the loop over the atoms, whose filter is being judged)
    inner_loops = [lp for lp in ast.walk(scope) if isinstance(lp, ast.For) and lp is not scope and
                   any(isinstance(x, ast.Call) and isinstance(x.func, ast.Attribute) and x.func.attr in ("append", "add", "extend") and isinstance(x.func.value, ast.Name)
                       and (name is None or x.func.value.id == name) for x in ast.walk(lp))]
    for lp in inner_loops:
        for n in ast.walk(lp):
            if isinstance(n, ast.If) and any(isinstance(x, ast.Continue) for x in n.body):
                t = n.test
                if not (isinstance(t, ast.Compare) and len(t.ops) == 1 and isinstance(t.ops[0], ast.NotIn)):
                    return False
    return True


def _accepted_filter(ctx, fi: FuncInfo, f: ast.AST, owner: ast.AST, label_names: set):
    """True: the filter only skips atoms that have none of the serialised attributes; False: it can drop part of the
    molecule; None: cannot tell"""
    if isinstance(f, ast.Break):
        return False
    test, pol = (f, True)
    if isinstance(f, ast.Continue):
        g = _guard_of(owner, f)
        if g is None:
            return False
        test, pol = g, False        # the element is kept when the guard is false
    t = test
    neg = False
    while isinstance(t, ast.UnaryOp) and isinstance(t.op, ast.Not):
        t, neg = t.operand, not neg
    keep_when_truthy = (not neg) == pol
    # anything that looks at the label / the endpoints or compares attribute values decides which atoms or bonds appear
    if any(isinstance(x, ast.Name) and x.id in label_names for x in ast.walk(t)):
        return False
    if isinstance(t, ast.Compare) and not (len(t.ops) == 1 and isinstance(t.ops[0], (ast.In, ast.NotIn))):
        return False
    if isinstance(t, ast.Compare):
        # `K in attrs` guarding the very look-up attrs[K] that the element is made of: what nx.get_node_attributes(m, K)
        # does as well (every atom of a molecule has the attribute; the guard only avoids a KeyError)
        if isinstance(t.ops[0], ast.In) and keep_when_truthy and isinstance(owner, (ast.ListComp, ast.GeneratorExp, ast.SetComp, ast.DictComp)):
            elts = [owner.elt] if not isinstance(owner, ast.DictComp) else [owner.key, owner.value]
            kt, ct = norm(t.left), norm(t.comparators[0])
            reads = [x for e_ in elts for x in ast.walk(e_) if isinstance(x, ast.Subscript) and norm(x.value) == ct and norm(x.slice) == kt]
            if reads:
                return True
        return None
    pc = _presence_collection(ctx, fi, t, owner if not isinstance(owner, (ast.ListComp, ast.GeneratorExp, ast.SetComp, ast.DictComp)) else fi.node)
    if pc is True:
        return True if keep_when_truthy else False
    return pc


# --------------------------------------------------------------------------- R-ATTRREAD

ALLOWED_PIPELINE_KEYS = {"invariant_code", "partition", "atomic_number", "element_symbol", "mass", "rad", "explored"}


@rule("R-ATTRREAD")
def r_attrread(ctx) -> RuleResult:
    res = RuleResult("R-ATTRREAD", "attribute keys read in canonicalisation and serialisation ⊆ {invariant_code, partition, atomic_number, element_symbol, mass, rad, explored}; edge data is never read")
    fis = closure(ctx, "canonicalize", "serialize")
    within = {f.fq for f in fis}
    n_reads = 0
    for fi in fis:
        fn = fi.node
        attrdict_vars = set()     # variables bound to a node's whole attribute dict
        for n in own_walk(fn):
            gens = []
            if isinstance(n, ast.For):
                gens = [(n.target, n.iter)]
            elif isinstance(n, (ast.ListComp, ast.GeneratorExp, ast.SetComp, ast.DictComp)):
                gens = [(g.target, g.iter) for g in n.generators]
            for tg, it in gens:
                base = it
                while isinstance(base, ast.Call) and isinstance(base.func, ast.Name) and base.func.id in ("sorted", "list", "tuple", "reversed") and base.args:
                    base = base.args[0]
                if isinstance(base, ast.Call) and isinstance(base.func, ast.Attribute) and base.func.attr in ("nodes", "data"):
                    d = kwarg(base, "data") or (base.args[0] if base.args else None)
                    if isinstance(d, ast.Constant) and d.value is True and isinstance(tg, ast.Tuple) and len(tg.elts) == 2 and isinstance(tg.elts[1], ast.Name):
                        attrdict_vars.add(tg.elts[1].id)
        reads: list[tuple[ast.AST, ast.expr, str]] = []
        for n in own_walk(fn):
            # m.nodes[x][K]   /  attrs[K]
            if isinstance(n, ast.Subscript) and isinstance(n.ctx, ast.Load):
                v = n.value
                if isinstance(v, ast.Subscript) and isinstance(v.value, ast.Attribute) and v.value.attr in ("nodes", "_node"):
                    reads.append((n, n.slice, "node"))
                elif isinstance(v, ast.Name) and v.id in attrdict_vars:
                    reads.append((n, n.slice, "node"))
                elif isinstance(v, ast.Attribute) and v.attr == "vs":
                    reads.append((n, n.slice, "vs"))
                elif isinstance(v, ast.Subscript) and isinstance(v.value, ast.Attribute) and v.value.attr in ("edges", "adj", "_adj"):
                    reads.append((n, n.slice, "edge"))
                elif isinstance(v, ast.Subscript) and isinstance(v.value, ast.Subscript) and isinstance(v.value.value, ast.Name) and _is_graph_param(fi, v.value.value.id):
                    reads.append((n, n.slice, "edge"))        # m[u][v][K]
            if isinstance(n, ast.Compare) and len(n.ops) == 1 and isinstance(n.ops[0], (ast.In, ast.NotIn)) and \
                    isinstance(n.comparators[0], ast.Name) and n.comparators[0].id in attrdict_vars:
                reads.append((n, n.left, "node"))
            if isinstance(n, ast.Call):
                f = n.func
                if isinstance(f, ast.Attribute) and f.attr == "get" and n.args:
                    v = f.value
                    if (isinstance(v, ast.Name) and v.id in attrdict_vars) or (isinstance(v, ast.Subscript) and isinstance(v.value, ast.Attribute) and v.value.attr == "nodes"):
                        reads.append((n, n.args[0], "node"))
                if isinstance(f, ast.Attribute) and f.attr == "nodes":
                    d = kwarg(n, "data") or (n.args[0] if n.args else None)
                    if d is not None and not (isinstance(d, ast.Constant) and isinstance(d.value, bool)):
                        reads.append((n, d, "node"))
                if isinstance(f, ast.Attribute) and f.attr == "data" and isinstance(f.value, ast.Attribute) and f.value.attr in ("nodes", "edges"):
                    d = n.args[0] if n.args else kwarg(n, "data")
                    kind = "node" if f.value.attr == "nodes" else "edge"
                    if d is not None and not (isinstance(d, ast.Constant) and isinstance(d.value, bool)):
                        reads.append((n, d, kind))
                    elif kind == "edge" and (d is None or (isinstance(d, ast.Constant) and d.value is True)):
                        reads.append((n, ast.Constant("<all edge data>"), "edge"))
                if isinstance(f, ast.Attribute) and f.attr == "edges":
                    d = kwarg(n, "data") or (n.args[0] if n.args else None)
                    if d is not None and not (isinstance(d, ast.Constant) and d.value is False):
                        reads.append((n, d if not isinstance(d, ast.Constant) or not isinstance(d.value, bool) else ast.Constant("<all edge data>"), "edge"))
                if isinstance(f, ast.Attribute) and f.attr == "get_edge_data":
                    reads.append((n, ast.Constant("<all edge data>"), "edge"))
                r = ctx.repo.resolve_dotted(fi.module, f)
                if r and r[0] == "ext" and r[1] == "networkx.get_node_attributes" and len(n.args) >= 2:
                    reads.append((n, n.args[1], "node"))
                if r and r[0] == "ext" and r[1] == "networkx.get_edge_attributes":
                    reads.append((n, n.args[1] if len(n.args) > 1 else ast.Constant("?"), "edge"))
        # graph-level data (G.graph[...]) is neither element, isotope, radical nor connectivity
        for n in own_walk(fn):
            if isinstance(n, ast.Attribute) and n.attr == "graph" and isinstance(n.value, ast.Name) and _is_graph_param(fi, n.value.id) and isinstance(n.ctx, ast.Load):
                par = None
                for x in own_walk(fn):
                    for c in ast.iter_child_nodes(x):
                        if c is n:
                            par = x
                is_store = isinstance(par, ast.Subscript) and isinstance(par.ctx, (ast.Store, ast.Del))
                # handed over as a whole to another graph's .graph (what a copy does anyway): carried along, not read
                gp = None
                for x in own_walk(fn):
                    for c in ast.iter_child_nodes(x):
                        if c is par:
                            gp = x
                carried_over = (isinstance(par, ast.Call) and n in par.args and isinstance(par.func, ast.Attribute) and par.func.attr == "update"
                                and isinstance(par.func.value, ast.Attribute) and par.func.value.attr == "graph") \
                    or (isinstance(par, ast.Attribute) and par.attr in ("update", "clear") and isinstance(gp, ast.Call) and gp.func is par) \
                    or (isinstance(par, (ast.Assign,)) and par.value is n and isinstance(par.targets[0], ast.Attribute) and par.targets[0].attr == "graph") \
                    or (isinstance(par, ast.Call) and isinstance(par.func, ast.Name) and par.func.id in ("dict",) and isinstance(gp, ast.Assign) and isinstance(gp.targets[0], ast.Attribute) and gp.targets[0].attr == "graph") \
                    or (isinstance(par, ast.Attribute) and par.attr == "copy" and isinstance(gp, ast.Call))
                if carried_over:
                    res.inst(fi.fq, short(par if par is not None else n), "ok", detail="graph-level data handed over as a whole, not inspected")
                    continue
                if not is_store:
                    n_reads += 1
                    res.inst(fi.fq, short(par if par is not None else n), "fail")
                    res.fail(Finding("R-ATTRREAD", fi.module.rel, fi.qualname, norm(par if par is not None else n),
                                     "the pipeline reads graph-level data: something that is not element / isotope / radical / connectivity (and that copies of the graph carry along) influences the result",
                                     line=n.lineno))
        carried = set()
        for n in own_walk(fn):
            if isinstance(n, ast.Call) and isinstance(n.func, ast.Attribute) and n.func.attr in ("add_edges_from", "add_weighted_edges_from") and n.args:
                for x in ast.walk(n.args[0]):
                    carried.add(id(x))
            # for u, v, data in G.edges(data=True): H.edges[..].update(data) / H.add_edge(.., **data): handed over as a whole
            if isinstance(n, ast.For) and isinstance(n.target, ast.Tuple) and len(n.target.elts) == 3 and isinstance(n.target.elts[2], ast.Name):
                dname = n.target.elts[2].id
                uses = [x for x in ast.walk(ast.Module(n.body, [])) if isinstance(x, ast.Name) and x.id == dname and isinstance(x.ctx, ast.Load)]
                pm_ = {}
                for x in ast.walk(n):
                    for c in ast.iter_child_nodes(x):
                        pm_[id(c)] = x

                def handed_over(u):
                    p_ = pm_.get(id(u))
                    if isinstance(p_, ast.Call) and u in p_.args and isinstance(p_.func, ast.Attribute) and p_.func.attr == "update" and isinstance(p_.func.value, ast.Subscript) \
                            and isinstance(p_.func.value.value, ast.Attribute) and p_.func.value.value.attr == "edges":
                        return True
                    if isinstance(p_, ast.keyword) and p_.arg is None:
                        pp_ = pm_.get(id(p_))
                        return isinstance(pp_, ast.Call) and isinstance(pp_.func, ast.Attribute) and pp_.func.attr == "add_edge"
                    return False
                if uses and all(handed_over(u) for u in uses):
                    for x in ast.walk(n.iter):
                        carried.add(id(x))
        for node, kexpr, kind in reads:
            n_reads += 1
            if kind == "edge" and id(node) in carried:
                res.inst(fi.fq, short(node), "ok", detail="bond data carried into a rebuilt graph, not inspected")
                continue
            if kind == "edge":
                res.inst(fi.fq, short(node), "fail")
                res.fail(Finding("R-ATTRREAD", fi.module.rel, fi.qualname, norm(node), "bond data is read inside the identifier pipeline: bond types would influence the string", line=node.lineno))
                continue
            ks = keyset(ctx, fi, kexpr, within)
            if ks is None:
                raise AnalysisError(f"R-ATTRREAD: attribute key `{short(kexpr)}` at {fi.loc(node)} does not resolve to constants")
            if kind == "vs":
                ks = ks - {"_nx_name"}
            bad = sorted(k for k in ks if k not in ALLOWED_PIPELINE_KEYS)
            res.inst(fi.fq, short(node), "ok" if not bad else "fail", detail=f"keys {sorted(map(str, ks))}")
            if bad:
                res.fail(Finding("R-ATTRREAD", fi.module.rel, fi.qualname, norm(node),
                                 f"pipeline reads attribute {bad}: data that is not element / isotope / radical / connectivity influences the result", line=node.lineno))
    if n_reads < 8:
        raise AnalysisError(f"R-ATTRREAD: only {n_reads} attribute reads recognised in the pipeline closures; the access idioms changed")
    res.counts = {"key_resolved_reads": n_reads, "functions": len(fis)}
    res.notes.append("whole attribute dictionaries escape only into relabel_nodes / copy / from_networkx / sorted((label, dict)) — summaries that do not inspect them")
    return res


def _is_graph_param(fi: FuncInfo, name: str) -> bool:
    for a in fi.node.args.args:
        if a.arg == name and a.annotation is not None and "Graph" in norm(a.annotation):
            return True
    return False
