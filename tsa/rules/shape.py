"""R-SHAPE: every string serialize_molecule can return is a sentence of the published grammar."""
from __future__ import annotations

from ..gram import Det, NFA, build, compare, grammars, literals_of
from ..model import AnalysisError
from ..report import Finding, RuleResult
from ..strshape import Graph, ShapeInterp, to_ast
from . import rule
from .common import entry


@rule("R-SHAPE")
def r_shape(ctx) -> RuleResult:
    res = RuleResult("R-SHAPE", "the set of strings serialize_molecule can return (regular over-approximation computed from its code, all paths) is included in L_EBNF(tucan)")
    repo = ctx.repo
    attrs = repo.try_const("tucan.element_attributes", "ELEMENT_ATTRS", None)
    if not isinstance(attrs, dict):
        raise AnalysisError("ELEMENT_ATTRS is no longer a constant table")
    symbols = list(attrs)
    # bound of the attribute-value holes: established by R-ZERO (readers) and by the grammar (parser: value > 0)
    from ..check import run_rules
    zero = run_rules(ctx, ["R-ZERO"])[0]
    if zero.error:
        raise AnalysisError(f"R-SHAPE needs R-ZERO's verdict: {zero.error}")
    value_lo = 1 if not zero.findings else None
    ser = entry(ctx, "serialize")
    I = ShapeInterp(repo, symbols, value_lo)
    shape = I.run(ser, [Graph()])
    G = grammars(ctx)
    if G.check_acyclic():
        raise AnalysisError("grammar is recursive; inclusion needs the regular case")
    lits = sorted(literals_of(G.ebnf, "tucan"), key=len, reverse=True)
    number = next(iter(G.ebnf_lex), "GREATER_THAN_NINE")
    bad: list = []
    ast_ = to_ast(shape, lits, number, bad)
    n = NFA()
    a, b = build(n, ast_)
    A = Det(n, a, b)
    ok, wit, states, _ = compare(A, G.det("ebnf", "tucan"), "subset")
    s = repr(shape)
    res.inst(ser.fq, "emitted language ⊆ L_EBNF(tucan)", "ok" if ok and not bad else "fail",
             detail=f"{states} product states; shape {s[:90]} … {s[-160:]}")
    if bad:
        res.fail(Finding("R-SHAPE", ser.module.rel, ser.qualname, f"literal {bad[0][:12]!r}",
                         f"the serializer can emit the text {bad[0][:12]!r}, which is not made of the grammar's tokens", line=ser.node.lineno))
    elif not ok:
        w = " ".join(wit)
        why = ""
        if "⟨INT≤0⟩" in wit:
            why = " (an emitted number may be 0 or negative: " + ("attribute values are not proven positive, see R-ZERO" if value_lo is None else "an index or count is not proven ≥ 1") + ")"
        res.fail(Finding("R-SHAPE", ser.module.rel, ser.qualname, f"witness: {w}",
                         f"serialize_molecule can return the token string `{w}`, which the published grammar rejects{why}",
                         line=ser.node.lineno, extra={"witness": list(wit), "shape": s[:400]}))
    ctx.cache["shape_emissions"] = I.emissions
    ctx.cache["shape_automaton"] = A
    res.counts = {"product_states": states, "shape_pieces": len(shape.p), "element_symbols": len(symbols)}
    res.notes = I.notes[:6] + [f"attribute value holes: INT≥{value_lo}" if value_lo else "attribute value holes unbounded (R-ZERO reports)"]
    res.trusted = ["every producer of element_symbol indexes ELEMENT_ATTRS with it (R-SIBKEYS, parser _add_atoms), so Counter keys ⊆ the table's symbols",
                   "labels are 0..n-1 after the final relabel (R-BIJ, R-CODEC)"]
    return res


@rule("R-LAYOUT")
def r_layout(ctx) -> RuleResult:
    """canonical layout clauses that the grammar does not express: tuples in ascending order, a < b inside a tuple,
    attribute blocks in ascending index order"""
    res = RuleResult("R-LAYOUT", "bond tuples are emitted from an ascending-sorted sequence of ascending-sorted pairs; attribute blocks from the ascending-sorted node list")
    from ..check import run_rules
    sh = run_rules(ctx, ["R-SHAPE"])[0]
    if sh.error:
        raise AnalysisError(f"R-LAYOUT needs the shape interpretation: {sh.error}")
    em = ctx.cache.get("shape_emissions", [])
    seen = set()
    kinds = set()
    for e in em:
        fi, node = e["fi"], e["node"]
        key = (fi.fq, getattr(node, "lineno", 0), e["what"])
        if key in seen:
            continue
        seen.add(key)
        kinds.add(e["what"])
        if e["asc"] is None:
            from ..model import short as _short
            raise AnalysisError(f"R-LAYOUT: `{_short(node, 70)}` in {fi.qualname} emits {e['what']} from a sequence sorted with a key the analysis does not read: its order is not known")
        ok = bool(e["asc"]) and (e["pair_asc"] is not False if e["what"] == "edges" else True) and (e["pair_asc"] is True if e["what"] == "edges" else True)
        from ..model import short, norm
        res.inst(fi.fq, f"{e['what']} emitted by `{short(node, 70)}`", "ok" if ok else "fail",
                 detail=f"sequence ascending: {e['asc']}" + (f", endpoints ascending: {e['pair_asc']}" if e["what"] == "edges" else ""))
        if not ok:
            if not e["asc"]:
                msg = ("bond tuples" if e["what"] == "edges" else "attribute blocks") + " are not emitted in ascending order of the atom indices (the sequence is not sorted by the index itself: it is sorted some other way, or as text)"
            else:
                msg = "the two endpoints of a tuple are not emitted smaller-first (the pair is not the result of a plain sorted())"
            res.fail(Finding("R-LAYOUT", fi.module.rel, fi.qualname, norm(node), msg, line=getattr(node, "lineno", None)))
    if not {"edges", "nodes"} <= kinds:
        raise AnalysisError(f"R-LAYOUT: emission of {sorted({'edges', 'nodes'} - kinds)} not seen in the serializer")
    res.trusted = ["sorted() without key/reverse returns ascending order; tuples of ints compare lexicographically"]
    return res


WITNESSES = [
    ("a single atom carrying both an isotope mass and a radical", "C / / ( 1 : mass = 13 , rad = 2 )"),
    ("two labelled atoms (two attribute blocks)", "C H 4 / ( 1 - 5 ) ( 2 - 5 ) ( 3 - 5 ) ( 4 - 5 ) / ( 1 : mass = 2 ) ( 5 : mass = 13 )"),
    ("a plain bond list", "H 2 / ( 1 - 2 )"),
    ("a molecule without bonds and without labels", "He /"),
    ("a carbon-free formula in alphabetical order", "Cl Na /"),
    ("counts above nine and indices above nine", "C 10 H 22 / ( 1 - 23 ) ( 11 - 32 )"),
    ("a radical only", "C H 3 / ( 1 - 4 ) ( 2 - 4 ) ( 3 - 4 ) / ( 4 : rad = 2 )"),
    # every place of the formula with the counts 1, 2 and above nine
    ("one hydrogen next to carbon, another element three times", "C H Cl 3 / ( 1 - 2 ) ( 2 - 3 ) ( 2 - 4 ) ( 2 - 5 )"),
    ("two carbons, two hydrogens", "C 2 H 2 / ( 1 - 3 ) ( 2 - 4 ) ( 3 - 4 )"),
    ("two hydrogens next to one carbon, one atom of another element", "C H 2 O / ( 1 - 3 ) ( 2 - 3 ) ( 3 - 4 )"),
    ("another element above nine next to carbon", "C 4 F 10 / ( 1 - 2 ) ( 2 - 3 ) ( 3 - 4 )"),
    ("hydrogen without carbon, in alphabetical place, counts above nine", "B 10 H 14 / ( 1 - 2 )"),
    ("two hydrogens without carbon, one atom after them", "H 2 O / ( 1 - 3 ) ( 2 - 3 )"),
    ("one element twice", "Cl 2 / ( 1 - 2 )"),
]


def _tokens(w: str, number: str):
    out = []
    for t in w.split():
        out.append(number if t.isdigit() and len(t) > 1 else t)
    return out


@rule("R-EXPRESS")
def r_express(ctx) -> RuleResult:
    """the other direction of R-SHAPE, for a handful of canonical strings: since the computed shape over-approximates
    what the serializer can return, a canonical string outside it can never be produced"""
    res = RuleResult("R-EXPRESS", "canonical strings of representative molecules lie inside the serializer's output shape (a string outside the over-approximation can never be emitted, so that molecule's information would be lost)")
    from ..check import run_rules
    sh = run_rules(ctx, ["R-SHAPE"])[0]
    if sh.error:
        raise AnalysisError(f"R-EXPRESS needs the shape interpretation: {sh.error}")
    A = ctx.cache.get("shape_automaton")
    if A is None:
        raise AnalysisError("R-EXPRESS: no shape automaton")
    G = grammars(ctx)
    number = next(iter(G.ebnf_lex), "GREATER_THAN_NINE")
    ser = entry(ctx, "serialize")
    Gd = G.det("ebnf", "tucan")
    for what, w in WITNESSES:
        toks = _tokens(w, number)
        if not Gd.accepts(toks):
            raise AnalysisError(f"R-EXPRESS: witness `{w}` is not a sentence of the grammar (witness table out of date)")
        ok = A.accepts(toks)
        res.inst(ser.fq, f"can emit `{w}`", "ok" if ok else "fail", detail=what)
        if not ok:
            res.fail(Finding("R-EXPRESS", ser.module.rel, ser.qualname, f"cannot emit: {w}",
                             f"no path of the serializer can produce `{w}` ({what}): the string of such a molecule drops or merges information, so different molecules share a string",
                             line=ser.node.lineno))
    return res
