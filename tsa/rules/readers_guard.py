"""small syntactic helper of the listener sample rules"""
import ast


def guarded_by_state(fn: ast.FunctionDef) -> bool:
    """does `fn` hold a raise that is executed under a test mentioning an attribute of self (or is unconditional)"""
    def mentions_self(e) -> bool:
        return any(isinstance(z, ast.Attribute) and isinstance(z.value, ast.Name) and z.value.id == "self" for z in ast.walk(e))

    def walk(stmts, under_state: bool) -> bool:
        for i, st in enumerate(stmts):
            if isinstance(st, ast.Raise):
                if under_state:
                    return True
                continue
            if isinstance(st, (ast.If, ast.While)):
                u = under_state or mentions_self(st.test)
                if walk(st.body, u) or walk(st.orelse, u):
                    return True
                # an early exit under a state test puts what follows under that test as well
                if mentions_self(st.test) and any(isinstance(x, (ast.Return, ast.Continue, ast.Break)) for x in st.body + st.orelse):
                    under_state = True
            elif isinstance(st, (ast.For, ast.With, ast.Try)):
                for fld in ("body", "orelse", "finalbody"):
                    if walk(getattr(st, fld, []) or [], under_state):
                        return True
                for h in getattr(st, "handlers", []) or []:
                    if walk(h.body, under_state):
                        return True
        return False
    return walk(fn.body, False)
