"""R-TOKENS: what the V3000 tokenizer guarantees about blanks, and what the patterns applied to tokens assume about them."""
from __future__ import annotations

import ast
from typing import Optional

from ..model import AnalysisError, norm, short
from ..report import Finding, RuleResult
from . import rule
from .common import assigned_names, own_walk, params_of, single_def, sites, try_const
from .readers import reader_entries, regex_of, splice_model

OPEN = {"(": ")", "[": "]", "{": "}", '"': '"', "'": "'"}


def _events(pat: str):
    """flat list of what a pattern consumes, in order:
       ('lit', ch) | ('blank1',) a blank that must be exactly one (or a fixed number) | ('blanks',) an open-ended run of blanks
       | ('admit',) a character position that accepts a blank among others | ('other',) | ('alt',) boundary between alternatives"""
    import re._parser as sp
    from re._constants import (ANY, BRANCH, CATEGORY, CATEGORY_NOT_SPACE, CATEGORY_SPACE, IN, LITERAL, MAX_REPEAT, MAXREPEAT, MIN_REPEAT, NEGATE,
                               NOT_LITERAL, RANGE, SUBPATTERN, AT, ASSERT, ASSERT_NOT, GROUPREF)
    out = []

    def item_class(op, av):
        """'blank' (only blanks), 'admit' (blank among others), 'no' (never a blank) for a one-character item"""
        if op is LITERAL:
            return "blank" if av == 32 else "no"
        if op is NOT_LITERAL:
            return "no" if av == 32 else "admit"
        if op is ANY:
            return "admit"
        if op is CATEGORY:
            return "blank" if av is CATEGORY_SPACE else ("no" if av is CATEGORY_NOT_SPACE else "no")
        if op is IN:
            neg = any(o is NEGATE for o, _ in av)
            has_blank = False
            only_blank = True
            for o, a in av:
                if o is NEGATE:
                    continue
                if o is LITERAL:
                    if a == 32:
                        has_blank = True
                    else:
                        only_blank = False
                elif o is CATEGORY:
                    if a is CATEGORY_SPACE:
                        has_blank = True
                    else:
                        only_blank = False
                        if a is CATEGORY_NOT_SPACE and False:
                            pass
                elif o is RANGE:
                    if a[0] <= 32 <= a[1]:
                        has_blank = True
                    only_blank = False
                else:
                    only_blank = False
            if neg:
                return "no" if has_blank else "admit"
            if has_blank:
                return "blank" if only_blank else "admit"
            return "no"
        return None

    def walk(seq):
        for op, av in seq:
            c = item_class(op, av)
            if c is not None:
                if op is LITERAL and av != 32:
                    out.append(("lit", chr(av)))
                elif c == "blank":
                    out.append(("blank1",))
                elif c == "admit":
                    out.append(("admit",))
                else:
                    out.append(("other",))
                continue
            if op in (MAX_REPEAT, MIN_REPEAT):
                lo, hi, sub = av
                sub = list(sub)
                if len(sub) == 1:
                    c1 = item_class(*sub[0])
                    if c1 == "blank":
                        out.append(("blanks",) if hi == MAXREPEAT else ("blank1",))
                        continue
                    if c1 == "admit":
                        out.append(("admit",))
                        continue
                    if c1 == "no":
                        if sub[0][0] is LITERAL and lo >= 1:
                            out.append(("lit", chr(sub[0][1])))
                        else:
                            out.append(("other",))
                        continue
                walk(sub)
                continue
            if op is SUBPATTERN:
                walk(av[3])
                continue
            if op is BRANCH:
                for i, alt in enumerate(av[1]):
                    if i:
                        out.append(("alt",))
                    walk(alt)
                continue
            if op in (AT,):
                continue
            if op in (ASSERT, ASSERT_NOT):
                continue
            if op is GROUPREF:
                out.append(("other",))
                continue
            out.append(("other",))
    walk(sp.parse(pat))
    return out


def _regions(events, kinds):
    """for every event of one of `kinds`: (open, close) delimiters around it in its alternative, or None when it is not
    enclosed by a recognisable pair"""
    res = []
    for i, ev in enumerate(events):
        if ev[0] not in kinds:
            continue
        op = None
        for j in range(i - 1, -1, -1):
            if events[j][0] == "alt":
                break
            if events[j][0] == "lit" and events[j][1] in OPEN:
                op = events[j][1]
                break
            if events[j][0] == "lit" and events[j][1] in OPEN.values():
                break
        cl = None
        for j in range(i + 1, len(events)):
            if events[j][0] == "alt":
                break
            if events[j][0] == "lit" and events[j][1] in OPEN.values():
                cl = events[j][1]
                break
        res.append((op, cl) if op is not None and cl == OPEN[op] else None)
    return res


@rule("R-TOKENS")
def r_tokens(ctx) -> RuleResult:
    res = RuleResult("R-TOKENS", "V3000: runs of blanks mean the same as one blank: either the tokenizer leaves no blank inside a token, or every pattern applied to tokens accepts a run of blanks wherever it accepts one")
    v3 = reader_entries(ctx)["V3000"]
    clo = [v3] + [ctx.cg.funcs[q] for q in ctx.cg.closure([v3.fq])]
    sm = splice_model(ctx)
    if sm is None:
        raise AnalysisError("R-TOKENS: the V3000 reader has no continuation-line splicer (see R-ORDERING)")
    sp = sm["func"]
    sp_clo = {sp.fq} | set(ctx.cg.closure([sp.fq]))
    # the tokenizer: the function that takes the splicer's result apart
    toks = [f for f in clo if f.fq not in sp_clo and any(cs.kind == "tucan" and cs.target.fq == sp.fq for cs in sites(ctx, f))]
    if not toks:
        raise AnalysisError("R-TOKENS: no function uses the result of the continuation-line splicer")
    tk = toks[0]
    guarantee, detail, regions = None, "", set()
    n_split = 0
    for f in [tk] + [ctx.cg.funcs[q] for q in ctx.cg.closure([tk.fq]) if q not in sp_clo]:
        for n in own_walk(f.node):
            if not (isinstance(n, ast.Call) and isinstance(n.func, ast.Attribute)):
                continue
            a = n.func.attr
            g = None
            if a == "split" and norm(n.func.value) != "re" and regex_of(ctx, f, n.func.value) is None:
                sep = try_const(ctx, f, n.args[0]) if n.args else None
                if not n.args or sep is None and isinstance(n.args[0], ast.Constant):
                    g, d = "blankfree", f"`{short(n, 40)}` splits at every run of white space"
                elif sep == " ":
                    g, d = "blankfree", f"`{short(n, 40)}` splits at every blank"
                else:
                    continue
            elif a in ("findall", "finditer", "split"):
                pat = regex_of(ctx, f, n.args[0]) if norm(n.func.value) == "re" and n.args else regex_of(ctx, f, n.func.value)
                if pat is None:
                    if norm(n.func.value) == "re" or a != "split":
                        g, d = "unknown", f"`{short(n, 40)}`: pattern not constant"
                    else:
                        continue
                else:
                    ev = _events(pat)
                    if a == "split":
                        one = [e for e in ev if e[0] != "alt"]
                        g = "blankfree" if len(one) == 1 and one[0][0] in ("blank1", "blanks") else "unknown"
                        d = f"`{short(n, 40)}` splits at {pat!r}"
                    else:
                        adm = _regions(ev, ("admit", "blank1", "blanks"))
                        if not adm:
                            g, d = "blankfree", f"tokens are matches of {pat!r}, which never include a blank"
                        else:
                            g, d = "mayblank", f"tokens are matches of {pat!r}, which can include blanks"
                            regions |= set(adm)
            elif a == "split" and norm(n.func.value) == "shlex":
                g, d = "mayblank", "shlex.split keeps blanks inside quotes"
                regions |= {('"', '"'), ("'", "'")}
            if g is None:
                continue
            n_split += 1
            res.inst(f.fq, d, "ok")
            order = {"blankfree": 0, "mayblank": 1, "unknown": 2}
            if guarantee is None or order[g] > order[guarantee]:
                guarantee, detail = g, d
    if guarantee is None:
        guarantee, detail = "unknown", f"no split / findall found in {tk.qualname}"
    # the patterns applied to tokens further down
    n_pat = 0
    for f in clo:
        if f.fq in sp_clo or f.fq == tk.fq:
            continue
        for n in own_walk(f.node):
            pat = None
            if isinstance(n, ast.Call) and isinstance(n.func, ast.Attribute) and n.func.attr in ("search", "match", "fullmatch", "findall", "finditer", "sub"):
                if norm(n.func.value) == "re" and n.args:
                    pat = regex_of(ctx, f, n.args[0])
                    if pat is None:
                        pat = "?"
                else:
                    pat = regex_of(ctx, f, n.func.value)
            if pat is None:
                continue
            n_pat += 1
            if pat == "?":
                if guarantee != "blankfree":
                    raise AnalysisError(f"R-TOKENS: pattern of `{short(n, 40)}` in {f.qualname} is not constant")
                res.inst(f.fq, f"`{short(n, 40)}`: tokens hold no blanks", "ok")
                continue
            ev = _events(pat)
            single = _regions(ev, ("blank1",))
            if not single:
                res.inst(f.fq, f"pattern {pat!r} accepts a run of blanks wherever it accepts one", "ok")
                continue
            if guarantee == "blankfree":
                res.inst(f.fq, f"pattern {pat!r} expects single blanks; tokens hold none and are joined with one", "ok", detail=detail)
                continue
            if guarantee == "unknown":
                raise AnalysisError(f"R-TOKENS: pattern {pat!r} in {f.qualname} expects single blanks, and what the tokenizer leaves inside a token is not clear ({detail})")
            hit = [r for r in single if r in regions or None in regions]
            if hit:
                res.inst(f.fq, f"pattern {pat!r} expects single blanks", "fail", detail=detail)
                where = f"between `{hit[0][0]}` and `{hit[0][1]}`" if hit[0] is not None else "in a token"
                res.fail(Finding("R-TOKENS", f.module.rel, f.qualname, f"pattern {pat}",
                                 f"the tokenizer keeps runs of blanks {where} ({detail}), and this pattern accepts exactly one blank there: the same record written with "
                                 "two blanks is not matched (and what the code does for a non-match happens instead)", line=n.lineno))
            elif any(r is None for r in single):
                raise AnalysisError(f"R-TOKENS: pattern {pat!r} in {f.qualname} expects single blanks outside any bracket; whether the tokenizer can leave a run of blanks there is not clear ({detail})")
            else:
                res.inst(f.fq, f"pattern {pat!r} expects single blanks only where the tokenizer leaves none", "ok", detail=detail)
    if n_split == 0 and n_pat == 0:
        raise AnalysisError("R-TOKENS: neither a split nor a pattern found in the V3000 reader (anchors vanished)")
    res.counts = {"tokenizer_sites": n_split, "patterns_on_tokens": n_pat, "tokens": guarantee}
    return res


# --------------------------------------------------------------------------- R-SYMZ


def _sym_exec(ctx, fi, bindings: dict, depth=0):
    """straight-line symbolic reading of a function: names -> terms (nested tuples); returns (env at the end, [return terms]).
    Branches are followed one after the other and what they bind differently becomes ('alt', a, b)."""
    from .common import try_const
    env = dict(bindings)
    rets = []

    def term(e):
        if isinstance(e, ast.Constant):
            return ("const", e.value)
        if isinstance(e, ast.Name):
            if e.id in env:
                return env[e.id]
            c = try_const(ctx, fi, e, default=None)
            if isinstance(c, (str, int)):
                return ("const", c)
            return ("name", e.id)
        if isinstance(e, ast.Tuple):
            return ("tuple",) + tuple(term(x) for x in e.elts)
        if isinstance(e, ast.BoolOp):
            return ("alt",) + tuple(term(v) for v in e.values)
        if isinstance(e, ast.IfExp):
            return ("alt", term(e.body), term(e.orelse))
        if isinstance(e, ast.Subscript):
            if isinstance(e.slice, ast.Slice):
                return ("slice", term(e.value), norm(e.slice))
            return ("item", term(e.value), term(e.slice))
        if isinstance(e, ast.Attribute):
            return ("attr", term(e.value), e.attr)
        if isinstance(e, ast.NamedExpr):
            t = term(e.value)
            env[e.target.id] = t
            return t
        if isinstance(e, ast.Call):
            if isinstance(e.func, ast.Attribute) and e.func.attr == "get" and e.args:
                return ("item", term(e.func.value), term(e.args[0]))
            if isinstance(e.func, ast.Attribute):
                return ("call", e.func.attr, term(e.func.value)) + tuple(term(a) for a in e.args)
            if isinstance(e.func, ast.Name) and e.func.id in ("int", "str"):
                return term(e.args[0]) if e.args else ("const", 0)
            cs = ctx.cg.resolve_call(fi, e, ctx.cg.local_types(fi), set(params_of(fi.node)))
            if cs.kind == "tucan" and depth < 4:
                ps = params_of(cs.target.node)
                b2 = {p_: term(a_) for p_, a_ in zip(ps, e.args)}
                _, r2 = _sym_exec(ctx, cs.target, b2, depth + 1)
                if len(r2) == 1:
                    return r2[0]
                if r2:
                    return ("alt",) + tuple(r2)
            return ("call", norm(e.func)) + tuple(term(a) for a in e.args)
        return ("expr", norm(e)[:60])

    def bind(tg, t):
        if isinstance(tg, ast.Name):
            env[tg.id] = t
        elif isinstance(tg, (ast.Tuple, ast.List)):
            for i, x in enumerate(tg.elts):
                bind(x, _component(t, i))

    def run(stmts):
        for st in stmts:
            if isinstance(st, ast.Assign):
                t = term(st.value)
                for tg in st.targets:
                    bind(tg, t)
            elif isinstance(st, ast.AnnAssign) and st.value is not None:
                bind(st.target, term(st.value))
            elif isinstance(st, ast.Return) and st.value is not None:
                rets.append(term(st.value))
            elif isinstance(st, ast.If):
                before = dict(env)
                run(st.body)
                after_body = dict(env)
                env.clear()
                env.update(before)
                run(st.orelse)
                for k in set(after_body) | set(env):
                    a, b = after_body.get(k), env.get(k)
                    if a != b:
                        env[k] = ("alt", a if a is not None else ("name", k), b if b is not None else ("name", k))
            elif isinstance(st, ast.Try):
                run(st.body)
            elif isinstance(st, (ast.For, ast.While, ast.With)):
                run(st.body)
    run(fi.node.body)
    env["__term__"] = term
    return env, rets


def _component(t, i):
    if isinstance(t, tuple) and t and t[0] == "tuple" and i + 1 < len(t):
        return t[i + 1]
    if isinstance(t, tuple) and t and t[0] == "alt":
        return ("alt",) + tuple(_component(x, i) for x in t[1:])
    return ("item", t, ("const", i))


def _alts(t):
    if isinstance(t, tuple) and t and t[0] == "alt":
        out = []
        for x in t[1:]:
            out += _alts(x)
        return out
    return [t]


def _show(t) -> str:
    if not isinstance(t, tuple):
        return str(t)
    k = t[0]
    if k == "const":
        return repr(t[1])
    if k == "name":
        return t[1]
    if k == "slice":
        return f"{_show(t[1])}[{t[2]}]"
    if k == "item":
        return f"{_show(t[1])}[{_show(t[2])}]"
    if k == "attr":
        return f"{_show(t[1])}.{t[2]}"
    if k == "call" and len(t) >= 3 and isinstance(t[2], tuple):
        return f"{_show(t[2])}.{t[1]}({', '.join(_show(x) for x in t[3:])})" if not str(t[1]).count(".") and t[1].islower() and len(t) >= 3 and t[1] not in ("detect_hydrogen_isotopes",) else f"{t[1]}({', '.join(_show(x) for x in t[2:])})"
    if k == "call":
        return f"{t[1]}({', '.join(_show(x) for x in t[2:])})"
    if k == "tuple":
        return "(" + ", ".join(_show(x) for x in t[1:]) + ")"
    if k == "alt":
        return " | ".join(_show(x) for x in t[1:])
    return str(t[1]) if len(t) > 1 else k


@rule("R-SYMZ")
def r_symz(ctx) -> RuleResult:
    res = RuleResult("R-SYMZ", "wherever an atom record is made, the element symbol kept is the very key under which the atomic number was looked up in the element table (readers and parser)")
    from .common import entry
    sym_k = ctx.repo.const("tucan.graph_attributes", "ELEMENT_SYMBOL")
    z_k = ctx.repo.const("tucan.graph_attributes", "ATOMIC_NUMBER")
    roots = [entry(ctx, "read_text"), entry(ctx, "parse")]
    fis = {}
    for r in roots:
        for q in [r.fq] + list(ctx.cg.closure([r.fq])):
            fis[q] = ctx.cg.funcs[q]
    lis_methods = [f for f in ctx.cg.funcs.values() if f.module.name == "tucan.parser.parser" and f.cls is not None]
    for f in lis_methods:
        fis[f.fq] = f
    n = 0
    for f in fis.values():
        for d in own_walk(f.node):
            if not isinstance(d, ast.Dict):
                continue
            keys = {try_const(ctx, f, k, default=None): v for k, v in zip(d.keys, d.values) if k is not None}
            if sym_k not in keys or z_k not in keys:
                continue
            n += 1
            env, _ = _sym_exec(ctx, f, {p_: ("name", p_) for p_ in params_of(f.node)})
            term = env["__term__"]
            s_t, z_t = term(keys[sym_k]), term(keys[z_k])
            # the atomic number: ELEMENT_TABLE[K][ATOMIC_NUMBER]
            lookups = []
            undecided = []
            for a in _alts(z_t):
                if isinstance(a, tuple) and a[0] == "item" and a[2] == ("const", z_k):
                    for b in _alts(a[1]):
                        if isinstance(b, tuple) and b[0] == "item":
                            lookups.append(b[2])
                        else:
                            undecided.append(b)
                else:
                    undecided.append(a)
            if undecided or not lookups:
                raise AnalysisError(f"R-SYMZ: in {f.qualname} the atomic number `{short(keys[z_k], 40)}` is not (only) an element-table look-up this analysis can read ({_show(z_t)[:120]})")
            syms = _alts(s_t)
            bad = [k for k in lookups for k1 in _alts(k) if k1 not in syms]
            res.inst(f.fq, f"symbol kept: {_show(s_t)[:70]}; atomic number looked up under: {', '.join(_show(k)[:70] for k in lookups)}", "fail" if bad else "ok")
            if bad:
                res.fail(Finding("R-SYMZ", f.module.rel, f.qualname, norm(d)[:120],
                                 f"the atomic number can come from the table entry of `{_show(bad[0])}` while the symbol kept is `{_show(s_t)}`: an atom can carry a symbol that is not the "
                                 "table's spelling of its element (the sum formula is then written with that spelling, outside the grammar and not in Hill order)", line=d.lineno))
    if n < 3:
        raise AnalysisError(f"R-SYMZ: only {n} places found where an atom record with symbol and atomic number is made (expected V2000, V3000, parser)")
    res.counts = {"atom_record_sites": n}
    return res
