"""R-TOKENS: what the V3000 tokenizer guarantees about blanks, and what the patterns applied to tokens assume about them."""
from __future__ import annotations

import ast
from typing import Optional

from ..model import AnalysisError, norm, short
from ..report import Finding, RuleResult
from . import rule
from .common import assigned_names, own_walk, params_of, single_def, sites, try_const
from .readers import reader_entries, regex_of, splice_model

OPEN = {"(": ")", "[": "]", "{": "}", '"': '"', "'": "'"}


def _events(pat: str):
    """flat list of what a pattern consumes, in order:
       ('lit', ch) | ('blank1',) a blank that must be exactly one (or a fixed number) | ('blanks',) an open-ended run of blanks
       | ('admit',) a character position that accepts a blank among others | ('other',) | ('alt',) boundary between alternatives"""
    import re._parser as sp
    from re._constants import (ANY, BRANCH, CATEGORY, CATEGORY_NOT_SPACE, CATEGORY_SPACE, IN, LITERAL, MAX_REPEAT, MAXREPEAT, MIN_REPEAT, NEGATE,
                               NOT_LITERAL, RANGE, SUBPATTERN, AT, ASSERT, ASSERT_NOT, GROUPREF)
    out = []

    def item_class(op, av):
        """'blank' (only blanks), 'admit' (blank among others), 'no' (never a blank) for a one-character item"""
        if op is LITERAL:
            return "blank" if av == 32 else "no"
        if op is NOT_LITERAL:
            return "no" if av == 32 else "admit"
        if op is ANY:
            return "admit"
        if op is CATEGORY:
            return "blank" if av is CATEGORY_SPACE else ("no" if av is CATEGORY_NOT_SPACE else "no")
        if op is IN:
            neg = any(o is NEGATE for o, _ in av)
            has_blank = False
            only_blank = True
            for o, a in av:
                if o is NEGATE:
                    continue
                if o is LITERAL:
                    if a == 32:
                        has_blank = True
                    else:
                        only_blank = False
                elif o is CATEGORY:
                    if a is CATEGORY_SPACE:
                        has_blank = True
                    else:
                        only_blank = False
                        if a is CATEGORY_NOT_SPACE and False:
                            pass
                elif o is RANGE:
                    if a[0] <= 32 <= a[1]:
                        has_blank = True
                    only_blank = False
                else:
                    only_blank = False
            if neg:
                return "no" if has_blank else "admit"
            if has_blank:
                return "blank" if only_blank else "admit"
            return "no"
        return None

    def walk(seq):
        for op, av in seq:
            c = item_class(op, av)
            if c is not None:
                if op is LITERAL and av != 32:
                    out.append(("lit", chr(av)))
                elif c == "blank":
                    out.append(("blank1",))
                elif c == "admit":
                    out.append(("admit",))
                else:
                    out.append(("other",))
                continue
            if op in (MAX_REPEAT, MIN_REPEAT):
                lo, hi, sub = av
                sub = list(sub)
                if len(sub) == 1:
                    c1 = item_class(*sub[0])
                    if c1 == "blank":
                        out.append(("blanks",) if hi == MAXREPEAT else ("blank1",))
                        continue
                    if c1 == "admit":
                        out.append(("admit",))
                        continue
                    if c1 == "no":
                        if sub[0][0] is LITERAL and lo >= 1:
                            out.append(("lit", chr(sub[0][1])))
                        else:
                            out.append(("other",))
                        continue
                walk(sub)
                continue
            if op is SUBPATTERN:
                walk(av[3])
                continue
            if op is BRANCH:
                for i, alt in enumerate(av[1]):
                    if i:
                        out.append(("alt",))
                    walk(alt)
                continue
            if op in (AT,):
                continue
            if op in (ASSERT, ASSERT_NOT):
                continue
            if op is GROUPREF:
                out.append(("other",))
                continue
            out.append(("other",))
    walk(sp.parse(pat))
    return out


def _regions(events, kinds):
    """for every event of one of `kinds`: (open, close) delimiters around it in its alternative, or None when it is not
    enclosed by a recognisable pair"""
    res = []
    for i, ev in enumerate(events):
        if ev[0] not in kinds:
            continue
        op = None
        for j in range(i - 1, -1, -1):
            if events[j][0] == "alt":
                break
            if events[j][0] == "lit" and events[j][1] in OPEN:
                op = events[j][1]
                break
            if events[j][0] == "lit" and events[j][1] in OPEN.values():
                break
        cl = None
        for j in range(i + 1, len(events)):
            if events[j][0] == "alt":
                break
            if events[j][0] == "lit" and events[j][1] in OPEN.values():
                cl = events[j][1]
                break
        res.append((op, cl) if op is not None and cl == OPEN[op] else None)
    return res


@rule("R-TOKENS")
def r_tokens(ctx) -> RuleResult:
    res = RuleResult("R-TOKENS", "V3000: runs of blanks mean the same as one blank: either the tokenizer leaves no blank inside a token, or every pattern applied to tokens accepts a run of blanks wherever it accepts one")
    v3 = reader_entries(ctx)["V3000"]
    clo = [v3] + [ctx.cg.funcs[q] for q in ctx.cg.closure([v3.fq])]
    sm = splice_model(ctx)
    if sm is None:
        raise AnalysisError("R-TOKENS: the V3000 reader has no continuation-line splicer (see R-ORDERING)")
    sp = sm["func"]
    sp_clo = {sp.fq} | set(ctx.cg.closure([sp.fq]))
    # the tokenizer: the function that takes the splicer's result apart
    toks = [f for f in clo if f.fq not in sp_clo and any(cs.kind == "tucan" and cs.target.fq == sp.fq for cs in sites(ctx, f))]
    if not toks:
        raise AnalysisError("R-TOKENS: no function uses the result of the continuation-line splicer")
    tk = toks[0]
    guarantee, detail, regions = None, "", set()
    n_split = 0
    for f in [tk] + [ctx.cg.funcs[q] for q in ctx.cg.closure([tk.fq]) if q not in sp_clo]:
        for n in own_walk(f.node):
            if not (isinstance(n, ast.Call) and isinstance(n.func, ast.Attribute)):
                continue
            a = n.func.attr
            g = None
            if a == "split" and norm(n.func.value) != "re" and regex_of(ctx, f, n.func.value) is None:
                sep = try_const(ctx, f, n.args[0]) if n.args else None
                if not n.args or sep is None and isinstance(n.args[0], ast.Constant):
                    g, d = "blankfree", f"`{short(n, 40)}` splits at every run of white space"
                elif sep == " ":
                    g, d = "blankfree", f"`{short(n, 40)}` splits at every blank"
                else:
                    continue
            elif a in ("findall", "finditer", "split"):
                pat = regex_of(ctx, f, n.args[0]) if norm(n.func.value) == "re" and n.args else regex_of(ctx, f, n.func.value)
                if pat is None:
                    if norm(n.func.value) == "re" or a != "split":
                        g, d = "unknown", f"`{short(n, 40)}`: pattern not constant"
                    else:
                        continue
                else:
                    ev = _events(pat)
                    if a == "split":
                        one = [e for e in ev if e[0] != "alt"]
                        g = "blankfree" if len(one) == 1 and one[0][0] in ("blank1", "blanks") else "unknown"
                        d = f"`{short(n, 40)}` splits at {pat!r}"
                    else:
                        adm = _regions(ev, ("admit", "blank1", "blanks"))
                        if not adm:
                            g, d = "blankfree", f"tokens are matches of {pat!r}, which never include a blank"
                        else:
                            g, d = "mayblank", f"tokens are matches of {pat!r}, which can include blanks"
                            regions |= set(adm)
            elif a == "split" and norm(n.func.value) == "shlex":
                g, d = "mayblank", "shlex.split keeps blanks inside quotes"
                regions |= {('"', '"'), ("'", "'")}
            if g is None:
                continue
            n_split += 1
            res.inst(f.fq, d, "ok")
            order = {"blankfree": 0, "mayblank": 1, "unknown": 2}
            if guarantee is None or order[g] > order[guarantee]:
                guarantee, detail = g, d
    if guarantee is None:
        guarantee, detail = "unknown", f"no split / findall found in {tk.qualname}"
    # the patterns applied to tokens further down
    n_pat = 0
    for f in clo:
        if f.fq in sp_clo or f.fq == tk.fq:
            continue
        for n in own_walk(f.node):
            pat = None
            if isinstance(n, ast.Call) and isinstance(n.func, ast.Attribute) and n.func.attr in ("search", "match", "fullmatch", "findall", "finditer", "sub"):
                if norm(n.func.value) == "re" and n.args:
                    pat = regex_of(ctx, f, n.args[0])
                    if pat is None:
                        pat = "?"
                else:
                    pat = regex_of(ctx, f, n.func.value)
            if pat is None:
                continue
            n_pat += 1
            if pat == "?":
                if guarantee != "blankfree":
                    raise AnalysisError(f"R-TOKENS: pattern of `{short(n, 40)}` in {f.qualname} is not constant")
                res.inst(f.fq, f"`{short(n, 40)}`: tokens hold no blanks", "ok")
                continue
            ev = _events(pat)
            single = _regions(ev, ("blank1",))
            if not single:
                res.inst(f.fq, f"pattern {pat!r} accepts a run of blanks wherever it accepts one", "ok")
                continue
            if guarantee == "blankfree":
                res.inst(f.fq, f"pattern {pat!r} expects single blanks; tokens hold none and are joined with one", "ok", detail=detail)
                continue
            if guarantee == "unknown":
                raise AnalysisError(f"R-TOKENS: pattern {pat!r} in {f.qualname} expects single blanks, and what the tokenizer leaves inside a token is not clear ({detail})")
            hit = [r for r in single if r in regions or None in regions]
            if hit:
                res.inst(f.fq, f"pattern {pat!r} expects single blanks", "fail", detail=detail)
                where = f"between `{hit[0][0]}` and `{hit[0][1]}`" if hit[0] is not None else "in a token"
                res.fail(Finding("R-TOKENS", f.module.rel, f.qualname, f"pattern {pat}",
                                 f"the tokenizer keeps runs of blanks {where} ({detail}), and this pattern accepts exactly one blank there: the same record written with "
                                 "two blanks is not matched (and what the code does for a non-match happens instead)", line=n.lineno))
            elif any(r is None for r in single):
                raise AnalysisError(f"R-TOKENS: pattern {pat!r} in {f.qualname} expects single blanks outside any bracket; whether the tokenizer can leave a run of blanks there is not clear ({detail})")
            else:
                res.inst(f.fq, f"pattern {pat!r} expects single blanks only where the tokenizer leaves none", "ok", detail=detail)
    if n_split == 0 and n_pat == 0:
        raise AnalysisError("R-TOKENS: neither a split nor a pattern found in the V3000 reader (anchors vanished)")
    res.counts = {"tokenizer_sites": n_split, "patterns_on_tokens": n_pat, "tokens": guarantee}
    return res
