"""R-TOKENS: what the V3000 tokenizer guarantees about blanks, and what the patterns applied to tokens assume about them."""
from __future__ import annotations

import ast
from typing import Optional

from ..model import AnalysisError, norm, short
from ..report import Finding, RuleResult
from . import rule
from .common import assigned_names, own_walk, params_of, single_def, sites, try_const
from .readers import reader_entries, regex_of, splice_model

OPEN = {"(": ")", "[": "]", "{": "}", '"': '"', "'": "'"}


def _events(pat: str):
    """flat list of what a pattern consumes, in order:
       ('lit', ch) | ('blank1',) a blank that must be exactly one (or a fixed number) | ('blanks',) an open-ended run of blanks
       | ('admit',) a character position that accepts a blank among others | ('other',) | ('alt',) boundary between alternatives"""
    import re._parser as sp
    from re._constants import (ANY, BRANCH, CATEGORY, CATEGORY_NOT_SPACE, CATEGORY_SPACE, IN, LITERAL, MAX_REPEAT, MAXREPEAT, MIN_REPEAT, NEGATE,
                               NOT_LITERAL, RANGE, SUBPATTERN, AT, ASSERT, ASSERT_NOT, GROUPREF)
    out = []

    def item_class(op, av):
        """'blank' (only blanks), 'admit' (blank among others), 'no' (never a blank) for a one-character item"""
        if op is LITERAL:
            return "blank" if av == 32 else "no"
        if op is NOT_LITERAL:
            return "no" if av == 32 else "admit"
        if op is ANY:
            return "admit"
        if op is CATEGORY:
            return "blank" if av is CATEGORY_SPACE else ("no" if av is CATEGORY_NOT_SPACE else "no")
        if op is IN:
            neg = any(o is NEGATE for o, _ in av)
            has_blank = False
            only_blank = True
            for o, a in av:
                if o is NEGATE:
                    continue
                if o is LITERAL:
                    if a == 32:
                        has_blank = True
                    else:
                        only_blank = False
                elif o is CATEGORY:
                    if a is CATEGORY_SPACE:
                        has_blank = True
                    else:
                        only_blank = False
                        if a is CATEGORY_NOT_SPACE and False:
                            pass
                elif o is RANGE:
                    if a[0] <= 32 <= a[1]:
                        has_blank = True
                    only_blank = False
                else:
                    only_blank = False
            if neg:
                return "no" if has_blank else "admit"
            if has_blank:
                return "blank" if only_blank else "admit"
            return "no"
        return None

    def walk(seq):
        for op, av in seq:
            c = item_class(op, av)
            if c is not None:
                if op is LITERAL and av != 32:
                    out.append(("lit", chr(av)))
                elif c == "blank":
                    out.append(("blank1",))
                elif c == "admit":
                    out.append(("admit",))
                else:
                    out.append(("other",))
                continue
            if op in (MAX_REPEAT, MIN_REPEAT):
                lo, hi, sub = av
                sub = list(sub)
                if len(sub) == 1:
                    c1 = item_class(*sub[0])
                    if c1 == "blank":
                        out.append(("blanks",) if hi == MAXREPEAT else ("blank1",))
                        continue
                    if c1 == "admit":
                        out.append(("admit",))
                        continue
                    if c1 == "no":
                        if sub[0][0] is LITERAL and lo >= 1:
                            out.append(("lit", chr(sub[0][1])))
                        else:
                            out.append(("other",))
                        continue
                walk(sub)
                continue
            if op is SUBPATTERN:
                walk(av[3])
                continue
            if op is BRANCH:
                for i, alt in enumerate(av[1]):
                    if i:
                        out.append(("alt",))
                    walk(alt)
                continue
            if op in (AT,):
                continue
            if op in (ASSERT, ASSERT_NOT):
                continue
            if op is GROUPREF:
                out.append(("other",))
                continue
            out.append(("other",))
    walk(sp.parse(pat))
    return out


def _regions(events, kinds):
    """for every event of one of `kinds`: (open, close) delimiters around it in its alternative, or None when it is not
    enclosed by a recognisable pair"""
    res = []
    for i, ev in enumerate(events):
        if ev[0] not in kinds:
            continue
        op = None
        for j in range(i - 1, -1, -1):
            if events[j][0] == "alt":
                break
            if events[j][0] == "lit" and events[j][1] in OPEN:
                op = events[j][1]
                break
            if events[j][0] == "lit" and events[j][1] in OPEN.values():
                break
        cl = None
        for j in range(i + 1, len(events)):
            if events[j][0] == "alt":
                break
            if events[j][0] == "lit" and events[j][1] in OPEN.values():
                cl = events[j][1]
                break
        res.append((op, cl) if op is not None and cl == OPEN[op] else None)
    return res


@rule("R-TOKENS")
def r_tokens(ctx) -> RuleResult:
    res = RuleResult("R-TOKENS", "V3000: runs of blanks mean the same as one blank: either the tokenizer leaves no blank inside a token, or every pattern applied to tokens accepts a run of blanks wherever it accepts one")
    v3 = reader_entries(ctx)["V3000"]
    clo = [v3] + [ctx.cg.funcs[q] for q in ctx.cg.closure([v3.fq])]
    sm = splice_model(ctx)
    if sm is None:
        raise AnalysisError("R-TOKENS: the V3000 reader has no continuation-line splicer (see R-ORDERING)")
    sp = sm["func"]
    sp_clo = {sp.fq} | set(ctx.cg.closure([sp.fq]))
    # the tokenizer: the function that takes the splicer's result apart
    toks = [f for f in clo if f.fq not in sp_clo and any(cs.kind == "tucan" and cs.target.fq == sp.fq for cs in sites(ctx, f))]
    if not toks:
        raise AnalysisError("R-TOKENS: no function uses the result of the continuation-line splicer")
    tk = toks[0]
    guarantee, detail, regions = None, "", set()
    n_split = 0
    for f in [tk] + [ctx.cg.funcs[q] for q in ctx.cg.closure([tk.fq]) if q not in sp_clo]:
        for n in own_walk(f.node):
            if not (isinstance(n, ast.Call) and isinstance(n.func, ast.Attribute)):
                continue
            a = n.func.attr
            g = None
            if a == "split" and norm(n.func.value) != "re" and regex_of(ctx, f, n.func.value) is None:
                sep = try_const(ctx, f, n.args[0]) if n.args else None
                if not n.args or sep is None and isinstance(n.args[0], ast.Constant):
                    g, d = "blankfree", f"`{short(n, 40)}` splits at every run of white space"
                elif sep == " ":
                    g, d = "blankfree", f"`{short(n, 40)}` splits at every blank"
                else:
                    continue
            elif a in ("findall", "finditer", "split"):
                pat = regex_of(ctx, f, n.args[0]) if norm(n.func.value) == "re" and n.args else regex_of(ctx, f, n.func.value)
                if pat is None:
                    if norm(n.func.value) == "re" or a != "split":
                        g, d = "unknown", f"`{short(n, 40)}`: pattern not constant"
                    else:
                        continue
                else:
                    ev = _events(pat)
                    if a == "split":
                        one = [e for e in ev if e[0] != "alt"]
                        g = "blankfree" if len(one) == 1 and one[0][0] in ("blank1", "blanks") else "unknown"
                        d = f"`{short(n, 40)}` splits at {pat!r}"
                    else:
                        adm = _regions(ev, ("admit", "blank1", "blanks"))
                        if not adm:
                            g, d = "blankfree", f"tokens are matches of {pat!r}, which never include a blank"
                        else:
                            g, d = "mayblank", f"tokens are matches of {pat!r}, which can include blanks"
                            regions |= set(adm)
            elif a == "split" and norm(n.func.value) == "shlex":
                g, d = "mayblank", "shlex.split keeps blanks inside quotes"
                regions |= {('"', '"'), ("'", "'")}
            if g is None:
                continue
            n_split += 1
            res.inst(f.fq, d, "ok")
            order = {"blankfree": 0, "mayblank": 1, "unknown": 2}
            if guarantee is None or order[g] > order[guarantee]:
                guarantee, detail = g, d
    if guarantee is None:
        guarantee, detail = "unknown", f"no split / findall found in {tk.qualname}"
    # the patterns applied to tokens further down
    n_pat = 0
    for f in clo:
        if f.fq in sp_clo or f.fq == tk.fq:
            continue
        for n in own_walk(f.node):
            pat = None
            if isinstance(n, ast.Call) and isinstance(n.func, ast.Attribute) and n.func.attr in ("search", "match", "fullmatch", "findall", "finditer", "sub"):
                if norm(n.func.value) == "re" and n.args:
                    pat = regex_of(ctx, f, n.args[0])
                    if pat is None:
                        pat = "?"
                else:
                    pat = regex_of(ctx, f, n.func.value)
            if pat is None:
                continue
            n_pat += 1
            if pat == "?":
                if guarantee != "blankfree":
                    raise AnalysisError(f"R-TOKENS: pattern of `{short(n, 40)}` in {f.qualname} is not constant")
                res.inst(f.fq, f"`{short(n, 40)}`: tokens hold no blanks", "ok")
                continue
            ev = _events(pat)
            single = _regions(ev, ("blank1",))
            if not single:
                res.inst(f.fq, f"pattern {pat!r} accepts a run of blanks wherever it accepts one", "ok")
                continue
            if guarantee == "blankfree":
                res.inst(f.fq, f"pattern {pat!r} expects single blanks; tokens hold none and are joined with one", "ok", detail=detail)
                continue
            if guarantee == "unknown":
                raise AnalysisError(f"R-TOKENS: pattern {pat!r} in {f.qualname} expects single blanks, and what the tokenizer leaves inside a token is not clear ({detail})")
            hit = [r for r in single if r in regions or None in regions]
            if hit:
                res.inst(f.fq, f"pattern {pat!r} expects single blanks", "fail", detail=detail)
                where = f"between `{hit[0][0]}` and `{hit[0][1]}`" if hit[0] is not None else "in a token"
                res.fail(Finding("R-TOKENS", f.module.rel, f.qualname, f"pattern {pat}",
                                 f"the tokenizer keeps runs of blanks {where} ({detail}), and this pattern accepts exactly one blank there: the same record written with "
                                 "two blanks is not matched (and what the code does for a non-match happens instead)", line=n.lineno))
            elif any(r is None for r in single):
                raise AnalysisError(f"R-TOKENS: pattern {pat!r} in {f.qualname} expects single blanks outside any bracket; whether the tokenizer can leave a run of blanks there is not clear ({detail})")
            else:
                res.inst(f.fq, f"pattern {pat!r} expects single blanks only where the tokenizer leaves none", "ok", detail=detail)
    if n_split == 0 and n_pat == 0:
        raise AnalysisError("R-TOKENS: neither a split nor a pattern found in the V3000 reader (anchors vanished)")
    res.counts = {"tokenizer_sites": n_split, "patterns_on_tokens": n_pat, "tokens": guarantee}
    return res


# --------------------------------------------------------------------------- R-SYMZ


def _sym_exec(ctx, fi, bindings: dict, depth=0):
    """straight-line symbolic reading of a function: names -> terms (nested tuples); returns (env at the end, [return terms]).
    Branches are followed one after the other and what they bind differently becomes ('alt', a, b)."""
    from .common import try_const
    env = dict(bindings)
    rets = []

    def term(e):
        if isinstance(e, ast.Constant):
            return ("const", e.value)
        if isinstance(e, ast.Name):
            if e.id in env:
                return env[e.id]
            c = try_const(ctx, fi, e, default=None)
            if isinstance(c, (str, int)):
                return ("const", c)
            return ("name", e.id)
        if isinstance(e, ast.Tuple):
            return ("tuple",) + tuple(term(x) for x in e.elts)
        if isinstance(e, ast.BoolOp):
            return ("alt",) + tuple(term(v) for v in e.values)
        if isinstance(e, ast.IfExp):
            return ("alt", term(e.body), term(e.orelse))
        if isinstance(e, ast.Subscript):
            if isinstance(e.slice, ast.Slice):
                return ("slice", term(e.value), norm(e.slice))
            return ("item", term(e.value), term(e.slice))
        if isinstance(e, ast.Attribute):
            return ("attr", term(e.value), e.attr)
        if isinstance(e, ast.NamedExpr):
            t = term(e.value)
            env[e.target.id] = t
            return t
        if isinstance(e, ast.Call):
            if isinstance(e.func, ast.Attribute) and e.func.attr == "get" and e.args:
                return ("item", term(e.func.value), term(e.args[0]))
            if isinstance(e.func, ast.Attribute):
                return ("call", e.func.attr, term(e.func.value)) + tuple(term(a) for a in e.args)
            if isinstance(e.func, ast.Name) and e.func.id in ("int", "str"):
                return term(e.args[0]) if e.args else ("const", 0)
            cs = ctx.cg.resolve_call(fi, e, ctx.cg.local_types(fi), set(params_of(fi.node)))
            if cs.kind == "tucan" and depth < 4:
                ps = params_of(cs.target.node)
                b2 = {p_: term(a_) for p_, a_ in zip(ps, e.args)}
                _, r2 = _sym_exec(ctx, cs.target, b2, depth + 1)
                if len(r2) == 1:
                    return r2[0]
                if r2:
                    return ("alt",) + tuple(r2)
            return ("call", norm(e.func)) + tuple(term(a) for a in e.args)
        return ("expr", norm(e)[:60])

    def bind(tg, t):
        if isinstance(tg, ast.Name):
            env[tg.id] = t
        elif isinstance(tg, (ast.Tuple, ast.List)):
            for i, x in enumerate(tg.elts):
                bind(x, _component(t, i))

    def run(stmts):
        for st in stmts:
            if isinstance(st, ast.Assign):
                t = term(st.value)
                for tg in st.targets:
                    bind(tg, t)
            elif isinstance(st, ast.AnnAssign) and st.value is not None:
                bind(st.target, term(st.value))
            elif isinstance(st, ast.Return) and st.value is not None:
                rets.append(term(st.value))
            elif isinstance(st, ast.If):
                before = dict(env)
                run(st.body)
                after_body = dict(env)
                env.clear()
                env.update(before)
                run(st.orelse)
                for k in set(after_body) | set(env):
                    a, b = after_body.get(k), env.get(k)
                    if a != b:
                        env[k] = ("alt", a if a is not None else ("name", k), b if b is not None else ("name", k))
            elif isinstance(st, ast.Try):
                run(st.body)
            elif isinstance(st, (ast.For, ast.While, ast.With)):
                run(st.body)
            elif isinstance(st, ast.Match):
                from ..model import desugar_match
                d_ = desugar_match(st)
                if d_ is not None:
                    run([d_])
                else:
                    for c_ in st.cases:
                        run(c_.body)
    run(fi.node.body)
    env["__term__"] = term
    return env, rets


def _component(t, i):
    if isinstance(t, tuple) and t and t[0] == "tuple" and i + 1 < len(t):
        return t[i + 1]
    if isinstance(t, tuple) and t and t[0] == "alt":
        return ("alt",) + tuple(_component(x, i) for x in t[1:])
    return ("item", t, ("const", i))


def _alts(t):
    if isinstance(t, tuple) and t and t[0] == "alt":
        out = []
        for x in t[1:]:
            out += _alts(x)
        return out
    return [t]


def _show(t) -> str:
    if not isinstance(t, tuple):
        return str(t)
    k = t[0]
    if k == "const":
        return repr(t[1])
    if k == "name":
        return t[1]
    if k == "slice":
        return f"{_show(t[1])}[{t[2]}]"
    if k == "item":
        return f"{_show(t[1])}[{_show(t[2])}]"
    if k == "attr":
        return f"{_show(t[1])}.{t[2]}"
    if k == "call" and len(t) >= 3 and isinstance(t[2], tuple):
        return f"{_show(t[2])}.{t[1]}({', '.join(_show(x) for x in t[3:])})" if not str(t[1]).count(".") and t[1].islower() and len(t) >= 3 and t[1] not in ("detect_hydrogen_isotopes",) else f"{t[1]}({', '.join(_show(x) for x in t[2:])})"
    if k == "call":
        return f"{t[1]}({', '.join(_show(x) for x in t[2:])})"
    if k == "tuple":
        return "(" + ", ".join(_show(x) for x in t[1:]) + ")"
    if k == "alt":
        return " | ".join(_show(x) for x in t[1:])
    return str(t[1]) if len(t) > 1 else k


@rule("R-SYMZ")
def r_symz(ctx) -> RuleResult:
    res = RuleResult("R-SYMZ", "wherever an atom record is made, the element symbol kept is the very key under which the atomic number was looked up in the element table (readers and parser)")
    from .common import entry
    sym_k = ctx.repo.const("tucan.graph_attributes", "ELEMENT_SYMBOL")
    z_k = ctx.repo.const("tucan.graph_attributes", "ATOMIC_NUMBER")
    roots = [entry(ctx, "read_text"), entry(ctx, "parse")]
    fis = {}
    for r in roots:
        for q in [r.fq] + list(ctx.cg.closure([r.fq])):
            fis[q] = ctx.cg.funcs[q]
    lis_methods = [f for f in ctx.cg.funcs.values() if f.module.name == "tucan.parser.parser" and f.cls is not None]
    for f in lis_methods:
        fis[f.fq] = f
    n = 0
    for f in fis.values():
        for d in own_walk(f.node):
            if not isinstance(d, ast.Dict):
                continue
            keys = {try_const(ctx, f, k, default=None): v for k, v in zip(d.keys, d.values) if k is not None}
            if sym_k not in keys or z_k not in keys:
                continue
            n += 1
            env, _ = _sym_exec(ctx, f, {p_: ("name", p_) for p_ in params_of(f.node)})
            term = env["__term__"]
            s_t, z_t = term(keys[sym_k]), term(keys[z_k])
            # the atomic number: ELEMENT_TABLE[K][ATOMIC_NUMBER]
            lookups = []
            undecided = []
            for a in _alts(z_t):
                if isinstance(a, tuple) and a[0] == "item" and a[2] == ("const", z_k):
                    for b in _alts(a[1]):
                        if isinstance(b, tuple) and b[0] == "item":
                            lookups.append(b[2])
                        else:
                            undecided.append(b)
                else:
                    undecided.append(a)
            if undecided or not lookups:
                raise AnalysisError(f"R-SYMZ: in {f.qualname} the atomic number `{short(keys[z_k], 40)}` is not (only) an element-table look-up this analysis can read ({_show(z_t)[:120]})")
            syms = _alts(s_t)
            bad = [k for k in lookups for k1 in _alts(k) if k1 not in syms]
            res.inst(f.fq, f"symbol kept: {_show(s_t)[:70]}; atomic number looked up under: {', '.join(_show(k)[:70] for k in lookups)}", "fail" if bad else "ok")
            if bad:
                res.fail(Finding("R-SYMZ", f.module.rel, f.qualname, norm(d)[:120],
                                 f"the atomic number can come from the table entry of `{_show(bad[0])}` while the symbol kept is `{_show(s_t)}`: an atom can carry a symbol that is not the "
                                 "table's spelling of its element (the sum formula is then written with that spelling, outside the grammar and not in Hill order)", line=d.lineno))
    if n < 3:
        raise AnalysisError(f"R-SYMZ: only {n} places found where an atom record with symbol and atomic number is made (expected V2000, V3000, parser)")
    res.counts = {"atom_record_sites": n}
    return res


# --------------------------------------------------------------------------- R-NOBONDS


def _edge_derived(fi, e, depth=0) -> bool:
    """does the expression enumerate the bonds of a graph (m.edges, m.edges(), nx.edges(m), a comprehension / list / sorted over
    them, or a local name bound to such)?"""
    if depth > 5:
        return False
    if isinstance(e, ast.Attribute) and e.attr == "edges":
        return True
    if isinstance(e, ast.Call):
        if isinstance(e.func, ast.Attribute) and e.func.attr == "edges":
            return True
        if norm(e.func) in ("nx.edges", "networkx.edges"):
            return True
        if isinstance(e.func, ast.Name) and e.func.id in ("list", "tuple", "sorted", "set", "iter", "reversed", "enumerate") and e.args:
            return _edge_derived(fi, e.args[0], depth + 1)
        if isinstance(e.func, ast.Attribute) and e.func.attr in ("array", "asarray", "fromiter") and e.args:
            return _edge_derived(fi, e.args[0], depth + 1)
    if isinstance(e, (ast.ListComp, ast.GeneratorExp, ast.SetComp)):
        return len(e.generators) == 1 and _edge_derived(fi, e.generators[0].iter, depth + 1)
    if isinstance(e, ast.Name):
        d = single_def(fi.node, e.id)
        return d is not None and _edge_derived(fi, d, depth + 1)
    return False


@rule("R-NOBONDS")
def r_nobonds(ctx) -> RuleResult:
    res = RuleResult("R-NOBONDS", "nothing in the pipeline needs the molecule to have a bond: no unpacking of a transposed bond list, no max / min / first element / division over the bonds without a fall-back")
    from .common import closure
    fis = {f.fq: f for f in closure(ctx, "canonicalize", "serialize", "parse", "read_text", "write")}
    n = 0
    for f in fis.values():
        par = {}
        for x in ast.walk(f.node):
            for c in ast.iter_child_nodes(x):
                par[id(c)] = x
        for x in own_walk(f.node):
            why = None
            # a, b = zip(*edges) / np.array(edges).T / np.transpose(edges)
            if isinstance(x, ast.Assign) and isinstance(x.targets[0], (ast.Tuple, ast.List)) and len(x.targets[0].elts) >= 2:
                v = x.value
                src = None
                if isinstance(v, ast.Call) and isinstance(v.func, ast.Name) and v.func.id == "zip" and len(v.args) == 1 and isinstance(v.args[0], ast.Starred):
                    src = v.args[0].value
                elif isinstance(v, ast.Attribute) and v.attr == "T":
                    src = v.value
                elif isinstance(v, ast.Call) and isinstance(v.func, ast.Attribute) and v.func.attr == "transpose":
                    src = v.args[0] if v.args else v.func.value
                elif isinstance(v, ast.Call) and isinstance(v.func, ast.Name) and v.func.id in ("map", "list", "tuple") and v.args \
                        and any(isinstance(y, ast.Call) and isinstance(y.func, ast.Name) and y.func.id == "zip" and y.args and isinstance(y.args[0], ast.Starred) for y in ast.walk(v)):
                    src = next(y.args[0].value for y in ast.walk(v) if isinstance(y, ast.Call) and isinstance(y.func, ast.Name) and y.func.id == "zip" and y.args and isinstance(y.args[0], ast.Starred))
                if src is not None:
                    n += 1
                    if _edge_derived(f, src):
                        why = f"`{short(x, 60)}` unpacks the transposed bond list into {len(x.targets[0].elts)} names: with no bond there is nothing to unpack (ValueError)"
            # max(...) / min(...) over the bonds without default
            if isinstance(x, ast.Call) and isinstance(x.func, ast.Name) and x.func.id in ("max", "min") and len(x.args) == 1 and not any(k.arg == "default" for k in x.keywords):
                n += 1
                if _edge_derived(f, x.args[0]):
                    why = f"`{short(x, 60)}` has no default: with no bond it raises ValueError"
            # edges[0] / next(iter(edges))
            if isinstance(x, ast.Subscript) and isinstance(x.ctx, ast.Load) and isinstance(x.slice, ast.Constant) and isinstance(x.slice.value, int) and _edge_derived(f, x.value) \
                    and not isinstance(x.value, ast.Attribute):
                n += 1
                why = f"`{short(x, 60)}` takes a fixed element of the bond list: with no bond it raises IndexError"
            if isinstance(x, ast.Call) and isinstance(x.func, ast.Name) and x.func.id == "next" and len(x.args) == 1 and _edge_derived(f, x.args[0]):
                n += 1
                why = f"`{short(x, 60)}` has no default: with no bond it raises StopIteration"
            # x / number_of_edges()
            if isinstance(x, ast.BinOp) and isinstance(x.op, (ast.Div, ast.FloorDiv, ast.Mod)):
                r = x.right
                if (isinstance(r, ast.Call) and isinstance(r.func, ast.Attribute) and r.func.attr in ("number_of_edges", "size") and not r.args) or \
                        (isinstance(r, ast.Call) and isinstance(r.func, ast.Name) and r.func.id == "len" and r.args and _edge_derived(f, r.args[0])):
                    n += 1
                    guarded = False
                    p = par.get(id(x))
                    while p is not None and not guarded:
                        if isinstance(p, (ast.If, ast.IfExp)) and any(isinstance(y, ast.Call) and isinstance(y.func, ast.Attribute) and y.func.attr in ("number_of_edges", "size") for y in ast.walk(p.test)):
                            guarded = True
                        p = par.get(id(p))
                    if not guarded:
                        why = f"`{short(x, 60)}` divides by the number of bonds: ZeroDivisionError for a molecule without bonds"
            if why:
                res.inst(f.fq, why, "fail")
                res.fail(Finding("R-NOBONDS", f.module.rel, f.qualname, norm(x)[:120], why + "; atoms without bonds (noble gases, ions) are in the domain", line=x.lineno))
    # fixture: the planted idiom must be recognised
    from ..model import Repo
    fx = Repo(ctx.repo.root, {**ctx.repo.overlay, "tucan/_tsa_fixture_nobonds.py": "def _fx(m):\n    a, b = zip(*m.edges)\n    return a, b\n"})
    ffx = fx.func("tucan._tsa_fixture_nobonds._fx")
    asg = next(x for x in ast.walk(ffx.node) if isinstance(x, ast.Assign))
    if not _edge_derived(ffx, asg.value.args[0].value):
        raise AnalysisError("R-NOBONDS self-test: planted zip(*m.edges) not recognised")
    res.inst("pipeline closures", f"{len(fis)} functions scanned, {n} candidate constructs", "ok")
    res.counts = {"functions": len(fis), "candidate_constructs": n, "fixture_detected": 1}
    return res


# --------------------------------------------------------------------------- R-BONDTYPE


@rule("R-BONDTYPE")
def r_bondtype(ctx) -> RuleResult:
    res = RuleResult("R-BONDTYPE", "both molfile readers take every bond type of the format (V2000: 1-8, V3000: 1-10) and keep the number as it is written")
    from ..concrete import GAP, UNKNOWN, PathEval, PState, _Unknown
    from .readers import block_decoder
    from .spec import V2000_BOND_TYPES, V3000_BOND_TYPES
    bt_k = ctx.repo.const("tucan.graph_attributes", "BOND_TYPE")

    def consts_of(f_):
        import re as _re
        out_ = {}
        for nm in {x.id for x in ast.walk(f_.node) if isinstance(x, ast.Name)}:
            v = try_const(ctx, f_, ast.Name(nm, ast.Load()), default=None)
            if v is not None:
                out_.setdefault(nm, v)
            else:
                pat = regex_of(ctx, f_, ast.Name(nm, ast.Load())) if nm not in params_of(f_.node) else None
                if pat is not None:
                    try:
                        out_.setdefault(nm, _re.compile(pat))
                    except _re.error:
                        pass
        return out_
    for ver, types in (("V2000", V2000_BOND_TYPES), ("V3000", V3000_BOND_TYPES)):
        ent = reader_entries(ctx)[ver]
        clo = [ent] + [ctx.cg.funcs[q] for q in ctx.cg.closure([ent.fq])]
        # the function that makes the bond record: a dict display with the bond-type key
        makers = []
        for f in clo:
            for d in own_walk(f.node):
                if isinstance(d, ast.Dict) and any(k is not None and try_const(ctx, f, k, default=None) == bt_k for k in d.keys):
                    makers.append((f, d))
        if len(makers) != 1:
            raise AnalysisError(f"R-BONDTYPE: {ver}: {len(makers)} places make a bond record (expected one)")
        f, d = makers[0]
        ps = params_of(f.node)
        if not ps:
            raise AnalysisError(f"R-BONDTYPE: {ver}: {f.qualname} takes no line")
        calls = {}
        for g in [ctx.cg.funcs[q] for q in ctx.cg.closure([f.fq])]:
            if g.cls is None and "." not in g.qualname:
                calls[g.name] = (g.node, consts_of(g))
        bad, undecided = [], []
        # the record may be made in a function of one line, or inside the loop over the lines of the block
        loop = None
        for lp in own_walk(f.node):
            if isinstance(lp, ast.For) and isinstance(lp.target, ast.Name) and any(x is d for x in ast.walk(lp)):
                loop = lp
        tkey = next(v for k, v in zip(d.keys, d.values) if k is not None and try_const(ctx, f, k, default=None) == bt_k)
        for t in types:
            sample = f"{1:>3}{2:>3}{t:>3}  0  0  0  0" if ver == "V2000" else ["M", "V30", "1", str(t), "1", "2"]
            pe = PathEval(calls)
            from .common import record_classes
            pe.record_classes = record_classes(ctx, f.module)
            env = consts_of(f)
            for p_ in ps:
                env[p_] = UNKNOWN
            if loop is not None:
                for nm in {x.id for x in ast.walk(f.node) if isinstance(x, ast.Name) and isinstance(x.ctx, ast.Store)}:
                    env[nm] = UNKNOWN
                env[loop.target.id] = sample
                falls, lefts = pe.block(loop.body, [PState(env)])
                ends = falls + [s_ for s_, how, _v in lefts if how in ("continue", "break", "return")]
                if not ends:
                    if pe.gaps:
                        undecided.append((t, pe.gaps[0]))
                    else:
                        bad.append((t, "rejected"))
                    continue
                kept = set()
                for s_ in ends:
                    v = pe.ev(tkey, s_)
                    kept.add(None if isinstance(v, _Unknown) else v)
                if kept == {t}:
                    continue
                if None in kept:
                    undecided.append((t, pe.gaps[0] if pe.gaps else "the bond type kept for the sample is not determined"))
                else:
                    bad.append((t, f"kept as {sorted(kept)}"))
                continue
            env[ps[0]] = sample
            falls, lefts = pe.block(f.node.body, [PState(env)])
            rets = [v for _s, how, v in lefts if how == "return"]
            if not rets and not falls:
                if pe.gaps:
                    undecided.append((t, pe.gaps[0]))
                else:
                    bad.append((t, "rejected"))
                continue
            # the number kept
            kept = set()
            for v in rets:
                rec = v
                if isinstance(v, tuple):
                    rec = next((x for x in v if isinstance(x, dict) and bt_k in x), None)
                if isinstance(rec, dict) and bt_k in rec and not isinstance(rec[bt_k], _Unknown):
                    kept.add(rec[bt_k])
                else:
                    kept.add(None)
            if kept == {t}:
                continue
            if None in kept:
                undecided.append((t, pe.gaps[0] if pe.gaps else "the record returned for the sample is not read"))
            else:
                bad.append((t, f"kept as {sorted(kept)}"))
        if undecided and not bad:
            raise AnalysisError(f"R-BONDTYPE: {ver}: cannot follow {f.qualname} on a sample bond line of type {undecided[0][0]} ({undecided[0][1]})")
        res.inst(f.fq, f"{ver}: bond types {types[0]}..{types[-1]} are taken and kept", "fail" if bad else "ok")
        if bad:
            res.fail(Finding("R-BONDTYPE", f.module.rel, f.qualname, norm(d)[:100],
                             f"{ver}: a bond line of type {', '.join(str(t) for t, _ in bad)} is {bad[0][1]}: the format defines types {types[0]}..{types[-1]}"
                             + (" (9 coordination, 10 hydrogen; the writer emits whatever type the graph carries)" if ver == "V3000" else ""), line=d.lineno))
    return res


# --------------------------------------------------------------------------- R-RECMERGE


@rule("R-RECMERGE")
def r_recmerge(ctx) -> RuleResult:
    res = RuleResult("R-RECMERGE", "per-atom records that are collected attribute by attribute are merged, not replaced: no `D.update({atom: {attr: value}})` / `D[atom] = {attr: value}` in a loop over several attributes")
    from .common import closure
    ga = ctx.repo.module("tucan.graph_attributes")
    attr_keys = {v for n_ in ga.assigns for v in [ctx.repo.try_const(ga, n_, None)] if isinstance(v, str)}
    fis = {f.fq: f for f in closure(ctx, "canonicalize", "serialize", "parse", "read_text", "write")}
    n_loops = 0
    for f in fis.values():
        for lp in own_walk(f.node):
            if not isinstance(lp, ast.For):
                continue
            it = try_const(ctx, f, lp.iter, default=None)
            if isinstance(lp.iter, ast.Call) and isinstance(lp.iter.func, ast.Attribute) and lp.iter.func.attr in ("items", "keys", "values") and not lp.iter.args:
                base = try_const(ctx, f, lp.iter.func.value, default=None)
                if isinstance(base, dict):
                    it = list(base.items()) if lp.iter.func.attr == "items" else (list(base) if lp.iter.func.attr == "keys" else list(base.values()))
            if isinstance(it, dict):
                it = list(it)
            if not isinstance(it, (list, tuple)) or len(it) < 2:
                continue
            flat = []
            for x in it:
                flat += list(x) if isinstance(x, (tuple, list)) else [x]
            if not any(isinstance(x, str) and x in attr_keys for x in flat):
                continue
            n_loops += 1
            lvars = {x.id for x in ast.walk(lp.target) if isinstance(x, ast.Name)}
            assigned_in = {x.id for x in ast.walk(lp) if isinstance(x, ast.Name) and isinstance(x.ctx, ast.Store)}
            for n in ast.walk(lp):
                rec = key = tgt = None
                if isinstance(n, ast.Call) and isinstance(n.func, ast.Attribute) and n.func.attr == "update" and isinstance(n.func.value, ast.Name) and len(n.args) == 1:
                    a = n.args[0]
                    if isinstance(a, ast.DictComp) and isinstance(a.value, ast.Dict):
                        rec, key, tgt = a.value, a.key, n.func.value.id
                    elif isinstance(a, (ast.GeneratorExp, ast.ListComp)) and isinstance(a.elt, ast.Tuple) and len(a.elt.elts) == 2 and isinstance(a.elt.elts[1], ast.Dict):
                        rec, key, tgt = a.elt.elts[1], a.elt.elts[0], n.func.value.id
                    elif isinstance(a, ast.Dict) and len(a.keys) == 1 and isinstance(a.values[0], ast.Dict):
                        rec, key, tgt = a.values[0], a.keys[0], n.func.value.id
                elif isinstance(n, ast.Assign) and isinstance(n.targets[0], ast.Subscript) and isinstance(n.targets[0].value, ast.Name) and isinstance(n.value, ast.Dict) and n.value.keys:
                    rec, key, tgt = n.value, n.targets[0].slice, n.targets[0].value.id
                if rec is None or tgt in assigned_in:
                    continue
                # a fresh record per pass, keyed by something that does not depend on the attribute of this pass
                key_names = {x.id for x in ast.walk(key) if isinstance(x, ast.Name)}
                if key_names & lvars:
                    continue
                if any(k is None for k in rec.keys):          # {**old, attr: value}: merges
                    continue
                rec_names = {x.id for k in rec.keys for x in ast.walk(k) if isinstance(x, ast.Name)}
                if not (rec_names & lvars):
                    continue          # the record's keys do not change from pass to pass
                res.inst(f.fq, short(n, 70), "fail")
                res.fail(Finding("R-RECMERGE", f.module.rel, f.qualname, norm(n)[:120],
                                 f"every pass of the loop over {[x for x in flat if isinstance(x, str)][:4]} stores a fresh one-entry record under the atom in `{tgt}`, replacing what an earlier pass stored there: "
                                 "an atom that carries several of these attributes keeps only the last one (e.g. the isotope mass of an atom that is also a radical is lost)", line=n.lineno))
    res.inst("pipeline closures", f"{n_loops} loops over attribute tables examined", "ok")
    res.counts = {"loops_over_attribute_tables": n_loops}
    return res


# --------------------------------------------------------------------------- R-EDGEDATA


@rule("R-EDGEDATA")
def r_edgedata(ctx) -> RuleResult:
    res = RuleResult("R-EDGEDATA", "the graph canonicalize_molecule returns is the input relabelled; if it descends from a graph that was built anew inside the pipeline, that graph is given the bonds together with their data")
    from .common import closure, entry
    from .flow import _run_canon
    I, r = _run_canon(ctx)
    can = entry(ctx, "canonicalize")
    if r.kind != "graph":
        raise AnalysisError(f"R-EDGEDATA: canonicalize_molecule does not return a graph in the T-domain ({r.kind})")
    rebuilt_result = r.oid != "G0"
    res.inst(can.fq, "result descends from " + ("a graph built anew" if rebuilt_result else "the input graph (relabelled copies)"), "ok")
    if not rebuilt_result:
        res.counts = {"rebuilt": 0}
        return res
    sites = []
    clo = closure(ctx, "canonicalize")
    for f in clo:
        for n in own_walk(f.node):
            if isinstance(n, ast.Assign) and isinstance(n.value, ast.Call) and isinstance(n.targets[0], ast.Name):
                rr = ctx.repo.resolve_dotted(f.module, n.value.func)
                if rr and rr[0] == "ext" and rr[1] == "networkx.Graph" and not n.value.args:
                    sites.append((f, n.targets[0].id, n))
    if len(sites) != 1:
        raise AnalysisError(f"R-EDGEDATA: the result of canonicalize_molecule descends from a rebuilt graph, and {len(sites)} graphs are built in its closure: cannot tell which")
    f, g, site = sites[0]
    with_data = without = None
    for n in own_walk(f.node):
        if isinstance(n, ast.Call) and isinstance(n.func, ast.Attribute) and isinstance(n.func.value, ast.Name) and n.func.value.id == g:
            if n.func.attr == "add_edges_from" and n.args:
                a = n.args[0]
                txt = norm(a)
                has = "data=True" in txt or ".data(" in txt or (isinstance(a, (ast.GeneratorExp, ast.ListComp)) and isinstance(a.elt, ast.Tuple) and len(a.elt.elts) == 3)
                if has:
                    with_data = n
                else:
                    without = n
            elif n.func.attr == "add_edge":
                if any(k.arg is None for k in n.keywords) or len(n.args) > 2 or n.keywords:
                    with_data = n
                else:
                    without = n
            elif n.func.attr in ("add_weighted_edges_from", "update"):
                raise AnalysisError(f"R-EDGEDATA: `{short(n, 50)}`: form not read")
    if with_data is None and without is None:
        raise AnalysisError(f"R-EDGEDATA: cannot see how the graph `{g}` built in {f.qualname} gets its bonds")
    restored = [x for f2 in clo for x in own_walk(f2.node)
                if (isinstance(x, ast.Call) and norm(x.func).endswith("set_edge_attributes"))
                or (isinstance(x, ast.Subscript) and isinstance(x.value, ast.Attribute) and x.value.attr == "edges" and isinstance(x.ctx, ast.Store))
                or (isinstance(x, ast.Call) and isinstance(x.func, ast.Attribute) and x.func.attr == "update" and isinstance(x.func.value, ast.Subscript)
                    and isinstance(x.func.value.value, ast.Attribute) and x.func.value.value.attr == "edges")]
    # a loop over all bonds of the input with their data that updates the corresponding bond of another graph gives
    # every bond its data back
    complete = False
    for f2 in clo:
        for lp in own_walk(f2.node):
            if isinstance(lp, ast.For) and isinstance(lp.target, ast.Tuple) and len(lp.target.elts) == 3 and isinstance(lp.target.elts[2], ast.Name) \
                    and ("data=True" in norm(lp.iter) or ".data(" in norm(lp.iter)) and ".edges" in norm(lp.iter):
                d_ = lp.target.elts[2].id
                for x in ast.walk(ast.Module(lp.body, [])):
                    if isinstance(x, ast.Call) and isinstance(x.func, ast.Attribute) and x.func.attr == "update" and isinstance(x.func.value, ast.Subscript) \
                            and isinstance(x.func.value.value, ast.Attribute) and x.func.value.value.attr == "edges" and any(isinstance(a, ast.Name) and a.id == d_ for a in x.args) \
                            and not any(isinstance(y, (ast.If, ast.Break, ast.Continue)) for y in ast.walk(ast.Module(lp.body, []))):
                        complete = True
    if without is not None and complete:
        res.inst(f.fq, f"`{short(without, 50)}` adds the bonds bare; a loop over all bonds of the input writes their data back", "ok")
        res.counts = {"rebuilt": 1}
        return res
    if without is not None and restored:
        raise AnalysisError(f"R-EDGEDATA: `{short(without, 50)}` adds the bonds without their data and `{short(restored[0], 50)}` writes bond data later; whether that restores all of it is beyond this analysis")
    ok = without is None
    res.inst(f.fq, f"`{short(with_data or without, 60)}` carries the bond data", "ok" if ok else "fail")
    if not ok:
        res.fail(Finding("R-EDGEDATA", f.module.rel, f.qualname, norm(without),
                         "the graph that canonicalize_molecule returns descends from this rebuilt graph, whose bonds are added without their data, and nothing writes bond data later: "
                         "every bond of the canonical graph has lost its attributes (bond type)", line=without.lineno))
    res.counts = {"rebuilt": 1}
    return res


# --------------------------------------------------------------------------- R-IDXTRUTH


@rule("R-IDXTRUTH")
def r_idxtruth(ctx) -> RuleResult:
    res = RuleResult("R-IDXTRUTH", "a zero-based atom index is never used as a truth value: index 0 is the first atom, not `no atom`")
    from .common import closure, entry
    fis = {f.fq: f for f in closure(ctx, "read_text", "parse")}
    for f in ctx.cg.funcs.values():
        if f.module.name == "tucan.parser.parser" and f.cls is not None:
            fis[f.fq] = f
    n_idx = n_uses = 0

    def zero_based(e) -> bool:
        """<number parsed from text> - k with k >= 1"""
        return isinstance(e, ast.BinOp) and isinstance(e.op, ast.Sub) and isinstance(e.right, ast.Constant) and isinstance(e.right.value, int) and e.right.value >= 1 \
            and any(isinstance(x, ast.Call) and isinstance(x.func, ast.Name) and (x.func.id == "int" or "int" in x.func.id.lower()) for x in ast.walk(e.left))
    for f in fis.values():
        idx: set = set()
        for _ in range(3):
            for n in own_walk(f.node):
                if isinstance(n, (ast.Assign, ast.AnnAssign, ast.NamedExpr)):
                    tg = n.targets[0] if isinstance(n, ast.Assign) else n.target
                    v = n.value
                    if v is None or not isinstance(tg, ast.Name):
                        continue
                    if zero_based(v):
                        idx.add(tg.id)
                    elif isinstance(v, ast.Name) and v.id in idx:
                        idx.add(tg.id)
                    elif isinstance(v, ast.IfExp):
                        parts = []
                        stack = [v]
                        while stack:
                            x = stack.pop()
                            if isinstance(x, ast.IfExp):
                                stack += [x.body, x.orelse]
                            else:
                                parts.append(x)
                        if any(isinstance(p_, ast.Name) and p_.id in idx or zero_based(p_) for p_ in parts) and \
                                all((isinstance(p_, ast.Name) and p_.id in idx) or zero_based(p_) or (isinstance(p_, ast.Constant) and p_.value is None) for p_ in parts):
                            idx.add(tg.id)
        n_idx += len(idx)
        if not idx:
            continue
        par = {}
        for x in ast.walk(f.node):
            for c in ast.iter_child_nodes(x):
                par[id(c)] = x
        for x in own_walk(f.node):
            if not (isinstance(x, ast.Name) and isinstance(x.ctx, ast.Load) and x.id in idx):
                continue
            p_ = par.get(id(x))
            truth = (isinstance(p_, (ast.If, ast.While, ast.IfExp, ast.Assert)) and p_.test is x) \
                or (isinstance(p_, ast.UnaryOp) and isinstance(p_.op, ast.Not)) \
                or (isinstance(p_, ast.BoolOp) and x in p_.values[:-1]) \
                or (isinstance(p_, ast.BoolOp) and isinstance(par.get(id(p_)), (ast.If, ast.While, ast.IfExp)) and par.get(id(p_)).test is p_) \
                or (isinstance(p_, ast.Call) and isinstance(p_.func, ast.Name) and p_.func.id == "bool") \
                or (isinstance(p_, ast.comprehension) and x in p_.ifs)
            if truth:
                n_uses += 1
                res.inst(f.fq, f"`{short(p_, 60)}` tests the index `{x.id}` for truth", "fail")
                res.fail(Finding("R-IDXTRUTH", f.module.rel, f.qualname, norm(p_)[:100],
                                 f"`{x.id}` holds a zero-based atom index (or None); as a truth value the first atom (index 0) counts as `nothing`: a record that refers to the first atom is "
                                 "handled as if it referred to no atom", line=x.lineno))
    # fixture
    from ..model import Repo
    fx = Repo(ctx.repo.root, {**ctx.repo.overlay, "tucan/_tsa_fixture_idx.py": "def _fx(line, star):\n    a = int(line[4]) - 1\n    p = a if star else None\n    if p:\n        return 1\n    return 0\n"})
    ffx = fx.func("tucan._tsa_fixture_idx._fx")
    if not any(isinstance(n, ast.Assign) and zero_based(n.value) for n in ast.walk(ffx.node)):
        raise AnalysisError("R-IDXTRUTH self-test: planted zero-based index not recognised")
    res.inst("reader and parser closures", f"{len(fis)} functions, {n_idx} names holding zero-based indices, {n_uses} used as truth values", "ok" if not n_uses else "fail")
    res.counts = {"functions": len(fis), "index_names": n_idx, "truth_uses": n_uses, "fixture_detected": 1}
    return res


# --------------------------------------------------------------------------- R-CANONPATH


@rule("R-CANONPATH")
def r_canonpath(ctx) -> RuleResult:
    res = RuleResult("R-CANONPATH", "canonicalize_molecule hands back a graph only after the classes were computed from the invariant codes, bliss was consulted and the nodes were relabelled; the only short cut allowed is for the molecule without atoms")
    from ..cfg import cfg_of
    from .common import entry
    can = entry(ctx, "canonicalize")
    fn = can.node
    cfg = cfg_of(fn)
    part = ctx.repo.const("tucan.graph_attributes", "PARTITION")

    def closure_has(f, pred) -> bool:
        for q in [f.fq] + list(ctx.cg.closure([f.fq])):
            g = ctx.cg.funcs[q]
            if any(pred(g, x) for x in own_walk(g.node)):
                return True
        return False

    def writes_partition(g, x):
        if isinstance(x, ast.Call) and norm(x.func).endswith("set_node_attributes"):
            nm = x.args[2] if len(x.args) >= 3 else next((k.value for k in x.keywords if k.arg == "name"), None)
            return nm is not None and try_const(ctx, g, nm, default=None) == part
        # G.nodes[a][PARTITION] = ..
        if isinstance(x, ast.Subscript) and isinstance(x.ctx, ast.Store) and isinstance(x.value, ast.Subscript) and isinstance(x.value.value, ast.Attribute) \
                and x.value.value.attr in ("nodes", "_node"):
            return try_const(ctx, g, x.slice, default=None) == part
        return False

    def calls_bliss(g, x):
        return isinstance(x, ast.Call) and isinstance(x.func, ast.Attribute) and x.func.attr == "canonical_permutation"
    steps = {"classes computed (partition attribute written)": [], "bliss consulted": [], "nodes relabelled": []}
    for st in own_walk(fn):
        if not isinstance(st, ast.stmt) or st is fn or isinstance(st, (ast.If, ast.For, ast.While, ast.Try, ast.With)):
            continue
        for x in ast.walk(st):
            if not isinstance(x, ast.Call):
                continue
            cs = ctx.cg.resolve_call(can, x, ctx.cg.local_types(can), set(params_of(fn)))
            n = cfg.node_of(st) if cfg.node_of(st) is not None else cfg.stmt_node_containing(st)
            if n is None:
                continue
            if cs.kind == "tucan":
                if closure_has(cs.target, writes_partition):
                    steps["classes computed (partition attribute written)"].append(n)
                if closure_has(cs.target, calls_bliss):
                    steps["bliss consulted"].append(n)
                if closure_has(cs.target, lambda g, y: isinstance(y, ast.Call) and norm(y.func).endswith("relabel_nodes")):
                    steps["nodes relabelled"].append(n)
            elif cs.kind == "ext" and cs.target == "networkx.relabel_nodes":
                steps["nodes relabelled"].append(n)
            elif calls_bliss(can, x):
                steps["bliss consulted"].append(n)
    missing = [k for k, v in steps.items() if not v]
    if missing:
        raise AnalysisError(f"R-CANONPATH: canonicalize_molecule has no statement for: {missing} (anchor vanished)")
    from .parserwiring import _guard_tests
    gname = params_of(fn)[0]
    empty_tests = {f"{gname}.number_of_nodes() == 0", f"len({gname}) == 0", f"not {gname}", f"not {gname}.nodes", f"len({gname}.nodes) == 0", f"{gname}.number_of_nodes() < 1",
                   f"not {gname}.number_of_nodes()", f"{gname}.order() == 0"}
    for r in [x for x in own_walk(fn) if isinstance(x, ast.Return) and x.value is not None]:
        rn = cfg.node_of(r)
        skipped = [k for k, nodes in steps.items() if not any(cfg.dominates(n, rn) for n in nodes)]
        if not skipped:
            res.inst(can.fq, f"`{short(r, 50)}` comes after classes, bliss and relabelling", "ok")
            continue
        tests = [t for t in _guard_tests(fn, r) if not isinstance(t, tuple)]
        only_empty = bool(tests) and all(norm(t) in empty_tests for t in tests)
        res.inst(can.fq, f"`{short(r, 50)}` skips {skipped}", "ok" if only_empty else "fail", detail="only for the molecule without atoms" if only_empty else "")
        if not only_empty:
            res.fail(Finding("R-CANONPATH", can.module.rel, can.qualname, norm(r),
                             f"this return is reached without: {', '.join(skipped)}" + (f" (under `{short(tests[0], 50)}`)" if tests else "") +
                             ": the graph handed back keeps the caller's labels and whatever partition numbers it came with, so classes and numbering are not those of the canonical form", line=r.lineno))
    return res


# --------------------------------------------------------------------------- R-COUNTSLINE


@rule("R-COUNTSLINE")
def r_countsline(ctx) -> RuleResult:
    res = RuleResult("R-COUNTSLINE", "V3000: a counts line with the optional `REGNO=` field of the format is accepted like one without it")
    from ..concrete import UNKNOWN, PathEval, PState
    from .common import mentions_text
    v3 = reader_entries(ctx)["V3000"]
    clo = [v3] + [ctx.cg.funcs[q] for q in ctx.cg.closure([v3.fq])]
    cands = [f for f in clo if mentions_text(ctx, f, f.node, "COUNTS") and any(isinstance(x, ast.Raise) for x in own_walk(f.node)) and params_of(f.node)]
    if not cands:
        raise AnalysisError("R-COUNTSLINE: no function of the V3000 reader checks the counts line (anchor vanished)")

    def consts_of(f_):
        out_ = {}
        for nm in {x.id for x in ast.walk(f_.node) if isinstance(x, ast.Name)}:
            v = try_const(ctx, f_, ast.Name(nm, ast.Load()), default=None)
            if v is not None:
                out_.setdefault(nm, v)
        return out_
    base = ["M", "V30", "COUNTS", "4", "3", "0", "0", "0"]
    import itertools
    for f in cands:
        calls = {g.name: (g.node, consts_of(g)) for g in [ctx.cg.funcs[q] for q in ctx.cg.closure([f.fq])] if g.cls is None and "." not in g.qualname}
        # the test that rejects a bad counts line: an `if` that mentions COUNTS and raises
        for st in own_walk(f.node):
            if not (isinstance(st, ast.If) and mentions_text(ctx, f, st.test, "COUNTS")):
                continue
            if any(isinstance(x, ast.Raise) for x in st.body):
                reject_when = True
            elif st.body and isinstance(st.body[-1], (ast.Return, ast.Pass, ast.Continue)) and any(isinstance(x, ast.Raise) for x in own_walk(f.node) if getattr(x, "lineno", 0) > st.end_lineno):
                reject_when = False          # `if <line is fine>: return` ... raise
            else:
                continue
            names = sorted({x.id for x in ast.walk(st.test) if isinstance(x, ast.Name) and isinstance(x.ctx, ast.Load)} - set(consts_of(f)) - set(calls)
                           - {"len", "all", "any", "int", "str", "isinstance", "list", "tuple"})
            names = [n_ for n_ in names if not any(isinstance(c_, ast.comprehension) and any(isinstance(t_, ast.Name) and t_.id == n_ for t_ in ast.walk(c_.target)) for c_ in ast.walk(st.test))]
            if not names or len(names) > 2:
                continue

            def outcome(tokens, shape):
                pe = PathEval(calls)
                env = consts_of(f)
                for nm, how in zip(names, shape):
                    env[nm] = list(tokens) if how == "line" else [UNKNOWN] * 5 + [list(tokens)] + [UNKNOWN] * 12
                return pe.test(st.test, PState(env)), pe.gaps
            fits = [sh for sh in itertools.product(("line", "lines"), repeat=len(names)) if outcome(base, sh)[0] is (not reject_when)]
            if len(fits) != 1:
                continue
            t1, g1 = outcome(base + ["REGNO=4711"], fits[0])
            if t1 is not None:
                t1 = (t1 == reject_when)
            if t1 is None:
                raise AnalysisError(f"R-COUNTSLINE: cannot evaluate `{short(st.test, 60)}` in {f.qualname} on the sample counts line" + (f" ({g1[0]})" if g1 else ""))
            res.inst(f.fq, "`M  V30 COUNTS 4 3 0 0 0 REGNO=4711` is accepted like `M  V30 COUNTS 4 3 0 0 0`", "fail" if t1 else "ok")
            if t1:
                res.fail(Finding("R-COUNTSLINE", f.module.rel, f.qualname, norm(st.test)[:120],
                                 "a counts line that carries the format's optional `REGNO=regno` field is rejected although the same line without it is accepted: a conformant file is refused",
                                 line=st.lineno))
    if not res.instances:
        raise AnalysisError("R-COUNTSLINE: none of the functions that mention COUNTS accepts the plain sample counts line at index 5 of the token lines")
    return res


# --------------------------------------------------------------------------- R-NONECHECK


@rule("R-NONECHECK")
def r_nonecheck(ctx) -> RuleResult:
    res = RuleResult("R-NONECHECK", "the result of a pattern search (None when nothing matches) is looked into only after a test of it: a line without the searched text does not end in AttributeError / TypeError")
    from ..cfg import cfg_of
    from .common import closure
    fis = {f.fq: f for f in closure(ctx, "read_text", "parse", "write")}
    for f in ctx.cg.funcs.values():
        if f.module.name == "tucan.parser.parser" and f.cls is not None:
            fis[f.fq] = f
    n = 0
    for f in fis.values():
        fn = f.node
        maybe_none: dict[str, ast.AST] = {}
        for x in own_walk(fn):
            tg = v = None
            if isinstance(x, ast.Assign) and len(x.targets) == 1 and isinstance(x.targets[0], ast.Name):
                tg, v = x.targets[0].id, x.value
            elif isinstance(x, ast.NamedExpr) and isinstance(x.target, ast.Name):
                tg, v = x.target.id, x.value
            if tg is None or not (isinstance(v, ast.Call) and isinstance(v.func, ast.Attribute) and v.func.attr in ("search", "match", "fullmatch")):
                continue
            recv = v.func.value
            is_re = norm(recv) == "re" or regex_of(ctx, f, recv) is not None or (isinstance(recv, ast.Name) and "pattern" in recv.id.lower()) \
                or (isinstance(recv, ast.Call) and norm(recv.func) in ("re.compile", "compile"))
            if is_re:
                maybe_none[tg] = x
        if not maybe_none:
            continue
        cfg = cfg_of(fn)
        par = {}
        for x in ast.walk(fn):
            for c in ast.iter_child_nodes(x):
                par[id(c)] = x
        for name, d in maybe_none.items():
            if len([1 for y in own_walk(fn) if isinstance(y, (ast.Assign, ast.NamedExpr)) and any(isinstance(t_, ast.Name) and t_.id == name for t_ in ([y.target] if isinstance(y, ast.NamedExpr) else y.targets))]) != 1:
                continue        # bound more than once: not followed
            dn = cfg.stmt_node_containing(d)
            if isinstance(d, ast.NamedExpr):
                # bound inside a test (`if not (m := P.match(x)): ...`, `(m := ...) and m.group()`): tested where it is made
                up, born_in_test = d, False
                while id(up) in par:
                    q = par[id(up)]
                    if (isinstance(q, (ast.If, ast.While, ast.IfExp, ast.Assert)) and q.test is up) or isinstance(q, ast.BoolOp) or (isinstance(q, ast.comprehension) and up in q.ifs):
                        born_in_test = True
                        break
                    if isinstance(q, ast.stmt):
                        break
                    up = q
                if born_in_test:
                    n += 1
                    res.inst(f.fq, f"`{short(d, 60)}` is tested where it is made", "ok")
                    continue
            # tests of the name: `if m`, `if m is None`, `if not m`, `while m`, `assert m`, `m and ...`, `... if m else ...`
            tests, inline_ok = [], set()
            for y in own_walk(fn):
                if isinstance(y, (ast.If, ast.While, ast.Assert)) and any(isinstance(z, ast.Name) and z.id == name for z in ast.walk(y.test)):
                    tn = cfg.node_of(y) if cfg.node_of(y) is not None else cfg.stmt_node_containing(y)
                    if tn is not None:
                        tests.append(tn)
                if isinstance(y, (ast.IfExp,)) and any(isinstance(z, ast.Name) and z.id == name for z in ast.walk(y.test)):
                    inline_ok |= {id(z) for z in ast.walk(y)}
                if isinstance(y, ast.BoolOp):
                    for i_, v_ in enumerate(y.values):
                        if any(isinstance(z, ast.Name) and z.id == name for z in ast.walk(v_)) and not any(isinstance(z, (ast.Attribute, ast.Subscript)) and isinstance(z.value, ast.Name) and z.value.id == name for z in ast.walk(v_)):
                            for later in y.values[i_ + 1:]:
                                inline_ok |= {id(z) for z in ast.walk(later)}
                if isinstance(y, ast.comprehension) and any(isinstance(z, ast.Name) and z.id == name for c_ in y.ifs for z in ast.walk(c_)):
                    inline_ok |= {id(z) for z in ast.walk(par.get(id(y)))} if par.get(id(y)) is not None else set()
                if isinstance(y, ast.Try):
                    # looked into inside a try whose handler takes AttributeError / TypeError / everything
                    if any(h.type is None or any(nm in norm(h.type) for nm in ("AttributeError", "TypeError", "Exception")) for h in y.handlers):
                        inline_ok |= {id(z) for b_ in y.body for z in ast.walk(b_)}
            for y in own_walk(fn):
                looked = (isinstance(y, ast.Attribute) and isinstance(y.value, ast.Name) and y.value.id == name) or \
                         (isinstance(y, ast.Subscript) and isinstance(y.value, ast.Name) and y.value.id == name and isinstance(y.ctx, ast.Load))
                if not looked or id(y) in inline_ok:
                    continue
                un = cfg.stmt_node_containing(y)
                if un is None or dn is None:
                    continue
                n += 1
                # a test statement that itself looks into the value (`if m.group(1) == ...`) does not guard its own test
                avoid = [t for t in tests if t != un]
                free = un == dn or cfg.path_avoiding(dn, un, avoid) is not None
                res.inst(f.fq, f"`{short(y, 40)}` after `{short(d, 50)}`", "fail" if free else "ok")
                if free:
                    res.fail(Finding("R-NONECHECK", f.module.rel, f.qualname, f"{norm(y)} without a test of {name}",
                                     f"`{short(d, 60)}` gives None when the text is not there, and `{short(y, 40)}` is reached without any test of `{name}`: "
                                     "such a line ends in AttributeError / TypeError instead of being read or refused with the reader's own exception", line=y.lineno))
    if n == 0:
        # searching with patterns is incidental to the readers (today: one site, the ENDPTS list of a star-atom bond); code without
        # any has nothing to decide here
        res.notes.append("no pattern-search result is looked into in the readers, the parser or the writer")
    res.counts = {"uses_of_search_results": n}
    return res


# --------------------------------------------------------------------------- R-ATOMLINE


@rule("R-ATOMLINE")
def r_atomline(ctx) -> RuleResult:
    res = RuleResult("R-ATOMLINE", "what the two readers make of sample atom lines is what the format says: element, charge, radical, mass (D / T, explicit zeros, keyword order, unknown keywords, charge codes) and coordinates")
    import re as _re
    from ..concrete import GAP, UNKNOWN, PathEval, PState, _Unknown
    const = lambda n: ctx.repo.const("tucan.graph_attributes", n)  # noqa: E731
    SYM, Z, CHG_, MASS_, RAD_, X_, Y_, Z_C = (const(n) for n in ("ELEMENT_SYMBOL", "ATOMIC_NUMBER", "CHG", "MASS", "RAD", "X_COORD", "Y_COORD", "Z_COORD"))

    def consts_of(f_):
        out_ = {}
        for nm in {x.id for x in ast.walk(f_.node) if isinstance(x, ast.Name)}:
            if nm in params_of(f_.node):
                continue
            v = try_const(ctx, f_, ast.Name(nm, ast.Load()), default=None)
            if v is not None:
                out_.setdefault(nm, v)
            else:
                pat = regex_of(ctx, f_, ast.Name(nm, ast.Load()))
                if pat is not None:
                    try:
                        out_.setdefault(nm, _re.compile(pat))
                    except _re.error:
                        pass
        return out_

    def want(sym, z, chg=None, mass=None, rad=None, xyz=(1.5, -2.25, 0.0)):
        return {SYM: sym, Z: z, CHG_: chg, MASS_: mass, RAD_: rad, X_: xyz[0], Y_: xyz[1], Z_C: xyz[2]}

    def v3(sym, *rest, aamap="0"):
        return ["M", "V30", "1", sym, "1.5", "-2.25", "0", aamap] + list(rest)

    def v2(sym, dd=0, ccc=0, xyz=(1.5, -2.25, 0.0)):
        return f"{xyz[0]:10.4f}{xyz[1]:10.4f}{xyz[2]:10.4f} {sym:<3}{dd:2d}{ccc:3d}  0  0  0  0  0  0  0  0  0  0"
    samples = {
        "V3000": [
            (v3("C"), want("C", 6), "a plain atom"),
            (v3("N", "CHG=-1"), want("N", 7, chg=-1), "a charge"),
            (v3("C", "MASS=13", "RAD=2", "CHG=1"), want("C", 6, chg=1, mass=13, rad=2), "mass, radical and charge in this order"),
            (v3("C", "RAD=2", "CHG=1", "MASS=13"), want("C", 6, chg=1, mass=13, rad=2), "radical, charge and mass in this order"),
            (v3("D"), want("H", 1, mass=2), "D is hydrogen of mass 2"),
            (v3("T"), want("H", 1, mass=3), "T is hydrogen of mass 3"),
            (v3("D", "MASS=0"), want("H", 1, mass=2), "MASS=0 on a D atom means the same as no MASS"),
            (v3("D", "CHG=1"), want("H", 1, chg=1, mass=2), "D with a charge"),
            (v3("C", "CHG=0", "RAD=0", "MASS=0"), want("C", 6), "explicit defaults"),
            (v3("O", "CFG=1", "VAL=2", "ATTCHPT=1", "HCOUNT=1"), want("O", 8), "keywords that carry none of the three"),
            (v3("Cl", "RGROUPS=(2", "1", "2)", "CHG=1"), want("Cl", 17, chg=1), "a parenthesised list before the charge"),
            (v3("C", "CHG=1", aamap="7"), want("C", 6, chg=1), "an atom-atom mapping number"),
            (v3("Fe", "CHG=3", "RAD=3", "MASS=57"), want("Fe", 26, chg=3, mass=57, rad=3), "a two-letter symbol"),
        ],
        "V2000": [
            (v2("C"), want("C", 6), "a plain atom"),
            (v2("Cl"), want("Cl", 17), "a two-letter symbol"),
            (v2("N", ccc=3), want("N", 7, chg=1), "charge code 3"),
            (v2("N", ccc=1), want("N", 7, chg=3), "charge code 1"),
            (v2("O", ccc=5), want("O", 8, chg=-1), "charge code 5"),
            (v2("O", ccc=7), want("O", 8, chg=-3), "charge code 7"),
            (v2("C", ccc=4), want("C", 6, rad=2), "charge code 4 (doublet radical)"),
            (v2("D"), want("H", 1, mass=2), "D is hydrogen of mass 2"),
            (v2("T", ccc=3), want("H", 1, mass=3, chg=1), "T with charge code 3"),
            (v2("C", dd=-1), want("C", 6), "a mass difference (ignored by this reader: isotopes come from M  ISO)"),
            (v2("C", xyz=(-1234.5678, -9999.1234, 12345.6789)), want("C", 6, xyz=(-1234.5678, -9999.1234, 12345.6789)), "coordinates that fill their ten columns"),
        ],
    }
    n_followed = 0
    for ver in ("V3000", "V2000"):
        ent = reader_entries(ctx)[ver]
        clo = [ent] + [ctx.cg.funcs[q] for q in ctx.cg.closure([ent.fq])]
        makers = [f for f in clo if any(isinstance(d, ast.Dict) and any(k is not None and try_const(ctx, f, k, default=None) == SYM for k in d.keys) for d in own_walk(f.node))]
        makers = [f for f in makers if f.cls is None and len(params_of(f.node)) == 1]
        if len(makers) != 1:
            res.notes.append(f"{ver}: the atom record is not made by one function of one line ({len(makers)} candidates): sample lines not followed")
            continue
        f = makers[0]
        from .common import sample_evaluator
        for smp, exp, what in samples[ver]:
            pe, env = sample_evaluator(ctx, f)
            env[params_of(f.node)[0]] = list(smp) if isinstance(smp, list) else smp
            try:
                falls, lefts = pe.block(f.node.body, [PState(env)])
            except Exception as ex:       # the evaluator's own limits
                if isinstance(ex, (NameError, UnboundLocalError)):
                    raise
                continue
            rets = [v_ for _s, how, v_ in lefts if how == "return"]
            raised = [1 for _s, how, _v in lefts if how == "raise"]
            if pe.gaps or falls:
                continue
            shown = " ".join(smp) if isinstance(smp, list) else smp.rstrip()
            if raised and not rets:
                n_followed += 1
                res.inst(f.fq, f"{ver} `{shown}`: {what}", "fail")
                res.fail(Finding("R-ATOMLINE", f.module.rel, f.qualname, f"{what}: rejected",
                                 f"{ver}: following {f.name} on the well-formed atom line `{shown}` ({what}) ends in a raise on every way through", line=f.node.lineno))
                break
            recs = []
            for v_ in rets:
                if isinstance(v_, tuple) and v_ and isinstance(v_[0], dict):
                    v_ = v_[0]
                recs.append(v_)
            if not recs or not all(isinstance(r_, dict) and not any(isinstance(x_, _Unknown) for x_ in r_.values()) for r_ in recs):
                continue
            n_followed += 1

            def same(r_):
                for k_, w_ in exp.items():
                    g_ = r_.get(k_)
                    if isinstance(w_, float) or isinstance(g_, float):
                        if g_ is None or w_ is None or abs(float(g_) - float(w_)) > 1e-9:
                            return False
                    elif g_ != w_:
                        return False
                return True
            wrong = [r_ for r_ in recs if not same(r_)]
            bad = bool(wrong) and len(wrong) == len(recs)
            res.inst(f.fq, f"{ver} `{shown}`: {what}", "fail" if bad else "ok")
            if bad:
                got = {k_: wrong[0].get(k_) for k_ in exp}
                diff = {k_: (got[k_], exp[k_]) for k_ in exp if got[k_] != exp[k_]}
                res.fail(Finding("R-ATOMLINE", f.module.rel, f.qualname, f"{what}: {sorted(diff)}",
                                 f"{ver}: following {f.name} on the atom line `{shown}` ({what}) gives " +
                                 ", ".join(f"{k_}={g_!r} where the format says {w_!r}" for k_, (g_, w_) in sorted(diff.items())), line=f.node.lineno))
                break
    res.counts = {"sample_lines_followed": n_followed}
    return res


# --------------------------------------------------------------------------- R-INVCODE


@rule("R-INVCODE")
def r_invcode(ctx) -> RuleResult:
    res = RuleResult("R-INVCODE", "the invariant code given to an atom tells apart exactly what the string shows: atoms that differ in element, isotope mass or radical get different codes, atoms that differ only in charge or coordinates get the same")
    import copy
    from ..concrete import PathEval, PState, _Unknown, record_class_of
    gfm = ctx.repo.func("tucan.graph_utils.graph_from_molecule")
    const = lambda n: ctx.repo.const("tucan.graph_attributes", n)  # noqa: E731
    SYM, Z, CHG_, MASS_, RAD_, X_, INV = (const(n) for n in ("ELEMENT_SYMBOL", "ATOMIC_NUMBER", "CHG", "MASS", "RAD", "X_COORD", "INVARIANT_CODE"))

    def consts_of(f_):
        out_ = {}
        for nm in {x.id for x in ast.walk(f_.node) if isinstance(x, ast.Name)}:
            if nm in params_of(f_.node):
                continue
            v = try_const(ctx, f_, ast.Name(nm, ast.Load()), default=None)
            if v is not None:
                out_.setdefault(nm, v)
        return out_
    ps = params_of(gfm.node)
    a_ = gfm.node.args
    n_required = len(a_.posonlyargs + a_.args) - len(a_.defaults)
    if len(ps) < 2 or n_required > 2 or any(d is None for d in a_.kw_defaults):
        raise AnalysisError("R-INVCODE: graph_from_molecule no longer takes the atom table and the bond table")
    # further parameters have defaults (what every caller in the repository gets): bound below by the evaluator
    extra_defaults = dict(zip([x.arg for x in (a_.posonlyargs + a_.args)][-len(a_.defaults):], a_.defaults)) if a_.defaults else {}
    extra_defaults.update({x.arg: d for x, d in zip(a_.kwonlyargs, a_.kw_defaults)})
    calls, records = {}, {}
    for g in [ctx.cg.funcs[q] for q in ctx.cg.closure([gfm.fq])]:
        if g.cls is None and "." not in g.qualname:
            calls[g.name] = (g.node, consts_of(g))
    for ci in gfm.module.classes.values():
        rc = record_class_of(ci.node)
        if rc is not None:
            records[ci.name] = rc
    module_consts: dict = {}

    def known(v_):
        if isinstance(v_, _Unknown):
            return False
        if isinstance(v_, (tuple, list)):
            return all(known(x_) for x_ in v_)
        return True
    # module-level tables built from those record classes (a tuple of definitions, ...) are evaluated with them
    pe0 = PathEval({})
    pe0.record_classes = records
    for g in [gfm] + [ctx.cg.funcs[q] for q in ctx.cg.closure([gfm.fq])]:
        envg = calls[g.name][1] if g.name in calls and g is not gfm else None
        for nm in {x.id for x in ast.walk(g.node) if isinstance(x, ast.Name)}:
            val = g.module.assigns.get(nm)
            if val is not None and nm not in params_of(g.node) and try_const(ctx, g, ast.Name(nm, ast.Load()), default=None) is None:
                v_ = pe0.ev(val, PState(consts_of(g)))
                if known(v_) and not pe0.gaps:
                    module_consts[nm] = v_
                pe0.gaps = []
    for nm_, (node_, env_) in calls.items():
        for k_, v_ in module_consts.items():
            env_.setdefault(k_, v_)
    base = {SYM: "C", Z: 6, X_: 0.0}
    triples = [("C", 6, None, None), ("C", 6, 13, None), ("C", 6, 12, None), ("C", 6, 300, None), ("C", 6, 2, None), ("C", 6, 1, None),
               ("C", 6, None, 1), ("C", 6, None, 2), ("C", 6, None, 3), ("C", 6, None, 4), ("C", 6, None, 7), ("C", 6, None, 15), ("C", 6, None, 300),
               ("C", 6, 13, 2), ("C", 6, 2, 13), ("N", 7, None, None), ("N", 7, 13, None), ("H", 1, 2, None), ("H", 1, 3, None), ("He", 2, None, None), ("Og", 118, None, None)]
    atoms = {}
    for i, (s_, z_, m_, r_) in enumerate(triples):
        d = {SYM: s_, Z: z_, X_: float(i)}
        if m_ is not None:
            d[MASS_] = m_
        if r_ is not None:
            d[RAD_] = r_
        atoms[i] = d
    # the same triples again with a charge and other coordinates: the code must not change
    n0 = len(triples)
    for i, (s_, z_, m_, r_) in enumerate(triples[:6]):
        d = copy.deepcopy(atoms[i])
        d[CHG_] = (i % 3) - 1 or 2
        d[X_] = 100.0 + i
        atoms[n0 + i] = d
    pe = PathEval(calls)
    pe.record_classes = records
    # the codes are there before the graph is built: the way ends at the first statement that uses a library
    ext = set()
    for st in gfm.module.tree.body:
        if isinstance(st, ast.Import):
            ext |= {(a.asname or a.name).split(".")[0] for a in st.names if not a.name.startswith("tucan")}
        elif isinstance(st, ast.ImportFrom) and not (st.module or "").startswith("tucan") and (st.module or "") not in ("typing", "__future__"):
            ext |= {a.asname or a.name for a in st.names}
    for st in gfm.node.body:
        if any(isinstance(x, ast.Name) and x.id in ext for x in ast.walk(st)):
            pe.stop[id(st)] = "library"
            break
    env = consts_of(gfm)
    for k_, v_ in module_consts.items():
        env.setdefault(k_, v_)
    env[ps[0]] = copy.deepcopy(atoms)
    env[ps[1]] = {}
    for p_, d_ in extra_defaults.items():
        if p_ not in (ps[0], ps[1]):
            env[p_] = pe.ev(d_, PState(dict(env)))
    try:
        falls, lefts = pe.block(gfm.node.body, [PState(env)])
    except Exception as ex:
        if isinstance(ex, (NameError, UnboundLocalError)):
            raise
        raise AnalysisError(f"R-INVCODE: cannot follow graph_from_molecule on the sample atom table ({type(ex).__name__}: {ex})")
    ends = list(falls) + [s_ for s_, how, _v in lefts if how == "return" or how.startswith("stop:")]
    if not ends:
        raise AnalysisError("R-INVCODE: following graph_from_molecule on the sample atom table ends in a raise on every way through" + (f" ({pe.gaps[0]})" if pe.gaps else ""))
    tables = [s_.env.get(ps[0]) for s_ in ends]
    def known(v_):
        if isinstance(v_, _Unknown):
            return False
        if isinstance(v_, (tuple, list)):
            return all(known(x_) for x_ in v_)
        return True
    if not all(isinstance(t_, dict) and all(isinstance(t_.get(i), dict) and INV in t_[i] and known(t_[i][INV]) for i in atoms) for t_ in tables):
        raise AnalysisError("R-INVCODE: the invariant codes of the sample atoms are not determined by following graph_from_molecule" + (f" ({pe.gaps[0]})" if pe.gaps else ""))

    def show(i):
        d = atoms[i]
        return "{" + ", ".join(f"{k}={v!r}" for k, v in d.items() if k not in (X_,)) + "}"
    for t_ in tables[:1] if len({repr(sorted((i, t_[i][INV]) for i in atoms)) for t_ in tables}) == 1 else tables:
        code = {i: t_[i][INV] for i in atoms}
        for i in range(n0):
            for j in range(i + 1, n0):
                same = code[i] == code[j]
                res.inst(gfm.fq, f"{show(i)} and {show(j)} get different codes", "fail" if same else "ok") if same or j == i + 1 else None
                if same:
                    res.fail(Finding("R-INVCODE", gfm.module.rel, gfm.qualname, f"{show(i)} ~ {show(j)}",
                                     f"the atoms {show(i)} and {show(j)} get the same invariant code {code[i]!r}: partitioning and labelling cannot tell them apart although the string "
                                     "shows the difference, so which of them gets which index depends on the numbering of the input", line=gfm.node.lineno))
                    return res
        for i in range(6):
            same = code[i] == code[n0 + i]
            res.inst(gfm.fq, f"{show(i)} keeps its code with a charge and other coordinates", "ok" if same else "fail")
            if not same:
                res.fail(Finding("R-INVCODE", gfm.module.rel, gfm.qualname, f"{show(i)} vs {show(n0 + i)}",
                                 f"the invariant code of {show(i)} changes with charge / coordinates ({code[i]!r} vs {code[n0 + i]!r}): data that is not element, isotope or radical reaches the labelling", line=gfm.node.lineno))
                return res
    res.counts = {"sample_atoms": len(atoms)}
    return res


# --------------------------------------------------------------------------- R-SERIALSAMPLE


def _iso_exists(atoms_a: dict, edges_a: set, atoms_b: dict, edges_b: set) -> bool:
    """is there a one-to-one map of the atoms of a onto those of b that keeps each atom's colour (the dict values) and the
    edge set?  Small backtracking search, candidates restricted by colour and degree."""
    if len(atoms_a) != len(atoms_b) or len(edges_a) != len(edges_b):
        return False
    def deg(edges, n):
        return sum(1 for e in edges if n in e)
    ka = {n: (c, deg(edges_a, n)) for n, c in atoms_a.items()}
    kb = {n: (c, deg(edges_b, n)) for n, c in atoms_b.items()}
    if sorted(map(repr, ka.values())) != sorted(map(repr, kb.values())):
        return False
    order = sorted(atoms_a, key=lambda n: (sum(1 for x in kb.values() if x == ka[n]), -ka[n][1]))
    adj_a = {n: {next(iter(e - {n})) for e in edges_a if n in e and len(e) == 2} for n in atoms_a}
    adj_b = {n: {next(iter(e - {n})) for e in edges_b if n in e and len(e) == 2} for n in atoms_b}
    steps = [0]

    def go(i, m, used):
        steps[0] += 1
        if steps[0] > 200000:
            raise AnalysisError("isomorphism search too long")
        if i == len(order):
            return True
        a = order[i]
        for b in atoms_b:
            if b in used or kb[b] != ka[a]:
                continue
            if all((m[x] in adj_b[b]) for x in adj_a[a] if x in m) and all((x not in m) or (m[x] in adj_b[b]) == (x in adj_a[a]) for x in m):
                m[a] = b
                used.add(b)
                if go(i + 1, m, used):
                    return True
                del m[a]
                used.discard(b)
        return False
    return go(0, {}, set())


@rule("R-SERIALSAMPLE")
def r_serialsample(ctx) -> RuleResult:
    res = RuleResult("R-SERIALSAMPLE", "the strings the serializer makes of sample molecules are sentences of the grammar that spell out the molecule: Hill formula = element counts, indices in blocks of rising atomic number, every bond once as (a-b) with a<b in ascending order, every isotope and radical label on its atom - the string parses back to an isomorphic molecule")
    import operator
    import re as _re
    from collections import Counter
    from ..concrete import PathEval, PState, SampleGraph, SampleNx, _Unknown
    from ..gram import det_of, grammars
    from .common import entry, sample_evaluator
    from .spec import IUPAC_SYMBOLS
    ser = entry(ctx, "serialize")
    const = lambda n: ctx.repo.const("tucan.graph_attributes", n)  # noqa: E731
    SYM, Z, MASS_, RAD_, PART, CHG_ = (const(n) for n in ("ELEMENT_SYMBOL", "ATOMIC_NUMBER", "MASS", "RAD", "PARTITION", "CHG"))
    znum = {s_: i + 1 for i, s_ in enumerate(IUPAC_SYMBOLS)}
    G = grammars(ctx)
    det = det_of(G.ebnf, "tucan" if "tucan" in G.ebnf else next(iter(G.ebnf)), (), charlevel=True)

    def mol(atoms, bonds, order=None):
        """atoms: label -> (symbol, mass, rad, partition); listed in `order`"""
        nodes = {}
        for lab in (order or list(atoms)):
            s_, m_, r_, p_ = atoms[lab]
            d = {SYM: s_, Z: znum[s_], PART: p_}
            if m_:
                d[MASS_] = m_
            if r_:
                d[RAD_] = r_
            if lab % 3 == 0:
                d[CHG_] = 1            # data the string does not show
            nodes[lab] = d
        return nodes, [(a, b, {}) for a, b in bonds]
    samples = [
        ("ethanol with two deuterium atoms on one carbon and one on the oxygen (the order by atomic number is not the order of the labels)",
         mol({0: ("O", None, None, 0), 1: ("C", None, None, 1), 2: ("C", None, None, 2), 3: ("H", 2, None, 3), 4: ("H", None, None, 4), 5: ("H", None, None, 4), 6: ("H", None, None, 4),
              7: ("H", 2, None, 5), 8: ("H", 2, None, 5)}, [(0, 1), (1, 2), (0, 3), (2, 4), (2, 5), (2, 6), (1, 7), (1, 8)], order=[4, 0, 7, 2, 5, 1, 8, 3, 6])),
        ("chloroform: one hydrogen next to carbon, another element three times", mol({0: ("Cl", None, None, 0), 1: ("C", None, None, 1), 2: ("Cl", None, None, 0), 3: ("H", None, None, 2), 4: ("Cl", None, None, 0)},
                                                                                        [(1, 0), (1, 2), (1, 3), (1, 4)])),
        ("a 13C methyl radical: mass and radical on one atom", mol({0: ("H", None, None, 0), 1: ("H", None, None, 0), 2: ("C", 13, 2, 1), 3: ("H", None, None, 0)}, [(2, 0), (2, 1), (2, 3)])),
        ("a hydroxymethyl radical with 18O: the radical on one atom, the isotope on another",
         mol({0: ("H", None, None, 0), 1: ("O", 18, None, 1), 2: ("C", None, 2, 2), 3: ("H", None, None, 3), 4: ("H", None, None, 3)}, [(2, 1), (1, 0), (2, 3), (2, 4)], order=[3, 1, 4, 2, 0])),
        ("sodium chloride: two atoms, no bond, no carbon", mol({0: ("Na", None, None, 1), 1: ("Cl", 37, None, 0)}, [])),
        ("helium-3: one atom", mol({0: ("He", 3, None, 0)}, [])),
        ("decane skeleton with a triplet carbene at one end: indices above nine", mol({i: ("C", None, 3 if i == 9 else None, min(i, 9 - i)) for i in range(10)}, [(i, i + 1) for i in range(9)], order=[9, 3, 0, 7, 1, 8, 2, 6, 4, 5])),
        ("an eleven-carbon chain labelled at its second, tenth and eleventh atom: attribute blocks with one- and two-digit indices",
         mol({i: ("C", 14 if i == 1 else (13 if i == 9 else None), 2 if i == 10 else None, i) for i in range(11)}, [(i, i + 1) for i in range(10)], order=[5, 10, 0, 9, 1, 8, 2, 7, 3, 6, 4])),
        ("three helium atoms: more components than classes", mol({0: ("He", None, None, 0), 1: ("He", None, None, 0), 2: ("He", None, None, 0)}, [], order=[1, 2, 0])),
        ("water and hydrogen peroxide side by side: two components", mol({0: ("O", None, None, 0), 1: ("H", None, None, 1), 2: ("H", None, None, 1), 3: ("O", None, None, 2), 4: ("O", None, None, 2), 5: ("H", 3, None, 3), 6: ("H", None, None, 4)},
                                                                           [(0, 1), (0, 2), (3, 4), (3, 5), (4, 6)], order=[6, 5, 4, 3, 2, 1, 0])),
    ]
    ps = params_of(ser.node)
    extra = {"nx": SampleNx(), "lt": operator.lt, "gt": operator.gt, "eq": operator.eq, "le": operator.le, "ge": operator.ge, "ne": operator.ne}

    def hill(counts):
        syms = sorted(counts)
        if "C" in counts:
            syms = ["C"] + (["H"] if "H" in counts else []) + [s_ for s_ in syms if s_ not in ("C", "H")]
        return "".join(f"{s_}{counts[s_] if counts[s_] > 1 else ''}" for s_ in syms)

    def judge(nodes, edges, text):
        if not isinstance(text, str):
            return f"the result is not a string ({type(text).__name__})"
        if not det.accepts(text):
            return f"`{text}` is not a sentence of the grammar"
        formula, _, rest = text.partition("/")
        tuples_, _, attrs_ = rest.partition("/")
        counts = Counter(d[SYM] for d in nodes.values())
        if formula != hill(counts):
            return f"the formula is `{formula}`, the molecule has `{hill(counts)}`"
        # index -> element: the formula's atoms in order of rising atomic number (what the parser does)
        expanded = [s_ for s_, n_ in _re.findall(r"([A-Z][a-z]?)(\d*)", formula) for _ in range(int(n_ or 1))]
        by_index = {i + 1: s_ for i, s_ in enumerate(sorted(expanded, key=lambda s_: znum[s_]))}
        pairs = [(int(a), int(b)) for a, b in _re.findall(r"\((\d+)-(\d+)\)", tuples_)]
        if any(a >= b for a, b in pairs):
            return f"a bond tuple of `{tuples_}` is not written as (a-b) with a<b"
        if pairs != sorted(set(pairs)):
            return f"the bond tuples `{tuples_}` are not in ascending order without repetition"
        labels = {}
        last = 0
        for idx, body in _re.findall(r"\((\d+):([^)]*)\)", attrs_):
            if int(idx) <= last:
                return f"the attribute blocks `{attrs_}` are not in ascending order of the index, one per atom"
            last = int(idx)
            kv = dict(x.split("=") for x in body.split(","))
            labels[int(idx)] = (int(kv["mass"]) if "mass" in kv else None, int(kv["rad"]) if "rad" in kv else None)
        if any(i not in by_index for e_ in pairs for i in e_) or any(i not in by_index for i in labels):
            return "an index of the string is larger than the number of atoms of the formula"
        a_atoms = {n: (d[SYM], d.get(MASS_), d.get(RAD_)) for n, d in nodes.items()}
        a_edges = {frozenset((a, b)) for a, b, _d in edges}
        b_atoms = {i: (s_,) + labels.get(i, (None, None)) for i, s_ in by_index.items()}
        b_edges = {frozenset(e_) for e_ in pairs}
        if not _iso_exists(a_atoms, a_edges, b_atoms, b_edges):
            return f"`{text}` does not spell out the molecule: no one-to-one map of its atoms onto the indices keeps element, isotope mass, radical and the bonds"
        return None
    n_followed = 0
    for what, (nodes, edges) in samples:
        pe, env = sample_evaluator(ctx, ser, extra)
        env[ps[0]] = SampleGraph(nodes, edges)
        from .common import bind_defaults
        bind_defaults(ser.node, env)
        try:
            falls, lefts = pe.block(ser.node.body, [PState(env)])
        except (NameError, UnboundLocalError):
            raise
        except AnalysisError:
            raise
        except Exception:
            continue
        rets = [v_ for _s, how, v_ in lefts if how == "return"]
        raised = [1 for _s, how, _v in lefts if how == "raise"]
        if pe.gaps or falls or not (rets or raised) or any(isinstance(v_, _Unknown) for v_ in rets):
            continue
        n_followed += 1
        if raised and not rets:
            res.inst(ser.fq, f"sample molecule: {what}", "fail")
            res.fail(Finding("R-SERIALSAMPLE", ser.module.rel, ser.qualname, f"{what}: raises", f"following {ser.name} on a sample molecule ({what}) ends in a raise on every way through", line=ser.node.lineno))
            break
        verdicts = [judge(nodes, edges, v_) for v_ in rets]
        bad = all(v_ is not None for v_ in verdicts)
        res.inst(ser.fq, f"sample molecule: {what}" + (f" -> `{rets[0]}`" if not bad else ""), "fail" if bad else "ok")
        if bad:
            res.fail(Finding("R-SERIALSAMPLE", ser.module.rel, ser.qualname, what, f"following {ser.name} on a sample molecule ({what}): {verdicts[0]}", line=ser.node.lineno))
            break
    res.counts = {"sample_molecules_followed": n_followed}
    return res
