"""placeholder"""
