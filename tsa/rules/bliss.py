"""Index-space typing (X-domain): R-BLISS and R-BIJ.

Types (tuples):
  ('Graph', g)                      networkx graph with identity symbol g
  ('IGraph', g, space)              igraph graph made from g; vertex ids live in `space` ('IG' | 'CAN')
  ('VS', g, space)
  ('Seq', A, B, bij, n)             sequence indexed by space A holding values in space B;
                                    bij: every value once and all of them; n: length symbol
  ('Pairs', A, B, bij, n)  ('Map', A, B, bij, n)  ('Idx', A)  ('Key', text)  ('Const', v)  ('Unknown', why)
Spaces: ('NX', g) labels of g, ('IG', g) igraph vertex ids = insertion positions of g, ('CAN', g) canonical
positions, 'COL' colours, 'POS' plain positions 0..n-1, 'ATTR'.
"""
from __future__ import annotations

import ast
import pathlib
import re
import sys
from typing import Optional

from ..cfg import cfg_of
from ..model import AnalysisError, FuncInfo, norm, short
from ..report import Finding, RuleResult
from . import rule
from .common import all_public_closure, assigned_names, closure, entry, ext_calls, kwarg, own_walk, params_of, single_def, sites, try_const
from .spec import IGRAPH_CONVENTION


def installed_igraph_version(ctx) -> tuple[str, str]:
    """(major.minor, source) read from igraph-*.dist-info/METADATA next to the interpreter's site-packages (a file read)"""
    override = ctx.cache.get("igraph_version")
    if override:
        return override, "override"
    cands = []
    for p in sys.path:
        if p and pathlib.Path(p).is_dir():
            cands += list(pathlib.Path(p).glob("igraph-*.dist-info/METADATA")) + list(pathlib.Path(p).glob("python_igraph-*.dist-info/METADATA"))
    for p in cands:
        m = re.search(r"^Version: (\d+)\.(\d+)", p.read_text(errors="replace"), re.M)
        if m:
            return f"{m.group(1)}.{m.group(2)}", str(p)
    raise AnalysisError("cannot determine the installed igraph version (no igraph-*.dist-info/METADATA on sys.path)")


class XViolation(Exception):
    def __init__(self, node, msg):
        self.node, self.msg = node, msg


def U(why):
    return ("Unknown", why)


class XTyper:
    def __init__(self, ctx, conv: Optional[str], strict: bool = True):
        self.ctx = ctx
        self.conv = conv
        self.strict = strict       # False: index-space mismatches are noted, not raised (R-BIJ only needs one-to-one-ness)
        self.notes: list[str] = []
        self.relabels: list[tuple] = []     # (fi, call node, graph type, map type)
        self.bliss_sites: list[tuple] = []
        self.depth = 0
        self.counter = 0
        self.guarded: list[tuple] = []      # (fi, If node, polarity, map type): early returns of a map whose values are attribute values
        self.vs_attrs: dict = {}            # igraph object name -> {attribute key: stored sequence type}; only for graphs built by hand
        self.short_zips: list = []          # (fi, zip call, message): a zip whose second sequence is provably shorter by a constant

    def fresh(self, hint="g"):
        self.counter += 1
        return f"{hint}{self.counter}"

    # ---- functions
    def call(self, fi: FuncInfo, args: list):
        if self.depth > 10:
            return U("depth")
        env = {}
        for p, a in zip(params_of(fi.node)[(1 if fi.cls else 0):], args):
            env[p] = a
        # parameters the call leaves out have their defaults (constants and module-level constant names)
        a_ = fi.node.args
        pos_ = [x.arg for x in a_.posonlyargs + a_.args]
        dflt = dict(zip(pos_[len(pos_) - len(a_.defaults):], a_.defaults))
        dflt.update({x.arg: d for x, d in zip(a_.kwonlyargs, a_.kw_defaults) if d is not None})
        for p, d in dflt.items():
            if p not in env and isinstance(d, (ast.Constant, ast.Name)):
                v = self._ev(fi, d, {})
                if v[0] in ("Key", "Const"):
                    env[p] = v
        self.depth += 1
        try:
            ret = self.block(fi, fi.node.body, env)
        finally:
            self.depth -= 1
        return ret if ret is not None and ret[0] != "NoValue" else ("Const", None)

    def block(self, fi, body, env):
        ret = None
        for st in body:
            r = self.stmt(fi, st, env)
            if r is not None:
                ret = r if ret is None else self.join(ret, r)
        return ret

    def join(self, a, b):
        if a == b or b[0] == "NoValue":
            return a
        if a[0] == "NoValue":
            return b
        if a[0] == b[0] == "Map":
            # two ways of building the map: keys must live in the same space; values may differ (then the value space is mixed)
            return ("Map", a[1] if a[1] == b[1] else "MIXED", a[2] if a[2] == b[2] else "MIXED", bool(a[3] and b[3]), a[4] if a[4] == b[4] else None)
        if a[0] == b[0] == "Graph":
            return a
        return U(f"join of {a[0]} and {b[0]}")

    def stmt(self, fi, st, env):
        if isinstance(st, ast.Expr):
            if isinstance(st.value, (ast.Yield, ast.YieldFrom)) and st.value.value is not None:
                v = self.ev(fi, st.value.value, env)
                return ("Gen", v) if isinstance(st.value, ast.Yield) else v
            if isinstance(st.value, ast.Call):
                self.ev(fi, st.value, env)
            return None
        if isinstance(st, (ast.Assign, ast.AnnAssign)):
            if isinstance(st, ast.AnnAssign) and st.value is None:
                return None
            v = self.ev(fi, st.value, env)
            for tg in (st.targets if isinstance(st, ast.Assign) else [st.target]):
                if isinstance(tg, ast.Subscript):
                    b = self.ev(fi, tg.value, env)
                    if b[0] == "VS" and b[1] in self.vs_attrs:
                        k = self.ev(fi, tg.slice, env)
                        if k[0] != "Key":
                            raise AnalysisError(f"R-BLISS: vertex attribute stored under a key that is not constant at {fi.loc(st)}")
                        if v[0] == "Seq" and v[1] != (b[2], b[1]) and v[1] != "POS" and self.strict:
                            raise XViolation(st, f"vertex attribute `{k[1]}` is filled from a sequence indexed by {fmt_space(v[1])}, not by the vertex ids of this graph")
                        self.vs_attrs[b[1]][k[1]] = v
                    continue
                self.assign(tg, v, env)
            return None
        if isinstance(st, ast.Return):
            return self.ev(fi, st.value, env) if st.value is not None else ("NoValue",)
        if isinstance(st, ast.If):
            e1, e2 = dict(env), dict(env)
            r1 = self.block(fi, st.body, e1)
            r2 = self.block(fi, st.orelse, e2)
            # a branch that hands back the nodes' attribute values as the map (node -> its class number, ...): whether that is
            # one-to-one depends on what the test establishes; it is looked at separately (see guarded_attribute_maps)
            attr_valued = lambda r: r is not None and r[0] == "Map" and (r[2] == "COL" or (isinstance(r[2], tuple) and r[2][:1] == ("ATTR",)))
            if attr_valued(r1) and not attr_valued(r2):
                self.guarded.append((fi, st, True, r1))
                r1 = None
            elif attr_valued(r2) and not attr_valued(r1):
                self.guarded.append((fi, st, False, r2))
                r2 = None
            for k in set(e1) | set(e2):
                a, b = e1.get(k), e2.get(k)
                env[k] = a if a == b else (a if b is None else b if a is None else self.join(a, b))
            if r1 is not None and r2 is not None:
                return self.join(r1, r2)
            return r1 if r1 is not None else r2
        if isinstance(st, ast.While):
            r = None
            for _ in range(2):
                r0 = self.block(fi, st.body, env)
                r = r0 if r is None else r
            return r
        if isinstance(st, ast.For):
            it = self.ev(fi, st.iter, env)
            self.bind_iter(st.target, it, env)
            # inverse-building idiom:  inv[v] = i  for i, v in enumerate(perm)
            for b in st.body:
                if isinstance(b, ast.Assign) and isinstance(b.targets[0], ast.Subscript) and isinstance(b.targets[0].value, ast.Name):
                    k = self.ev(fi, b.targets[0].slice, env)
                    v = self.ev(fi, b.value, env)
                    if k[0] == "Idx" and v[0] == "Idx" and it[0] == "Pairs":
                        env[b.targets[0].value.id] = ("Seq", k[1], v[1], it[3], it[4]) if self._is_listlike(env.get(b.targets[0].value.id)) else ("Map", k[1], v[1], it[3], it[4])
                        continue
                self.stmt(fi, b, env)
            return None
        if isinstance(st, (ast.Assert, ast.Pass, ast.Raise, ast.Break, ast.Continue)):
            return None
        if isinstance(st, ast.AugAssign):
            return None
        return None

    def _is_listlike(self, t):
        return t is not None and t[0] in ("Seq", "List")

    def assign(self, tg, v, env):
        if isinstance(tg, ast.Name):
            env[tg.id] = v
        elif isinstance(tg, (ast.Tuple, ast.List)):
            if v[0] == "Tuple" and len(v[1]) == len(tg.elts):
                for t, x in zip(tg.elts, v[1]):
                    self.assign(t, x, env)
            else:
                for t in tg.elts:
                    self.assign(t, U("unpack"), env)

    def bind_iter(self, target, it, env):
        if it[0] == "NodeView":
            it = ("Graph", it[1])
        if it[0] == "Pairs" and isinstance(target, (ast.Tuple, ast.List)) and len(target.elts) == 2:
            self.assign(target.elts[0], ("Idx", it[1]), env)
            self.assign(target.elts[1], ("Idx", it[2]), env)
        elif it[0] == "Seq":
            if isinstance(target, ast.Name):
                env[target.id] = ("Idx", it[2]) if not (isinstance(it[2], tuple) and it[2][:1] == ("TupleOf",)) else ("Tuple", [("Idx", s) for s in it[2][1]])
            elif isinstance(target, (ast.Tuple, ast.List)) and isinstance(it[2], tuple) and it[2][:1] == ("TupleOf",):
                for t, s in zip(target.elts, it[2][1]):
                    self.assign(t, ("Idx", s), env)
            else:
                self.assign(target, U("iter"), env)
        elif it[0] == "Graph":
            if isinstance(target, ast.Name):
                env[target.id] = ("Idx", ("NX", it[1]))
        elif it[0] == "Map" and isinstance(target, ast.Name):
            env[target.id] = ("Idx", it[1])
        else:
            self.assign(target, U("iter"), env)

    # ---- expressions
    def ev(self, fi, e, env):
        try:
            return self._ev(fi, e, env)
        except XViolation:
            raise
        except AnalysisError:
            raise
        except Exception as ex:  # typing is best effort; unknown types only matter at sinks
            return U(f"{type(ex).__name__} at {short(e, 40)}")

    def _ev(self, fi, e, env):
        ctx = self.ctx
        if isinstance(e, ast.Name):
            if e.id in env:
                return env[e.id]
            v = try_const(ctx, fi, e, default=None)
            if isinstance(v, str):
                return ("Key", v)
            if v is not None:
                return ("Const", v)
            return U(f"name {e.id}")
        if isinstance(e, ast.Constant):
            return ("Key", e.value) if isinstance(e.value, str) else ("Const", e.value)
        if isinstance(e, (ast.List, ast.Tuple)) and len(e.elts) == 1 and isinstance(e.elts[0], ast.Starred):
            # [*xs] / (*xs,): the elements of xs in their order, like list(xs)
            as_call = ast.copy_location(ast.Call(func=ast.Name(id="list", ctx=ast.Load()), args=[e.elts[0].value], keywords=[]), e)
            ast.fix_missing_locations(as_call)
            return self.call_expr(fi, as_call, env)
        if isinstance(e, ast.Tuple):
            return ("Tuple", [self.ev(fi, x, env) for x in e.elts])
        if isinstance(e, ast.Starred):
            return self.ev(fi, e.value, env)
        if isinstance(e, ast.Subscript):
            b = self.ev(fi, e.value, env)
            if isinstance(e.slice, ast.Slice):
                if isinstance(e.value, ast.Call) or b[0] in ("Seq",):
                    # [-1] / slices of generator lists keep the element type
                    return b
                return b
            k = self.ev(fi, e.slice, env)
            if b[0] == "NodeView":
                if k[0] == "Idx" and isinstance(k[1], tuple) and len(k[1]) == 2 and k[1][0] == "IG" and self.strict:
                    # m.nodes[i] with i an igraph vertex id: the node view is keyed by node labels
                    raise XViolation(e, f"the node view (keyed by {fmt_space(('NX', b[1]))}) is read with an index in {fmt_space(k[1])}: the two agree only for a graph whose nodes are listed in label order 0..n-1")
                return ("AttrDict", b[1])
            if b[0] == "AttrDict":
                return ("Const", None)
            if b[0] == "VS" and b[1] in self.vs_attrs:
                g, space = b[1], b[2]
                st_ = self.vs_attrs[g].get(k[1]) if k[0] == "Key" else None
                if st_ is None:
                    return U(f"vertex attribute {k[1] if k[0] == 'Key' else '?'} was never stored on this graph")
                if st_[0] == "Seq":
                    return ("Seq", (space, g), st_[2], bool(st_[3]), ("nodes", g))
                return U("stored vertex attribute")
            if b[0] == "VS":
                g, space = b[1], b[2]
                if k == ("Key", "_nx_name"):
                    return ("Seq", (space, g), ("NX", g), True, ("nodes", g))
                if k[0] == "Key":
                    part = ctx.repo.const("tucan.graph_attributes", "PARTITION")
                    return ("Seq", (space, g), "COL" if k[1] == part else ("ATTR", k[1]), False, ("nodes", g))
                return U("vs key")
            def other_graph(x, y):
                """the same kind of space on two graphs one of which was built anew in the code (its nodes may well be the
                other's): not a mismatch this typing can name"""
                return isinstance(x, tuple) and isinstance(y, tuple) and len(x) == 2 and len(y) == 2 and x[0] == y[0] and x[1] != y[1] \
                    and (str(x[1]).startswith(("new", "rel", "int")) or str(y[1]).startswith(("new", "rel", "int")))
            if b[0] == "Seq" and k[0] == "Idx":
                if k[1] != b[1] and self.strict and not other_graph(k[1], b[1]):
                    raise XViolation(e, f"sequence indexed by {fmt_space(b[1])} is subscripted with an index in {fmt_space(k[1])}")
                return ("Idx", b[2])
            if b[0] == "Map" and k[0] == "Idx":
                if k[1] != b[1] and self.strict and not other_graph(k[1], b[1]):
                    raise XViolation(e, f"map keyed by {fmt_space(b[1])} is looked up with a key in {fmt_space(k[1])}")
                return ("Idx", b[2])
            if b[0] == "Gen" or (b[0] == "Seq" and k[0] == "Const"):
                return b[1] if b[0] == "Gen" else ("Idx", b[2])
            if b[0] == "ListOf":
                return b[1]
            if b[0] == "Tuple" and k[0] == "Const" and isinstance(k[1], int) and -len(b[1]) <= k[1] < len(b[1]):
                return b[1][k[1]]
            return U(f"subscript {b[0]}[{k[0]}]")
        if isinstance(e, ast.Attribute):
            b = self.ev(fi, e.value, env)
            if b[0] == "IGraph" and e.attr == "vs":
                return ("VS", b[1], b[2])
            if b[0] == "Idx" and isinstance(b[1], tuple) and b[1][:1] == ("VTX",) and e.attr == "index":
                return ("Idx", (b[1][2], b[1][1]))        # a vertex's own id
            if b[0] == "Graph" and e.attr == "nodes":
                return ("NodeView", b[1])
            if b[0] == "Graph" and e.attr == "edges":
                return ("Seq", "POS", ("TupleOf", (("NX", b[1]), ("NX", b[1])), (False, False)), False, ("edges", b[1]))
            return ("Bound", b, e.attr)
        if isinstance(e, ast.Call):
            return self.call_expr(fi, e, env)
        if isinstance(e, ast.DictComp):
            g = e.generators[0]
            it = self.ev(fi, g.iter, env)
            env2 = dict(env)
            self.bind_iter(g.target, it, env2)
            k, v = self.ev(fi, e.key, env2), self.ev(fi, e.value, env2)
            if k[0] == "Idx" and v[0] == "Idx":
                bij = it[0] in ("Pairs", "Seq") and bool(it[3]) and not g.ifs and isinstance(e.key, (ast.Name, ast.Subscript)) and isinstance(e.value, (ast.Name, ast.Subscript))
                return ("Map", k[1], v[1], bij, it[4] if it[0] in ("Pairs", "Seq") else None)
            if k[0] == "Idx":
                return ("Map", k[1], "VAL", False, it[4] if it[0] in ("Pairs", "Seq") else None)   # computed values: not a pure renaming
            return U("dictcomp")
        if isinstance(e, (ast.ListComp, ast.GeneratorExp)):
            g = e.generators[0]
            it = self.ev(fi, g.iter, env)
            if it[0] == "NodeView":
                it = ("Graph", it[1])
            if it[0] == "VS":
                # the vertices of an igraph graph, in vertex-id order
                it = ("Seq", (it[2], it[1]), ("VTX", it[1], it[2]), True, ("nodes", it[1]))
            env2 = dict(env)
            self.bind_iter(g.target, it, env2)
            el = self.ev(fi, e.elt, env2)
            idx = it[1] if it[0] in ("Seq",) else (("IG", it[1]) if it[0] == "Graph" else None)
            n = it[4] if it[0] in ("Seq", "Pairs") else (("nodes", it[1]) if it[0] == "Graph" else None)
            bij_src = (it[0] == "Graph") or (it[0] in ("Seq", "Pairs") and bool(it[3]))
            if idx is None:
                return U("listcomp source")
            if el[0] == "Idx":
                # [s[i] for i in p]: composition of bijections stays a bijection when e.elt is a subscript of a bij seq or the var itself
                bij = bij_src and not g.ifs and (isinstance(e.elt, ast.Name) or (isinstance(e.elt, ast.Subscript) and self.ev(fi, e.elt.value, env2)[0] in ("Seq", "Map") and bool(self.ev(fi, e.elt.value, env2)[3])))
                return ("Seq", idx, el[1], bij, n)
            if el[0] == "Tuple":
                comps = []
                for i, x in enumerate(el[1]):
                    comps.append(x[1] if x[0] == "Idx" else "VAL")
                # remember which components are the iteration variable itself (bijective enumeration)
                bijc = tuple(bij_src and not g.ifs and isinstance(el_ast, ast.Name) and isinstance(g.target, ast.Name) and el_ast.id == g.target.id
                             for el_ast in e.elt.elts)
                return ("Seq", idx, ("TupleOf", tuple(comps), bijc), False, n)
            return ("Seq", idx, "VAL", False, n)
        if isinstance(e, ast.IfExp):
            a, b = self.ev(fi, e.body, env), self.ev(fi, e.orelse, env)
            return a if a == b else U("ifexp")
        if isinstance(e, ast.BinOp):
            return ("Const", None)
        if isinstance(e, ast.UnaryOp) and isinstance(e.operand, ast.Constant) and isinstance(e.op, ast.USub):
            return ("Const", -e.operand.value)
        return U(type(e).__name__)

    def call_expr(self, fi, e, env):
        ctx = self.ctx
        f = e.func
        r = ctx.repo.resolve_dotted(fi.module, f) if isinstance(f, (ast.Name, ast.Attribute)) and not (isinstance(f, ast.Name) and f.id in env) else None
        args = [self.ev(fi, a, env) for a in e.args]
        if not (r and r[0] in ("func", "ext")):
            args = [("Graph", a[1]) if a[0] == "NodeView" else a for a in args]   # list(m.nodes) == list(m)
        if r and r[0] == "func":
            return self.call(r[1], args)
        if r and r[0] == "ext":
            q = r[1]
            if q == "igraph.Graph.from_networkx":
                g = args[0]
                return ("IGraph", g[1] if g[0] == "Graph" else self.fresh(), "IG")
            if q == "igraph.Graph":
                # a graph put together by hand: n vertices (ids 0..n-1), edges given as pairs of vertex ids
                n_e = kwarg(e, "n") if kwarg(e, "n") is not None else (e.args[0] if e.args else None)
                ed_e = kwarg(e, "edges") if kwarg(e, "edges") is not None else (e.args[1] if len(e.args) > 1 else None)
                n = self.len_symbol(fi, n_e, env) if n_e is not None else None
                g = n[1] if n and n[0] == "nodes" else None
                ed = self.ev(fi, ed_e, env) if ed_e is not None else None
                if g is None:
                    raise AnalysisError(f"R-BLISS: igraph object built by hand at {fi.loc(e)}: cannot tell whose vertices it has (n is not the number of nodes of a graph)")
                if ed is not None:
                    comps = ed[2][1] if ed[0] == "Seq" and isinstance(ed[2], tuple) and ed[2][:1] == ("TupleOf",) else None
                    if comps is None:
                        raise AnalysisError(f"R-BLISS: igraph object built by hand at {fi.loc(e)}: cannot type its edge list ({fmt(ed)})")
                    bad = [c for c in comps if c != ("IG", g)]
                    if bad and self.strict:
                        raise XViolation(e, f"igraph takes the end points of an edge as vertex ids (positions 0..n-1 in listing order); here they are given in {fmt_space(bad[0])}: "
                                            "the two coincide only while the labels happen to be 0..n-1 in listing order, otherwise bonds are attached to the wrong atoms")
                self.vs_attrs[g] = {}
                return ("IGraph", g, "IG")
            if q == "networkx.relabel_nodes":
                g, m = args[0], args[1] if len(args) > 1 else U("no mapping")
                self.relabels.append((fi, e, g, m))
                return ("Graph", self.fresh("rel"))
            if q == "networkx.get_node_attributes" and len(args) >= 2 and args[0][0] == "Graph" and args[1][0] == "Key":
                part = ctx.repo.const("tucan.graph_attributes", "PARTITION")
                return ("Map", ("NX", args[0][1]), "COL" if args[1][1] == part else ("ATTR", args[1][1]), False, ("nodes", args[0][1]))
            if q in ("networkx.set_node_attributes",):
                return ("Const", None)
            if q == "networkx.Graph":
                if args and args[0][0] == "Graph":
                    return args[0]          # nx.Graph(m): a copy with the same nodes in the same listing order, like m.copy()
                return ("Graph", self.fresh("new"))
            if q == "networkx.convert_node_labels_to_integers":
                return ("Graph", self.fresh("int"))
            if q == "random.shuffle":
                return ("Const", None)      # in-place permutation: element set and bijectivity unchanged
            if q == "itertools.count" and (not e.args or (isinstance(e.args[0], ast.Constant) and e.args[0].value == 0)) and len(e.args) <= 1:
                return ("Seq", "POS", "POS", True, "inf")     # 0, 1, 2, ...: as long as whatever it is zipped with
            return U(q)
        if isinstance(f, ast.Name) and (r is None or r[0] == "builtin") and f.id not in env:
            name = f.id
            if name == "zip":
                if len(args) == 1 and isinstance(e.args[0], ast.Starred):
                    src = args[0]
                    if src[0] == "Seq" and isinstance(src[2], tuple) and src[2][:1] == ("TupleOf",):
                        comps, bijc = src[2][1], src[2][2]
                        return ("Tuple", [("Seq", "POS", c, bool(b), src[4]) for c, b in zip(comps, bijc)])
                    return U("zip(*)")
                if len(args) == 2 and args[0][0] == "Seq" and args[1][0] == "Seq" and "inf" in (args[0][4], args[1][4]) and args[0][4] != args[1][4]:
                    # zip(xs, count()) numbers xs by position: the same pairs as enumerate(xs), the other way round
                    a, b = args
                    if b[4] == "inf":
                        return ("Pairs", a[2], a[1], a[3], a[4])
                    return ("Pairs", b[1], b[2], b[3], b[4])
                if len(args) == 2 and args[0][0] == "Seq" and args[1][0] == "Seq":
                    a, b = args
                    for x_, y_ in ((a, b), (b, a)):
                        if isinstance(y_[4], tuple) and y_[4][:1] == ("short",) and y_[4][1] == x_[4] and x_[4] is not None:
                            msg_ = (f"zip pairs a sequence with one element per atom with {y_[4][2]} fewer numbers: the last {y_[4][2]} get no partner "
                                    "(a relabelling made from it leaves their labels as they are, and two atoms can end up under one label)")
                            if self.strict:
                                raise XViolation(e, msg_)
                            self.short_zips.append((fi, e, msg_))
                    # zip(xs, range(len(xs))) numbers xs by its own positions, like enumerate(xs) the other way round
                    # (the k-th pair holds k whatever the length of the range is; a range of another length leaves the number of
                    # pairs open, which is a question of totality, not of what the numbers mean)
                    if b[1] == "POS" and b[2] == "POS" and b[3] and a[1] != "POS":
                        return ("Pairs", a[2], a[1], a[3], a[4] if b[4] is not None and b[4] == a[4] else None)
                    if a[1] == "POS" and a[2] == "POS" and a[3] and b[1] != "POS":
                        return ("Pairs", b[1], b[2], b[3], b[4] if a[4] is not None and a[4] == b[4] else None)
                    if a[1] != b[1] and "POS" not in (a[1], b[1]):
                        if self.strict:
                            raise XViolation(e, f"zip pairs a sequence indexed by {fmt_space(a[1])} with one indexed by {fmt_space(b[1])}")
                        self.notes.append("index-space mismatch in zip (reported by R-BLISS)")
                    same_len = a[4] is not None and (a[4] == b[4] or b[4] == "inf")
                    if a[4] == "inf" and b[4] is not None:
                        same_len = True
                    ln = (a[4] if a[4] != "inf" else b[4]) if same_len else None
                    return ("Pairs", a[2], b[2], bool(a[3] and b[3] and same_len), ln)
                if len(args) == 2 and args[0][0] == "Graph" and args[1][0] == "Seq":
                    g = args[0]
                    return self.call_expr_zip_graph(e, g, args[1])
                return U("zip")
            if name == "enumerate":
                a = args[0]
                start_ = e.args[1] if len(e.args) > 1 else kwarg(e, "start")
                if start_ is not None and not (isinstance(start_, ast.Constant) and start_.value == 0):
                    # counting from something else than 0: the numbers are positions shifted, not positions
                    k_ = start_.value if isinstance(start_, ast.Constant) and isinstance(start_.value, int) else "?"
                    if a[0] == "Seq":
                        return ("Pairs", ("SHIFTED", a[1], k_), a[2], a[3], a[4])
                    return U("enumerate from another start")
                if a[0] == "Seq":
                    return ("Pairs", a[1], a[2], a[3], a[4])
                if a[0] == "Graph":
                    return ("Pairs", ("IG", a[1]), ("NX", a[1]), True, ("nodes", a[1]))
                return U("enumerate")
            if name == "dict":
                if not args:
                    return ("Map", None, None, False, None)
                a = args[0]
                if a[0] == "Pairs":
                    return ("Map", a[1], a[2], a[3], a[4])
                if a[0] == "Map":
                    return a
                return U("dict")
            if name in ("list", "tuple"):
                if not args:
                    return ("Seq", "POS", "VAL", False, None)
                a = args[0]
                if a[0] == "Graph":
                    return ("Seq", ("IG", a[1]), ("NX", a[1]), True, ("nodes", a[1]))
                if a[0] == "Gen":
                    return ("ListOf", a[1])
                return a
            if name == "sorted":
                a = args[0]
                if a[0] == "Graph":
                    return ("Seq", "POS", ("NX", a[1]), True, ("nodes", a[1]))
                if a[0] == "Seq":
                    return ("Seq", "POS", a[2], a[3], a[4])
                return U("sorted")
            if name == "range":
                if len(e.args) == 1:
                    n = self.len_symbol(fi, e.args[0], env)
                    return ("Seq", "POS", "POS", True, n)
                return ("Seq", "POS", "POS", False, None)
            if name == "len":
                return ("Const", None)
            if name in ("set", "frozenset"):
                return ("Seq", "HASH", args[0][2] if args and args[0][0] == "Seq" else "VAL", False, None)
            if name == "max":
                return ("Const", None)
            return U(name)
        if isinstance(f, ast.Attribute):
            recv = self.ev(fi, f.value, env)
            if recv[0] == "IGraph" and f.attr == "canonical_permutation":
                self.bliss_sites.append((fi, e, recv))
                col = kwarg(e, "color")
                if col is None and self.strict:
                    raise XViolation(e, "canonical_permutation is called without colours: atoms of different element / isotope / radical state may be exchanged")
                ct = self.ev(fi, col, env) if col is not None else None
                if self.strict and ct is not None and ct[0] == "Unknown":
                    raise AnalysisError(f"R-BLISS: what is passed as `color` ({short(col, 50)}) is built in a way the index typing does not read ({ct[1]})")
                if self.strict and not (ct[0] == "Seq" and ct[1] == (recv[2], recv[1]) and ct[2] == "COL"):
                    raise XViolation(e, f"colour vector has type {fmt(ct)}; needs a per-vertex sequence of partition classes of the same graph, in vertex order")
                if self.conv is None:
                    return ("Perm?", recv[1])
                if self.conv == "FWD":
                    return ("Seq", ("IG", recv[1]), ("CAN", recv[1]), True, ("nodes", recv[1]), "perm")
                return ("Seq", ("CAN", recv[1]), ("IG", recv[1]), True, ("nodes", recv[1]), "perm")
            if recv[0] == "IGraph" and f.attr == "permute_vertices":
                p = args[0] if args else U("no arg")
                if p[0] == "Perm?" or (p[0] == "Seq" and len(p) == 6 and p[5] == "perm"):
                    return ("IGraph", recv[1], "CAN")     # igraph's own contract in every version
                if p[0] == "Unknown":
                    raise AnalysisError(f"R-BLISS: what is passed to permute_vertices is built in a way the index typing does not read ({p[1]})")
                raise XViolation(e, f"permute_vertices receives {fmt(p)}, not the vector returned by canonical_permutation of the same graph")
            if recv[0] == "Graph":
                if f.attr == "edges":
                    return ("Seq", "POS", ("TupleOf", (("NX", recv[1]), ("NX", recv[1])), (False, False)), False, ("edges", recv[1]))
                if f.attr == "nodes" and (e.args or e.keywords):
                    d = kwarg(e, "data") if kwarg(e, "data") is not None else (e.args[0] if e.args else None)
                    dk = self.ev(fi, d, env) if d is not None else None
                    part = ctx.repo.const("tucan.graph_attributes", "PARTITION")
                    if dk is not None and dk[0] == "Key":
                        return ("Seq", ("IG", recv[1]), ("TupleOf", (("NX", recv[1]), "COL" if dk[1] == part else ("ATTR", dk[1])), (True, False)), False, ("nodes", recv[1]))
                    return ("Seq", ("IG", recv[1]), ("TupleOf", (("NX", recv[1]), "VAL"), (True, False)), False, ("nodes", recv[1]))
                if f.attr == "copy":
                    return ("Graph", recv[1])           # same nodes, same insertion order
                if f.attr in ("number_of_nodes", "order"):
                    return ("Const", None)
                if f.attr == "nodes":
                    return ("Seq", ("IG", recv[1]), ("NX", recv[1]), True, ("nodes", recv[1]))
            if recv[0] == "Seq" and f.attr == "copy" and not e.args:
                return recv                             # list.copy(): the same elements in the same order
            if recv[0] == "Map" and f.attr in ("items",):
                return ("Pairs", recv[1], recv[2], recv[3], recv[4])
            if recv[0] == "Map" and f.attr == "keys":
                return ("Seq", "POS", recv[1], recv[3], recv[4])
            if recv[0] == "Map" and f.attr == "values":
                return ("Seq", "POS", recv[2], recv[3], recv[4])
            return U(f"method {f.attr}")
        return U("call")

    def call_expr_zip_graph(self, e, g, s):
        if s[1] != ("IG", g[1]) and s[1] != "POS":
            raise XViolation(e, f"zip pairs the nodes of a graph with a sequence indexed by {fmt_space(s[1])}")
        return ("Pairs", ("NX", g[1]), s[2], bool(s[3]), s[4])

    def len_symbol(self, fi, e, env):
        """symbolic length: m.number_of_nodes() / len(m) / len(m.nodes) / len(list(m)) -> ('nodes', g)"""
        if isinstance(e, ast.Call) and isinstance(e.func, ast.Attribute) and e.func.attr in ("number_of_nodes", "order") and not e.args:
            t = self.ev(fi, e.func.value, env)
            if t[0] == "Graph":
                return ("nodes", t[1])
        if isinstance(e, ast.Call) and isinstance(e.func, ast.Name) and e.func.id == "len" and e.args:
            t = self.ev(fi, e.args[0], env)
            if t[0] in ("Graph", "NodeView"):
                return ("nodes", t[1])
            if t[0] in ("Seq", "Map", "Pairs"):
                return t[4]
        if isinstance(e, ast.Name):
            d = single_def(fi.node, e.id)
            if d is not None:
                return self.len_symbol(fi, d, env)
        if isinstance(e, ast.BinOp) and isinstance(e.op, ast.Sub) and isinstance(e.right, ast.Constant) and isinstance(e.right.value, int) and e.right.value > 0:
            base = self.len_symbol(fi, e.left, env)
            if base is not None and base[0] != "short":
                return ("short", base, e.right.value)          # k fewer than that
        return None


def fmt_space(s):
    if isinstance(s, tuple) and len(s) == 2 and s[0] in ("NX", "IG", "CAN"):
        return {"NX": "node labels", "IG": "igraph vertex ids (insertion positions)", "CAN": "canonical positions"}[s[0]]
    if isinstance(s, tuple) and len(s) == 3 and s[0] == "SHIFTED":
        return f"{fmt_space(s[1])} counted from {s[2]} instead of 0"
    return str(s)


def fmt(t):
    if t[0] in ("Seq", "Pairs", "Map"):
        return f"{t[0]}[{fmt_space(t[1])} => {fmt_space(t[2])}]"
    return t[0] + (f"({t[1]})" if len(t) > 1 and isinstance(t[1], str) else "")


# --------------------------------------------------------------------------- R-BLISS


def _type_canonicalize(ctx, conv):
    can = entry(ctx, "canonicalize")
    T = XTyper(ctx, conv)
    g = ("Graph", "m")
    try:
        ret = T.call(can, [g])
        return T, ret, None
    except XViolation as v:
        return T, None, v


@rule("R-BLISS")
def r_bliss(ctx) -> RuleResult:
    res = RuleResult("R-BLISS", "the vector returned by canonical_permutation is consumed under the index convention of the installed igraph (or through permute_vertices); colours are the partition classes in vertex order; the relabel map types as Map[node labels => canonical positions]")
    ver, src = installed_igraph_version(ctx)
    conv = IGRAPH_CONVENTION.get(ver)
    can = entry(ctx, "canonicalize")
    clo = closure(ctx, "canonicalize")
    n_sites = sum(1 for f in clo for cs in sites(ctx, f) if isinstance(cs.node.func, ast.Attribute) and cs.node.func.attr == "canonical_permutation")
    if n_sites == 0:
        raise AnalysisError("R-BLISS: no canonical_permutation call in the closure of canonicalize_molecule (anchor vanished)")
    T, ret, viol = _type_canonicalize(ctx, conv)
    if viol is not None:
        node = viol.node
        fi = next((f for f in clo if any(n is node for n in ast.walk(f.node))), can)
        res.inst(fi.fq, short(node), "fail", detail=f"igraph {ver}: convention {conv}")
        extra = ""
        if conv and "zip pairs" in viol.msg or "subscripted with" in viol.msg:
            extra = (f" — igraph {ver} returns canonical_permutation as "
                     + ("result[vertex] = canonical position" if conv == "FWD" else "result[canonical position] = vertex")
                     + "; the relabelling built here is therefore not the canonical one, and different listings of one molecule get different numberings")
        res.fail(Finding("R-BLISS", fi.module.rel, fi.qualname, norm(node), viol.msg + extra, line=getattr(node, "lineno", None),
                         extra={"igraph_version": ver, "convention": conv}))
        res.counts = {"bliss_sites": n_sites}
        return res
    guarded_attribute_maps(ctx, T, res, "R-BLISS")
    if conv is None:
        res.notes.append(f"igraph {ver} is not in the convention table: only convention-free uses (permute_vertices) are accepted")
    # the canonical relabel
    rel = [(fi, node, g, m) for fi, node, g, m in T.relabels if fi.fq == can.fq]
    if not rel:
        raise AnalysisError("R-BLISS: canonicalize_molecule performs no relabel with the bliss result")
    for fi, node, g, m in rel:
        ok = m[0] == "Map" and isinstance(m[1], tuple) and m[1][0] == "NX" and isinstance(m[2], tuple) and m[2][0] == "CAN" and m[1][1] == m[2][1]
        same_graph = ok and (g[0] != "Graph" or g[1] == m[1][1])
        res.inst(fi.fq, short(node), "ok" if ok and same_graph else "fail", detail=f"mapping types as {fmt(m)}; igraph {ver} ({conv or 'unknown convention'})")
        if m[0] == "Unknown":
            raise AnalysisError(f"R-BLISS: cannot type the relabel map at {fi.loc(node)}: {m[1]}")
        if not ok:
            res.fail(Finding("R-BLISS", fi.module.rel, fi.qualname, norm(node),
                             f"relabel map types as {fmt(m)}; it must map node labels to canonical positions of the same graph", line=node.lineno))
        elif not same_graph:
            res.fail(Finding("R-BLISS", fi.module.rel, fi.qualname, norm(node), "the canonical labels of one graph are applied to another graph", line=node.lineno))
    for fi, node, recv in T.bliss_sites:
        res.inst(fi.fq, short(node), "ok", detail="colours = partition classes of the same graph in vertex order")
    res.counts = {"bliss_sites": n_sites, "relabels_typed": len(T.relabels)}
    res.notes.append(f"igraph version {ver} read from {src}")
    res.trusted = ["igraph: from_networkx keeps node order and stores labels in vs['_nx_name']; permute_vertices(canonical_permutation(..)) is the canonical form in every version; index convention of canonical_permutation per version (spec.py)"]
    return res


def guarded_attribute_maps(ctx, T: "XTyper", res: RuleResult, rule_id: str):
    """Early returns `if <test>: return {node: attribute value}` used as a relabelling.  The map is one-to-one only if the
    test makes the attribute values pairwise distinct.  A way of satisfying the test (a disjunct) that reads neither the
    attribute nor the number of nodes cannot do that: it is a violation.  Otherwise this analysis cannot tell."""
    part = ctx.repo.const("tucan.graph_attributes", "PARTITION")

    def reads_classes(fi, e, depth=0) -> bool:
        for x in ast.walk(e):
            if isinstance(x, ast.Name):
                if try_const(ctx, fi, x, default=None) == part:
                    return True
                d = single_def(fi.node, x.id) if x.id not in params_of(fi.node) else None
                if d is not None and depth < 4 and reads_classes(fi, d, depth + 1):
                    return True
            if isinstance(x, ast.Constant) and x.value == part:
                return True
            if isinstance(x, ast.Call):
                if isinstance(x.func, ast.Attribute) and x.func.attr in ("number_of_nodes", "order", "nodes"):
                    return True
                if isinstance(x.func, ast.Name) and x.func.id == "len":
                    return True
                cs = ctx.cg.resolve_call(fi, x, ctx.cg.local_types(fi), set(params_of(fi.node)))
                if cs.kind == "tucan" and depth < 4:
                    tgt = cs.target
                    for q in [tgt.fq] + list(ctx.cg.closure([tgt.fq])):
                        f2 = ctx.cg.funcs[q]
                        if any((isinstance(y, ast.Name) and try_const(ctx, f2, y, default=None) == part) or (isinstance(y, ast.Constant) and y.value == part)
                               or (isinstance(y, ast.Call) and isinstance(y.func, ast.Attribute) and y.func.attr in ("number_of_nodes", "order")) for y in ast.walk(f2.node)):
                            return True
                elif cs.kind not in ("builtin", "ext", "method"):
                    return True          # something this analysis does not follow: assume it may look at the classes
            if isinstance(x, ast.Attribute) and x.attr == "nodes":
                return True
        return False

    def disjuncts(fi, e, depth=0):
        """[(function, expression)]: the test holds iff one of them holds"""
        if isinstance(e, ast.BoolOp) and isinstance(e.op, ast.Or):
            out = []
            for v in e.values:
                out += disjuncts(fi, v, depth)
            return out
        if isinstance(e, ast.Name) and e.id not in params_of(fi.node) and depth < 4:
            d = single_def(fi.node, e.id)
            if d is not None:
                return disjuncts(fi, d, depth + 1)
        if isinstance(e, ast.Call) and depth < 4:
            cs = ctx.cg.resolve_call(fi, e, ctx.cg.local_types(fi), set(params_of(fi.node)))
            if cs.kind == "tucan":
                rets = [r for r in own_walk(cs.target.node) if isinstance(r, ast.Return) and r.value is not None]
                if len(rets) == 1 and not any(isinstance(y, (ast.If, ast.For, ast.While, ast.Try)) for y in own_walk(cs.target.node)):
                    return disjuncts(cs.target, rets[0].value, depth + 1)
        return [(fi, e)]
    def distinctness_test(fi, e) -> bool:
        """len(set(<the attribute's values>)) == <number of nodes>: the values are pairwise distinct"""
        if not (isinstance(e, ast.Compare) and len(e.ops) == 1 and isinstance(e.ops[0], ast.Eq)):
            return False
        for a, b in ((e.left, e.comparators[0]), (e.comparators[0], e.left)):
            if isinstance(a, ast.Call) and isinstance(a.func, ast.Name) and a.func.id == "len" and len(a.args) == 1 and isinstance(a.args[0], ast.Call) \
                    and isinstance(a.args[0].func, ast.Name) and a.args[0].func.id in ("set", "frozenset") and len(a.args[0].args) == 1:
                T2 = XTyper(ctx, None, strict=False)
                env = {p_: ("Graph", "m") for p_ in params_of(fi.node)[:1]}
                try:
                    for st_ in fi.node.body:
                        if st_.lineno >= e.lineno:
                            break
                        T2.stmt(fi, st_, env)
                    vals = T2.ev(fi, a.args[0].args[0], env)
                except (NameError, UnboundLocalError):
                    raise
                except Exception:
                    return False
                n_ = T2.len_symbol(fi, b, env)
                if vals[0] == "Seq" and vals[2] == m_val and vals[4] is not None and n_ == vals[4]:
                    return True
        return False
    for fi, ifnode, pol, m in T.guarded:
        m_val = m[2]
        if pol and all(distinctness_test(f2, d) for f2, d in disjuncts(fi, ifnode.test)):
            res.inst(fi.fq, f"`if {short(ifnode.test, 50)}: return <node -> {fmt_space(m[2])}>`", "ok", detail="the test says the values are pairwise distinct (as many different values as nodes)")
            continue
        if not pol:
            raise AnalysisError(f"{rule_id}: the map of attribute values returned at {fi.loc(ifnode)} is guarded by the negation of `{short(ifnode.test, 50)}`; this analysis does not read that")
        blind = [(f2, d) for f2, d in disjuncts(fi, ifnode.test) if not reads_classes(f2, d)]
        if blind:
            f2, d = blind[0]
            res.inst(fi.fq, f"`if {short(ifnode.test, 50)}: return <node -> {fmt_space(m[2])}>`", "fail")
            res.fail(Finding(rule_id, fi.module.rel, fi.qualname, norm(ifnode.test),
                             f"when `{short(d, 60)}` holds the nodes' {'partition numbers' if m[2] == 'COL' else 'attribute values'} are handed out as the new labels; that test looks at neither the classes nor the "
                             "number of atoms, so atoms that share a class get the same label and nx.relabel_nodes merges them (an atom and its data disappear)", line=ifnode.lineno))
        else:
            raise AnalysisError(f"{rule_id}: at {fi.loc(ifnode)} the nodes' attribute values are used as new labels when `{short(ifnode.test, 50)}` holds; "
                                "whether that test makes them pairwise distinct is beyond this analysis")


# --------------------------------------------------------------------------- R-BIJ


@rule("R-BIJ")
def r_bij(ctx) -> RuleResult:
    res = RuleResult("R-BIJ", "every nx.relabel_nodes(G, M) in a public closure receives a map that is provably one-to-one and defined on all nodes of G")
    ver, _ = installed_igraph_version(ctx)
    conv = IGRAPH_CONVENTION.get(ver)
    fis = all_public_closure(ctx)
    sites_ = list(ext_calls(ctx, fis, names={"networkx.relabel_nodes"}))
    if not sites_:
        raise AnalysisError("R-BIJ: no relabel_nodes site (anchor vanished)")
    pub = {f.fq for f in fis}
    guarded_done: set = set()
    short_reported: set = set()

    def type_from(fn_, node):
        """[(graph type, map type)] of the relabel call `node` when fn_ is typed with its first parameter as a graph"""
        T = XTyper(ctx, conv, strict=False)
        params = params_of(fn_.node)
        T.call(fn_, [("Graph", "m")] + [U("param")] * (len(params) - 1))
        for f_sz, e_sz, msg_sz in T.short_zips:
            if (f_sz.fq, e_sz.lineno) not in short_reported:
                short_reported.add((f_sz.fq, e_sz.lineno))
                res.inst(f_sz.fq, short(e_sz, 70), "fail")
                res.fail(Finding("R-BIJ", f_sz.module.rel, f_sz.qualname, norm(e_sz), msg_sz, line=e_sz.lineno))
        if T.guarded and id(node) not in guarded_done:
            guarded_done.add(id(node))
            guarded_attribute_maps(ctx, T, res, "R-BIJ")
        return [(g, m) for f, n, g, m in T.relabels if n is node]

    def good(g, m):
        return m[0] == "Map" and m[3] and m[4] is not None and isinstance(m[1], tuple) and m[1][0] in ("NX", "IG", "CAN") and m[4] == ("nodes", m[1][1]) \
            and (g[0] != "Graph" or g[1] == m[1][1] or not str(g[1]).startswith(("m", "g")))
    for cs in sites_:
        fi = cs.caller
        node = cs.node
        contexts = []        # (function typed from, g, m)
        try:
            mine = type_from(fi, node)
            if not mine:
                raise AnalysisError(f"R-BIJ: relabel at {fi.loc(node)} not reached by the typing pass")
            g, m = mine[0]
            if not good(g, m) and m[0] != "Map" and len(params_of(fi.node)) > 1:
                # the map is put together from parameters: type the function from each of its callers instead
                callers = [c for c in ctx.cg.callers_of(fi.fq) if c.caller.fq in pub and c.caller.fq != fi.fq]
                for c in callers:
                    for g2, m2 in type_from(c.caller, node):
                        contexts.append((c.caller, g2, m2))
            if not contexts:
                contexts = [(fi, g, m)]
        except XViolation as v:
            res.inst(fi.fq, short(cs.node), "fail", detail=v.msg)
            res.fail(Finding("R-BIJ", fi.module.rel, fi.qualname, norm(v.node), v.msg, line=getattr(v.node, "lineno", None)))
            continue
        for cfi, g, m in contexts:
            where = fi.fq if cfi is fi else f"{fi.fq} (called from {cfi.qualname})"
            if good(g, m):
                res.inst(where, short(node), "ok", detail=f"{fmt(m)}: keys enumerate every node once, values are pairwise distinct, same length")
                continue
            # incremental construction (final labels): dedicated proof
            ok, why = _incremental_bijection(ctx, fi, cs.node)
            if ok is None:
                keys_are_labels = m[0] == "Map" and isinstance(m[1], tuple) and m[1][:1] == ("NX",)
                values_may_repeat = m[0] == "Map" and (m[2] in ("VAL", "HASH", "COL") or (isinstance(m[2], tuple) and m[2][:1] == ("ATTR",)))
                if m[0] == "Map" and not m[3] and keys_are_labels and not values_may_repeat:
                    # keys are node labels and values positions, only that they pair up one to one is not established
                    # (a length the typing does not know): not shown, and not refuted
                    if any(f_.function == fi.qualname for f_ in res.findings):
                        continue        # already shown wrong by a construct in this function (a zip that is provably short)
                    raise AnalysisError(f"R-BIJ: mapping {fmt(m)} at {fi.loc(node)}: that keys and values pair up one to one is not established ({why})")
                if m[0] == "Map" and not m[3]:
                    res.inst(where, short(node), "fail", detail=f"{fmt(m)}")
                    res.fail(Finding("R-BIJ", fi.module.rel, fi.qualname, norm(node),
                                     f"mapping {fmt(m)} is not provably one-to-one on all nodes (keys or values may repeat or be missing): atoms could be merged or left unnamed"
                                     + ("" if cfi is fi else f" (as called from {cfi.qualname})"), line=node.lineno))
                    continue
                raise AnalysisError(f"R-BIJ: construction of the mapping at {fi.loc(node)} not recognised ({fmt(m)}; {why})")
            res.inst(where, short(node), "ok" if ok else "fail", detail=why)
            if not ok:
                res.fail(Finding("R-BIJ", fi.module.rel, fi.qualname, norm(node), why, line=node.lineno))
    res.counts = {"relabel_sites": len(sites_)}
    return res


def _incremental_bijection(ctx, fi: FuncInfo, call: ast.Call):
    """mapping filled by `M[k] = pool[...].pop()`; pools come from a builder that appends every node exactly once;
    `assert len(M) == len(G.nodes)` dominates the relabel"""
    fn = fi.node
    if len(call.args) < 2 or not isinstance(call.args[1], ast.Name):
        return None, "mapping is not a local variable"
    mname = call.args[1].id
    gexpr = call.args[0]
    defs = assigned_names(fn).get(mname, [])
    if not (len(defs) == 1 and isinstance(defs[0], (ast.Assign, ast.AnnAssign)) and isinstance(defs[0].value, ast.Dict) and not defs[0].value.keys):
        return None, "mapping does not start as an empty dict"
    stores = [n for n in own_walk(fn) if isinstance(n, ast.Assign) and isinstance(n.targets[0], ast.Subscript) and isinstance(n.targets[0].value, ast.Name) and n.targets[0].value.id == mname]
    others = [n for n in own_walk(fn) if isinstance(n, ast.Call) and isinstance(n.func, ast.Attribute) and isinstance(n.func.value, ast.Name) and n.func.value.id == mname
              and n.func.attr in ("update", "pop", "setdefault", "clear", "popitem")]
    if not stores or others:
        return None, "mapping is modified by something else than `M[k] = v` stores"
    pools = set()
    for st in stores:
        v = st.value
        if isinstance(v, ast.Name):
            v = single_def(fn, v.id) or v
        # pool = pools[p]; x = pool.pop()   -- the pool taken out of the table first
        if isinstance(v, ast.Call) and isinstance(v.func, ast.Attribute) and v.func.attr == "pop" and not v.args and isinstance(v.func.value, ast.Name):
            alias = single_def(fn, v.func.value.id)
            if isinstance(alias, ast.Subscript):
                v = ast.copy_location(ast.Call(ast.Attribute(alias, "pop", ast.Load()), [], []), v)
        if not (isinstance(v, ast.Call) and isinstance(v.func, ast.Attribute) and v.func.attr == "pop" and not v.args and isinstance(v.func.value, ast.Subscript)
                and isinstance(v.func.value.value, ast.Name)):
            if isinstance(v, ast.Call) and not (isinstance(v.func, ast.Name) and v.func.id in ("len", "int", "min", "max", "sum", "abs", "next")):
                # handed out by some other call (a wrapper object around the pools, a helper): not a form this rule follows
                return None, f"value `{short(st.value)}` comes out of a call this rule does not follow"
            return False, f"value `{short(st.value)}` is not popped from a pool of unused labels: two atoms may receive the same final label"
        pools.add(v.func.value.value.id)
    if len(pools) != 1:
        return None, "values come from several pools"
    pool = pools.pop()
    pdef = single_def(fn, pool)
    while isinstance(pdef, ast.Call) and ((isinstance(pdef.func, ast.Name) and pdef.func.id in ("dict", "OrderedDict") and pdef.args) or
                                          (isinstance(pdef.func, ast.Attribute) and pdef.func.attr == "copy" and isinstance(pdef.func.value, ast.Call))):
        pdef = pdef.args[0] if isinstance(pdef.func, ast.Name) else pdef.func.value     # a shallow copy still shares the label pools
    if not isinstance(pdef, ast.Call):
        return None, "pool is not built by a helper"
    pcs = ctx.cg.resolve_call(fi, pdef, ctx.cg.local_types(fi), set(params_of(fn)))
    if pcs.kind != "tucan":
        return None, "pool builder is not a tucan function"
    ok, why = _pool_builder_is_partition(ctx, pcs.target)
    if ok is None:
        return None, why
    if not ok:
        return False, why
    # totality: assert len(M) == len(G.nodes) dominates the relabel
    cfg = cfg_of(fn)
    rn = cfg.stmt_node_containing(call)
    asserted = False
    gname = norm(gexpr)
    for n in own_walk(fn):
        if isinstance(n, ast.Assert) and isinstance(n.test, ast.Compare) and len(n.test.ops) == 1 and isinstance(n.test.ops[0], ast.Eq):
            a, b = norm(n.test.left), norm(n.test.comparators[0])
            sizes = {f"len({gname}.nodes)", f"len({gname})", f"{gname}.number_of_nodes()", f"len({gname}.nodes())", f"{gname}.order()"}
            if {a, b} & {f"len({mname})"} and {a, b} & sizes:
                an = cfg.node_of(n)
                if an is not None and rn is not None and cfg.dominates(an, rn):
                    asserted = True
    if not asserted:
        # that every atom is visited would have to be read out of the traversal loops, which this rule does not do: not
        # shown, and not refuted
        return None, "no dominating `assert len(mapping) == number of nodes`, and that the traversal reaches every atom is not followed here"
    return True, f"values popped from `{pool}` (built by {pcs.target.name}: every node appended once), totality asserted before the relabel"


def _pool_builder_is_partition(ctx, bf: FuncInfo):
    fn = bf.node
    params = params_of(fn)
    g = params[0]
    appends = [n for n in own_walk(fn) if isinstance(n, ast.Call) and isinstance(n.func, ast.Attribute) and n.func.attr in ("append", "add")]
    if len(appends) != 1:
        return None, f"{bf.name}: labels are appended at {len(appends)} sites; the pool construction is not one of the recognised shapes"
    ap = appends[0]
    loop = None
    for n in own_walk(fn):
        if isinstance(n, ast.For) and any(x is ap for x in ast.walk(n)):
            loop = n
    if loop is None:
        return None, f"{bf.name}: the appending loop is not recognised"
    it_txt = norm(loop.iter)
    node_var = None
    if isinstance(loop.target, ast.Name):
        # every node, in whatever order: the graph or its node view, possibly sorted / reversed / copied into a list
        base_it = loop.iter
        while isinstance(base_it, ast.Call) and isinstance(base_it.func, ast.Name) and base_it.func.id in ("sorted", "list", "tuple", "reversed") and base_it.args \
                and all(k.arg in ("reverse", "key") for k in base_it.keywords):
            base_it = base_it.args[0]
        if norm(base_it) not in (g, f"{g}.nodes", f"{g}.nodes()", f"{g}.nodes.keys()"):
            if isinstance(base_it, (ast.Subscript, ast.ListComp, ast.GeneratorExp)) and any(isinstance(x, ast.Name) and x.id == g for x in ast.walk(base_it)):
                return False, f"{bf.name}: the appending loop runs over `{it_txt}`, a part of the nodes of the graph"
            return None, f"{bf.name}: the appending loop runs over `{it_txt}`, which this rule does not read as every node of the graph"
        node_var = loop.target.id
    elif isinstance(loop.target, ast.Tuple) and len(loop.target.elts) == 2 and isinstance(loop.target.elts[0], ast.Name):
        # (node, attributes) pairs of every node
        import re as _re
        if not (it_txt in (f"{g}.nodes.items()", f"{g}.nodes(data=True)", f"{g}.nodes.data()", f"{g}.nodes.data(True)", f"sorted({g}.nodes(data=True))", f"sorted({g}.nodes.items())")
                or _re.fullmatch(rf"{_re.escape(g)}\.nodes\.data\(\w+\)", it_txt) or _re.fullmatch(rf"{_re.escape(g)}\.nodes\(data=\w+\)", it_txt)):
            return None, f"{bf.name}: the appending loop runs over `{it_txt}`, which this rule does not read as (node, data) pairs of every node"
        node_var = loop.target.elts[0].id
    else:
        return None, f"{bf.name}: the appending loop is not recognised"
    if len(ap.args) != 1 or norm(ap.args[0]) != node_var:
        return False, f"{bf.name}: what is appended is not the node itself"
    # unconditional in the loop body
    for st in loop.body:
        if isinstance(st, (ast.If, ast.Try, ast.While, ast.For)) and any(x is ap for x in ast.walk(st)):
            return False, f"{bf.name}: the append is conditional; some node may be in no pool"
        if isinstance(st, (ast.Continue, ast.Break)):
            return False, f"{bf.name}: the loop may skip nodes"
    # later only reordered: self-map update with sorted/list/reversed
    for n in own_walk(fn):
        if isinstance(n, ast.Call) and isinstance(n.func, ast.Attribute) and n.func.attr in ("pop", "remove", "clear", "extend", "insert") and n is not ap:
            return False, f"{bf.name}: pools are modified after being filled (`{short(n)}`)"
    return True, "partition of the node set"
