"""Molfile writer rules: R-LEN (interval proof of the 80-character bound),
R-WRAP (wrap/splice constants agree), R-FIELDS (writer templates put fields
where the reader reads them)."""
from __future__ import annotations

import ast
import math
from typing import Optional

from ..cfg import cfg_of
from ..concrete import Unsupported, ceval
from ..heap import prov, taint
from ..model import AnalysisError, FuncInfo, norm, short
from ..report import Finding, RuleResult
from . import rule
from .common import assigned_names, closure, entry, kwarg, own_walk, params_of, single_def, sites, try_const
from .readers import _labels, analyse_reader, reader_entries, _token_predicates
from .spec import STRFTIME_WIDTH

INF = math.inf
LIMIT = 79          # 80 characters including the newline


class Iv:
    """length interval of a string value; `num` marks values that are numbers (their text never ends in '-')"""
    __slots__ = ("lo", "hi", "kind", "unsup")

    def __init__(self, lo=0, hi=INF, kind="str", unsup=None):
        # unsup: set when the bound is unknown because a construct is not modelled (as opposed to data of any length)
        self.lo, self.hi, self.kind, self.unsup = lo, hi, kind, unsup

    def __repr__(self):
        return f"[{self.lo},{'inf' if self.hi == INF else self.hi}]"


def iv_join(a: Optional[Iv], b: Optional[Iv]) -> Iv:
    if a is None:
        return b
    if b is None:
        return a
    return Iv(min(a.lo, b.lo), max(a.hi, b.hi), a.kind if a.kind == b.kind else "str", a.unsup or b.unsup)


def U(what: str) -> Iv:
    return Iv(0, INF, "str", what)


class LenInterp:
    """intraprocedural interval analysis of string lengths with path conditions on `len(x) <= c`;
    parameters get the join of their call-site arguments (entry parameters: unknown)"""

    def __init__(self, ctx, fis: list[FuncInfo]):
        self.ctx = ctx
        self.fis = fis
        self.param_iv: dict[tuple[str, str], Iv] = {}
        self.appends: list[tuple[FuncInfo, ast.Call, Iv, str]] = []
        self.unsupported: list[str] = []
        self.unsupported_in: set = set()

    def run(self):
        for _ in range(3):
            self.appends = []
            self.calls: dict[tuple[str, str], Iv] = {}
            for fi in self.fis:
                self.func(fi)
            changed = False
            for k, v in self.calls.items():
                old = self.param_iv.get(k)
                new = iv_join(old, v) if old is not None else v
                if old is None or (new.lo, new.hi) != (old.lo, old.hi):
                    self.param_iv[k] = new
                    changed = True
            if not changed:
                break
        return self.appends

    def func(self, fi: FuncInfo):
        env: dict[str, Iv] = {}
        for p in params_of(fi.node):
            env[p] = self.param_iv.get((fi.fq, p), Iv())
        self.block(fi, fi.node.body, env)

    def block(self, fi, body, env):
        for st in body:
            env = self.stmt(fi, st, env)
            if env is None:
                return None
        return env

    def stmt(self, fi, st, env):
        if isinstance(st, ast.Expr):
            self.scan_calls(fi, st.value, env)
            return env
        if isinstance(st, (ast.Assign, ast.AnnAssign)):
            value = st.value
            if value is None:
                return env
            self.scan_calls(fi, value, env)
            tg = st.targets[0] if isinstance(st, ast.Assign) else st.target
            env = dict(env)
            if isinstance(tg, ast.Name):
                env[tg.id] = self.ev(fi, value, env)
            elif isinstance(tg, ast.Tuple) and isinstance(value, ast.Tuple) and len(tg.elts) == len(value.elts):
                vals = [self.ev(fi, v, env) for v in value.elts]
                for t, v in zip(tg.elts, vals):
                    if isinstance(t, ast.Name):
                        env[t.id] = v
            else:
                for n in ast.walk(tg):
                    if isinstance(n, ast.Name):
                        env[n.id] = Iv()
            return env
        if isinstance(st, ast.AugAssign):
            env = dict(env)
            if isinstance(st.target, ast.Name):
                a, b = env.get(st.target.id, Iv()), self.ev(fi, st.value, env)
                env[st.target.id] = Iv(a.lo + b.lo, a.hi + b.hi) if isinstance(st.op, ast.Add) else Iv()
            return env
        if isinstance(st, ast.If):
            et, ef = self.refine(fi, st.test, env)
            self.scan_calls(fi, st.test, env)
            a = self.block(fi, st.body, et) if et is not None else None
            b = self.block(fi, st.orelse, ef) if ef is not None else None
            if a is None:
                return b
            if b is None:
                return a
            out = {}
            for k in set(a) | set(b):
                out[k] = iv_join(a.get(k), b.get(k))
            return out
        if isinstance(st, (ast.While, ast.For)):
            if isinstance(st, ast.For):
                self.scan_calls(fi, st.iter, env)
            # loop: iterate the body from a state where every variable assigned in the loop is widened
            assigned = set()
            for n in ast.walk(st):
                if isinstance(n, (ast.Assign, ast.AugAssign, ast.AnnAssign, ast.NamedExpr, ast.For)):
                    tg = n.targets[0] if isinstance(n, ast.Assign) else n.target
                    for x in ast.walk(tg):
                        if isinstance(x, ast.Name):
                            assigned.add(x.id)
            env2 = dict(env)
            for a in assigned:
                old = env.get(a)
                env2[a] = Iv(0, old.hi if old is not None and a in env and not isinstance(st, ast.For) and False else INF)
            # a variable only ever shortened by slicing keeps its upper bound
            for a in assigned:
                if a in env and self._only_shortened(st, a):
                    env2[a] = Iv(0, env[a].hi, env[a].kind)
            if isinstance(st, ast.While):
                et, ef = self.refine(fi, st.test, env2)
                self.block(fi, st.body, et if et is not None else env2)
                # after the loop the (negated) test holds for the widened state
                return dict(ef) if ef is not None else dict(env2)
            self.block(fi, st.body, env2)
            out = dict(env2)
            return out
        if isinstance(st, (ast.Return, ast.Raise)):
            if getattr(st, "value", None) is not None:
                self.scan_calls(fi, st.value, env)
            return None
        if isinstance(st, (ast.Break, ast.Continue)):
            return None
        if isinstance(st, (ast.Pass, ast.Assert, ast.Import, ast.ImportFrom)):
            return env
        if isinstance(st, ast.With):
            return self.block(fi, st.body, env)
        if isinstance(st, ast.Try):
            # the body, or a part of it followed by a handler: what the handlers bind is joined in
            e1 = self.block(fi, st.body, dict(env))
            outs = [e1] if e1 is not None else []
            for h in st.handlers:
                eh = self.block(fi, h.body, dict(env))
                if eh is not None:
                    outs.append(eh)
            if not outs:
                return None
            out = dict(outs[0])
            for o in outs[1:]:
                for k in set(out) | set(o):
                    out[k] = iv_join(out.get(k), o.get(k)) if isinstance(out.get(k), Iv) or isinstance(o.get(k), Iv) else out.get(k, o.get(k))
            if st.finalbody:
                return self.block(fi, st.finalbody, out)
            return out
        self.unsupported.append(f"{type(st).__name__} at {fi.loc(st)}")
        self.unsupported_in.add(fi.fq)
        return env

    def _only_shortened(self, loop, name) -> bool:
        for n in ast.walk(loop):
            if isinstance(n, ast.Assign):
                tgs = n.targets[0]
                pairs = []
                if isinstance(tgs, ast.Tuple) and isinstance(n.value, ast.Tuple):
                    pairs = list(zip(tgs.elts, n.value.elts))
                else:
                    pairs = [(tgs, n.value)]
                for t, v in pairs:
                    if isinstance(t, ast.Name) and t.id == name:
                        if not (isinstance(v, ast.Subscript) and isinstance(v.slice, ast.Slice) and isinstance(v.value, ast.Name) and v.value.id == name):
                            return False
            elif isinstance(n, (ast.AugAssign, ast.NamedExpr)) and isinstance(n.target, ast.Name) and n.target.id == name:
                return False
        return True

    def refine(self, fi, test, env):
        """(env if true, env if false); None for an infeasible branch"""
        if isinstance(test, ast.Constant):
            return (env, None) if test.value else (None, env)
        if isinstance(test, ast.Compare) and len(test.ops) == 1 and isinstance(test.left, ast.Call) and isinstance(test.left.func, ast.Name) \
                and test.left.func.id == "len" and len(test.left.args) == 1 and isinstance(test.left.args[0], ast.Name):
            c = try_const(self.ctx, fi, test.comparators[0])
            name = test.left.args[0].id
            v = env.get(name, Iv())
            if isinstance(c, int):
                op = test.ops[0]
                et, ef = dict(env), dict(env)
                if isinstance(op, ast.LtE):
                    et[name] = Iv(v.lo, min(v.hi, c), v.kind); ef[name] = Iv(max(v.lo, c + 1), v.hi, v.kind)
                elif isinstance(op, ast.Lt):
                    et[name] = Iv(v.lo, min(v.hi, c - 1), v.kind); ef[name] = Iv(max(v.lo, c), v.hi, v.kind)
                elif isinstance(op, ast.Gt):
                    ef[name] = Iv(v.lo, min(v.hi, c), v.kind); et[name] = Iv(max(v.lo, c + 1), v.hi, v.kind)
                elif isinstance(op, ast.GtE):
                    ef[name] = Iv(v.lo, min(v.hi, c - 1), v.kind); et[name] = Iv(max(v.lo, c), v.hi, v.kind)
                else:
                    return env, env
                if et[name].lo > et[name].hi:
                    et = None
                if ef[name].lo > ef[name].hi:
                    ef = None
                return et, ef
        if isinstance(test, ast.UnaryOp) and isinstance(test.op, ast.Not):
            a, b = self.refine(fi, test.operand, env)
            return b, a
        return env, env

    def scan_calls(self, fi, e, env):
        """record append sites and arguments passed to tucan callees"""
        for n in own_walk(e) if not isinstance(e, ast.Call) else [e] + [x for x in own_walk(e) if x is not e]:
            if not isinstance(n, ast.Call):
                continue
            if isinstance(n.func, ast.Attribute) and n.func.attr in ("append", "insert", "appendleft") and n.args:
                recv = n.func.value
                if isinstance(recv, ast.Name):
                    self.appends.append((fi, n, self.ev(fi, n.args[-1], env), recv.id))
            if isinstance(n.func, ast.Attribute) and n.func.attr in ("extend",) and n.args:
                recv = n.func.value
                if isinstance(recv, ast.Name):
                    src = n.args[0]
                    if isinstance(src, (ast.List, ast.Tuple)) and src.elts:
                        iv = None
                        for x in src.elts:
                            iv = iv_join(iv, self.ev(fi, x, env))
                    elif isinstance(src, (ast.ListComp, ast.GeneratorExp)):
                        iv = self.ev(fi, src.elt, env)
                    else:
                        iv = U(f"elements of `{short(src, 40)}`")
                    self.appends.append((fi, n, iv, recv.id))
            cs = self.ctx.cg.resolve_call(fi, n, self.ctx.cg.local_types(fi), set(params_of(fi.node)))
            if cs.kind == "tucan":
                tp = params_of(cs.target.node)
                for p, a in zip(tp, n.args):
                    k = (cs.target.fq, p)
                    self.calls[k] = iv_join(self.calls.get(k), self.ev(fi, a, env))

    def template(self, fi, parts, env) -> Iv:
        """length of literal pieces and formatted fields: parts = [(literal, None, None) | (None, value expr, spec expr or str)]"""
        lo = hi = 0
        derived = False
        unsup = None
        for lit, val, spec_e in parts:
            if lit is not None:
                lo += len(lit); hi += len(lit)
                continue
            v = self.ev(fi, val, env)
            vlo, vhi = v.lo, v.hi
            vun = v.unsup
            if spec_e is not None:
                spec = spec_e if isinstance(spec_e, str) else try_const(self.ctx, fi, spec_e)
                if isinstance(spec, str) and "%" in spec:
                    # a strftime pattern as format spec of a date/time value
                    n, i, okw = 0, 0, True
                    while i < len(spec):
                        if spec[i] == "%" and i + 1 < len(spec):
                            w = STRFTIME_WIDTH.get(spec[i:i + 2])
                            if w is None:
                                okw = False
                                break
                            n += w; i += 2
                        else:
                            n += 1; i += 1
                    if okw:
                        vlo = vhi = n
                        vun = None
                    else:
                        vlo, vhi, vun = 0, INF, f"strftime directive in `{spec}`"
                else:
                    w = _spec_min_width(spec) if isinstance(spec, str) else None
                    if w is None and spec:
                        vlo, vhi = 1, INF
                        vun = vun or f"format spec `{spec}`"
                    elif w is None and spec is None:
                        vlo, vhi = 0, INF
                        vun = vun or "format spec is not a constant"
                    elif w:
                        vlo = max(vlo, w)
                        vhi = max(vhi, w)
                    if isinstance(spec, str) and spec.endswith("f"):
                        vlo, vhi = 1, INF
                        vun = None      # a float of any magnitude: genuinely unbounded
            lo += vlo
            hi += vhi
            if v.kind == "derived" and vhi == INF:
                derived = True
            if vhi == INF and vun:
                unsup = unsup or vun
        return Iv(lo, hi, "derived" if derived else "str", unsup if hi == INF else None)

    def ev(self, fi, e, env) -> Iv:
        if isinstance(e, ast.Constant):
            if isinstance(e.value, str):
                return Iv(len(e.value), len(e.value))
            if isinstance(e.value, (int, float)):
                return Iv(1, INF, "num")
            return Iv()
        if isinstance(e, ast.Name):
            if e.id in env:
                return env[e.id]
            c = try_const(self.ctx, fi, e)
            if isinstance(c, str):
                return Iv(len(c), len(c))
            if isinstance(c, (int, float)) and not isinstance(c, bool):
                return Iv(len(str(c)), len(str(c)), "num")
            return U(f"the value of `{e.id}` is not tracked")
        if isinstance(e, ast.JoinedStr):
            return self.template(fi, [(p.value, None, None) if isinstance(p, ast.Constant) else (None, p.value, p.format_spec) for p in e.values], env)
        if isinstance(e, ast.BinOp) and isinstance(e.op, ast.Add):
            a, b = self.ev(fi, e.left, env), self.ev(fi, e.right, env)
            if a.kind == "num" or b.kind == "num":
                return Iv(1, INF, "num")
            return Iv(a.lo + b.lo, a.hi + b.hi, unsup=a.unsup or b.unsup)
        if isinstance(e, ast.BinOp):
            return Iv(1, INF, "num")
        if isinstance(e, ast.IfExp):
            # x if len(x) < c else y: on the first branch x is that short
            t = e.test
            if isinstance(t, ast.Compare) and len(t.ops) == 1 and isinstance(t.left, ast.Call) and isinstance(t.left.func, ast.Name) and t.left.func.id == "len" \
                    and len(t.left.args) == 1 and isinstance(t.left.args[0], ast.Name):
                c = try_const(self.ctx, fi, t.comparators[0])
                nm = t.left.args[0].id
                if isinstance(c, int) and isinstance(t.ops[0], (ast.Lt, ast.LtE, ast.Gt, ast.GtE)):
                    cur = env.get(nm) if isinstance(env.get(nm), Iv) else self.ev(fi, t.left.args[0], env)
                    if isinstance(t.ops[0], (ast.Lt, ast.LtE)):
                        cap = c - 1 if isinstance(t.ops[0], ast.Lt) else c
                        e_true = dict(env, **{nm: Iv(cur.lo, min(cur.hi, cap), cur.kind, cur.unsup if cur.hi <= cap else None)})
                        return iv_join(self.ev(fi, e.body, e_true), self.ev(fi, e.orelse, env))
                    cap = c if isinstance(t.ops[0], ast.Gt) else c - 1
                    e_false = dict(env, **{nm: Iv(cur.lo, min(cur.hi, cap), cur.kind, cur.unsup if cur.hi <= cap else None)})
                    return iv_join(self.ev(fi, e.body, env), self.ev(fi, e.orelse, e_false))
            return iv_join(self.ev(fi, e.body, env), self.ev(fi, e.orelse, env))
        if isinstance(e, ast.Subscript) and isinstance(e.slice, ast.Slice):
            b = self.ev(fi, e.value, env)
            lo = try_const(self.ctx, fi, e.slice.lower) if e.slice.lower is not None else 0
            hi = try_const(self.ctx, fi, e.slice.upper) if e.slice.upper is not None else None
            if e.slice.step is None and e.slice.lower is not None and e.slice.upper is not None and not (isinstance(lo, int) and isinstance(hi, int)):
                # symbolic bounds: if upper - lower is the same constant for several values of the free variables, that bounds the length
                free = sorted({n.id for n in ast.walk(e.slice) if isinstance(n, ast.Name)})
                diffs = set()
                try:
                    for k in range(0, 5):
                        envk = {}
                        for nm in free:
                            c = try_const(self.ctx, fi, ast.Name(nm, ast.Load()))
                            envk[nm] = c if isinstance(c, int) else k
                        a_, b_ = ceval(e.slice.lower, envk), ceval(e.slice.upper, envk)
                        if not (isinstance(a_, int) and isinstance(b_, int) and 0 <= a_ <= b_):
                            raise ValueError
                        diffs.add(b_ - a_)
                except (NameError, UnboundLocalError):
                    raise
                except Exception:
                    diffs = set()
                if len(diffs) == 1:
                    w = diffs.pop()
                    return Iv(0, min(b.hi, w))
                return Iv(0, b.hi, "derived" if b.hi == INF else "str")
            if e.slice.step is not None or not isinstance(lo, int) or (hi is not None and not isinstance(hi, int)) or lo < 0 or (hi is not None and hi < 0):
                return Iv(0, b.hi, "derived" if b.hi == INF else "str")
            if hi is None:
                return Iv(max(b.lo - lo, 0), max(b.hi - lo, 0) if b.hi != INF else INF, b.kind)
            return Iv(max(min(b.lo, hi) - lo, 0), max(min(b.hi, hi) - lo, 0))
        if isinstance(e, ast.Call):
            if isinstance(e.func, ast.Attribute):
                m = e.func.attr
                if m == "strftime" and e.args:
                    fmt = try_const(self.ctx, fi, e.args[0])
                    if isinstance(fmt, str):
                        n, i = 0, 0
                        while i < len(fmt):
                            if fmt[i] == "%" and i + 1 < len(fmt):
                                w = STRFTIME_WIDTH.get(fmt[i:i + 2])
                                if w is None:
                                    return U(f"strftime directive {fmt[i:i + 2]}")
                                n += w
                                i += 2
                            else:
                                n += 1
                                i += 1
                        return Iv(n, n)
                    return U("strftime pattern that is not a constant")
                recv = self.ev(fi, e.func.value, env)
                if m in ("strip", "rstrip", "lstrip", "lower", "upper"):
                    return Iv(0 if m.endswith("strip") else recv.lo, recv.hi)
                if m == "replace" and len(e.args) == 2:
                    a, b = try_const(self.ctx, fi, e.args[0]), try_const(self.ctx, fi, e.args[1])
                    if isinstance(a, str) and isinstance(b, str) and len(b) <= len(a):
                        return Iv(0, recv.hi, unsup=recv.unsup)
                    return U("replace that may lengthen the text")
                if m == "format":
                    tpl = try_const(self.ctx, fi, e.func.value)
                    if isinstance(tpl, str):
                        import string
                        parts, auto = [], 0
                        try:
                            for lit, field, spec, conv in string.Formatter().parse(tpl):
                                if lit:
                                    parts.append((lit, None, None))
                                if field is None:
                                    continue
                                head = field.split(".")[0].split("[")[0]
                                if head == "":
                                    arg = e.args[auto] if auto < len(e.args) else None
                                    auto += 1
                                elif head.isdigit():
                                    arg = e.args[int(head)] if int(head) < len(e.args) else None
                                else:
                                    arg = next((k.value for k in e.keywords if k.arg == head), None)
                                if arg is None or head != field:
                                    return U(f"format field `{{{field}}}`")
                                parts.append((None, arg, spec if spec else None))
                        except ValueError:
                            return U("format template")
                        return self.template(fi, parts, env)
                    return U("str.format on a template that is not a constant")
                if m in ("ljust", "rjust", "center", "zfill") and e.args:
                    w = try_const(self.ctx, fi, e.args[0])
                    if isinstance(w, int):
                        return Iv(max(recv.lo, w), max(recv.hi, w), recv.kind, recv.unsup)
                    return U(f"{m} with a width that is not a constant")
                if m == "get" or m in ("pop", "setdefault"):
                    return Iv()         # a value read from a table: any length
                if m in ("removeprefix", "removesuffix", "expandtabs", "title", "capitalize", "casefold", "swapcase"):
                    return Iv(0, recv.hi, recv.kind, recv.unsup)
                return U(f"method `.{m}()`")
            if isinstance(e.func, ast.Name) and e.func.id in ("str", "repr", "format") and e.args:
                v = self.ev(fi, e.args[0], env)
                return Iv(1, INF) if v.kind == "num" else v
            if isinstance(e.func, ast.Name) and e.func.id in ("int", "float", "len", "abs", "round", "sum", "min", "max"):
                return Iv(1, INF, "num")
            # a helper of the writer that returns the text: the join of its return expressions, evaluated in the helper
            cs = self.ctx.cg.resolve_call(fi, e, self.ctx.cg.local_types(fi), set(params_of(fi.node)))
            if cs.kind == "tucan" and getattr(self, "_inline_depth", 0) < 3:
                h = cs.target
                rets = [r for r in own_walk(h.node) if isinstance(r, ast.Return) and r.value is not None]
                if rets and not any(isinstance(x, (ast.Yield, ast.YieldFrom)) for x in own_walk(h.node)):
                    henv = {}
                    for p_, a_ in zip(params_of(h.node), e.args):
                        henv[p_] = self.ev(fi, a_, env)
                    # straight-line local definitions of the helper
                    self._inline_depth = getattr(self, "_inline_depth", 0) + 1
                    try:
                        for st_ in h.node.body:
                            if isinstance(st_, ast.Assign) and len(st_.targets) == 1 and isinstance(st_.targets[0], ast.Name):
                                henv[st_.targets[0].id] = self.ev(h, st_.value, henv)
                        out_ = None
                        for r_ in rets:
                            out_ = iv_join(out_, self.ev(h, r_.value, henv))
                    finally:
                        self._inline_depth -= 1
                    return out_
            return U(f"call `{short(e, 40)}`")
        if isinstance(e, ast.Attribute):
            c = try_const(self.ctx, fi, e)
            if isinstance(c, str):
                return Iv(len(c), len(c))
            return Iv()
        return Iv()


def _spec_min_width(spec: str) -> Optional[int]:
    """minimum width of a format spec like ' <3', '>8', '05d'; 0 if none"""
    import re
    m = re.fullmatch(r"(?:(.)?([<>=^]))?([+\- ])?(#)?(0)?(\d+)?([,_])?(\.\d+)?([a-zA-Z%])?", spec or "")
    if not m:
        return None
    return int(m.group(6)) if m.group(6) else 0


def _writer_out_list(ctx, w: FuncInfo) -> tuple[str, ast.Return]:
    """name of the list whose elements are the lines of the returned text, and the return"""
    for n in own_walk(w.node):
        if isinstance(n, ast.Return) and n.value is not None:
            v = n.value
            if isinstance(v, ast.Name):
                v = single_def(w.node, v.id) or v          # text = "\n".join(lines); return text
            if isinstance(v, ast.Call) and isinstance(v.func, ast.Attribute) and v.func.attr == "join" and v.args and isinstance(v.args[0], ast.Name):
                r = ast.copy_location(ast.Return(v), n)
                return v.args[0].id, r
    raise AnalysisError("graph_to_molfile no longer returns `<sep>.join(<list>)`")


@rule("R-LEN")
def r_len(ctx) -> RuleResult:
    res = RuleResult("R-LEN", "every string that becomes a line of the written molfile has length <= 79 (80 with the newline), proved by interval analysis over all paths of the writer")
    w = entry(ctx, "write")
    out_list, ret = _writer_out_list(ctx, w)
    sep = try_const(ctx, w, ret.value.func.value)
    res.inst(w.fq, short(ret), "ok" if sep == "\n" else "fail", detail="lines are joined with a newline")
    if sep != "\n":
        res.fail(Finding("R-LEN", w.module.rel, w.qualname, norm(ret), f"lines are joined with {sep!r}, not with a newline", line=ret.lineno))
    fis = closure(ctx, "write")
    # which list parameters alias the output list: parameters that receive it at call sites (transitively)
    out_params = {(w.fq, out_list)}
    for _ in range(4):
        for fi in fis:
            for cs in sites(ctx, fi):
                if cs.kind == "tucan":
                    tp = params_of(cs.target.node)
                    for p, a in zip(tp, cs.node.args):
                        if isinstance(a, ast.Name) and (fi.fq, a.id) in out_params:
                            out_params.add((cs.target.fq, p))
    L = LenInterp(ctx, fis)
    appends = L.run()
    writers_ = {fq for fq, _p in out_params}
    if L.unsupported and (L.unsupported_in & writers_):
        raise AnalysisError(f"R-LEN: statement kinds not supported by the interval analysis: {L.unsupported[:3]}")
    n = 0
    for fi, call, iv, recv in appends:
        if (fi.fq, recv) not in out_params:
            continue
        n += 1
        ok = iv.hi <= LIMIT
        if not ok and iv.hi == INF and iv.unsup:
            raise AnalysisError(f"R-LEN: cannot bound the length of `{short(call, 80)}` at {fi.loc(call)} ({iv.unsup}); neither proved nor refuted")
        if not ok and iv.hi == INF and iv.kind == "derived":
            raise AnalysisError(f"R-LEN: cannot bound the length of `{short(call, 80)}` at {fi.loc(call)} (slice with non-constant bounds); neither proved nor refuted")
        res.inst(fi.fq, short(call, 90), "ok" if ok else "fail", detail=f"length in {iv}")
        if not ok:
            res.fail(Finding("R-LEN", fi.module.rel, fi.qualname, norm(call),
                             f"this line can be {'arbitrarily long' if iv.hi == INF else str(iv.hi) + ' characters'}; the format allows 80 including the newline "
                             "(only the wrapping helper may emit data-dependent text)", line=call.lineno))
        # a literal newline inside an appended string would split the line
        for c in ast.walk(call.args[-1]):
            if isinstance(c, ast.Constant) and isinstance(c.value, str) and "\n" in c.value:
                res.fail(Finding("R-LEN", fi.module.rel, fi.qualname, norm(call), "appended text contains a newline", line=call.lineno))
    if n < 3:
        raise AnalysisError(f"R-LEN: only {n} append sites on the output list found (anchor vanished)")
    res.counts = {"append_sites": n, "functions": len(fis)}
    res.notes = [f"parameter length bounds: " + ", ".join(f"{k[0].rsplit('.', 1)[1]}.{k[1]}={v}" for k, v in sorted(L.param_iv.items()) if v.hi != INF or v.lo)]
    res.trusted = ["strftime directive widths (spec.py)", "len() of a format field is at least its width"]
    return res


# --------------------------------------------------------------------------- R-WRAP


def _wrap_helper(ctx) -> FuncInfo:
    """the function of the writer that emits prefix + text and wraps long text"""
    for fi in closure(ctx, "write"):
        has_len_test = any(isinstance(n, ast.Compare) and isinstance(n.left, ast.Call) and isinstance(n.left.func, ast.Name) and n.left.func.id == "len" for n in own_walk(fi.node))
        has_append = any(isinstance(n, ast.Call) and isinstance(n.func, ast.Attribute) and n.func.attr == "append" for n in own_walk(fi.node))
        # it cuts its text: a slice of one of its parameters (a function that merely leaves out an over-long header line does not)
        ps_ = set(params_of(fi.node))
        cuts = any(isinstance(n, ast.Subscript) and isinstance(n.slice, ast.Slice) and isinstance(n.value, ast.Name) and (n.value.id in ps_ or n.value.id in assigned_names(fi.node))
                   for n in own_walk(fi.node))
        if has_len_test and has_append and cuts:
            return fi
    for fi in closure(ctx, "write"):
        has_len_test = any(isinstance(n, ast.Compare) and isinstance(n.left, ast.Call) and isinstance(n.left.func, ast.Name) and n.left.func.id == "len" for n in own_walk(fi.node))
        has_append = any(isinstance(n, ast.Call) and isinstance(n.func, ast.Attribute) and n.func.attr == "append" for n in own_walk(fi.node))
        if has_len_test and has_append and fi.module.name == entry(ctx, "write").module.name:
            return fi
    raise AnalysisError("R-WRAP: the writer has no function that tests a line length and appends (wrap helper vanished)")


def flatten_template(ctx, fi: FuncInfo, e: ast.expr, depth=0) -> Optional[list]:
    """A string-building expression as a flat list of parts, whatever way it is written (f-string, str.format, +, named
    constants, local names holding pieces, helper functions returning text):
        ('lit', text) | ('hole', expr, spec text or None, FuncInfo) | ('alt', [parts, parts, ...])
    None if e is not recognisably a text template."""
    if depth > 8 or e is None:
        return None
    if isinstance(e, ast.Constant):
        return [("lit", e.value)] if isinstance(e.value, str) else None
    if isinstance(e, ast.JoinedStr):
        out = []
        for p in e.values:
            if isinstance(p, ast.Constant):
                out.append(("lit", str(p.value)))
                continue
            spec = None
            if p.format_spec is not None:
                spec = try_const(ctx, fi, p.format_spec)
                if not isinstance(spec, str):
                    spec = "?"
            inner = flatten_template(ctx, fi, p.value, depth + 1) if spec is None and p.conversion == -1 else None
            if inner is not None:
                out += inner
            else:
                out.append(("hole", p.value, spec, fi))
        return _merge_lits(out)
    if isinstance(e, (ast.Name, ast.Attribute)):
        is_local = isinstance(e, ast.Name) and (e.id in assigned_names(fi.node) or e.id in params_of(fi.node))
        if not is_local:
            c = try_const(ctx, fi, e)
            return [("lit", c)] if isinstance(c, str) else None
        if e.id in params_of(fi.node) and e.id not in assigned_names(fi.node):
            return None
        defs = sorted(assigned_names(fi.node).get(e.id, []), key=lambda d: getattr(d, "lineno", 0))
        # x = f"..." ; x += f"..."  : concatenation in program order (straight-line use only)
        if defs and all(isinstance(d, (ast.Assign, ast.AnnAssign, ast.AugAssign, ast.NamedExpr)) for d in defs):
            first = [d for d in defs if not isinstance(d, ast.AugAssign)]
            augs = [d for d in defs if isinstance(d, ast.AugAssign)]
            if len(first) == 1 and all(isinstance(d.op, ast.Add) and d.lineno > first[0].lineno for d in augs):
                parts = flatten_template(ctx, fi, first[0].value, depth + 1)
                if parts is None:
                    return None
                for d in augs:
                    more = flatten_template(ctx, fi, d.value, depth + 1)
                    if more is None:
                        return None
                    parts = parts + more
                return _merge_lits(parts)
            if not augs and len(first) > 1:
                alts = [flatten_template(ctx, fi, d.value, depth + 1) for d in first]
                if all(a is not None for a in alts):
                    return [("alt", alts)]
        return None
    if isinstance(e, ast.IfExp):
        a, b = flatten_template(ctx, fi, e.body, depth + 1), flatten_template(ctx, fi, e.orelse, depth + 1)
        if a is None or b is None:
            return None
        return [("alt", [a, b], e.test)]
    if isinstance(e, ast.BinOp) and isinstance(e.op, ast.Add):
        a, b = flatten_template(ctx, fi, e.left, depth + 1), flatten_template(ctx, fi, e.right, depth + 1)
        if a is None or b is None:
            return None
        return _merge_lits(a + b)
    if isinstance(e, ast.Call):
        if isinstance(e.func, ast.Attribute) and e.func.attr == "format":
            tpl = try_const(ctx, fi, e.func.value)
            if isinstance(tpl, str):
                import string
                out, auto = [], 0
                try:
                    for lit_, field, spec, conv in string.Formatter().parse(tpl):
                        if lit_:
                            out.append(("lit", lit_))
                        if field is None:
                            continue
                        head = field.split(".")[0].split("[")[0]
                        if head == "":
                            arg = e.args[auto] if auto < len(e.args) else None
                            auto += 1
                        elif head.isdigit():
                            arg = e.args[int(head)] if int(head) < len(e.args) else None
                        else:
                            arg = next((k.value for k in e.keywords if k.arg == head), None)
                        if arg is None or head != field:
                            return None
                        inner = flatten_template(ctx, fi, arg, depth + 1) if not spec and not conv else None
                        out += inner if inner is not None else [("hole", arg, spec or None, fi)]
                except ValueError:
                    return None
                return _merge_lits(out)
            return None
        if isinstance(e.func, ast.Attribute) and e.func.attr == "join" and len(e.args) == 1 and isinstance(e.args[0], (ast.List, ast.Tuple)):
            sep = try_const(ctx, fi, e.func.value)
            if isinstance(sep, str):
                out = []
                for i, x in enumerate(e.args[0].elts):
                    inner = flatten_template(ctx, fi, x, depth + 1)
                    if inner is None:
                        return None
                    out += ([("lit", sep)] if i and sep else []) + inner
                return _merge_lits(out)
        cs = ctx.cg.resolve_call(fi, e, ctx.cg.local_types(fi), set(params_of(fi.node)))
        if cs.kind == "tucan":
            from ..model import annotation_name
            h = cs.target
            rets = [r for r in own_walk(h.node) if isinstance(r, ast.Return) and r.value is not None]
            if rets and (annotation_name(h.node.returns) or "") in ("str", "") and not any(isinstance(x, (ast.Yield, ast.YieldFrom)) for x in own_walk(h.node)):
                alts = [flatten_template(ctx, h, r.value, depth + 1) for r in rets]
                if all(a is not None for a in alts):
                    # a hole that is one of the helper's parameters stands for what the caller hands in
                    hp = params_of(h.node)
                    off = 1 if h.cls is not None and isinstance(e.func, ast.Attribute) else 0
                    amap = {}
                    for i_, a_ in enumerate(e.args):
                        if i_ + off < len(hp):
                            amap[hp[i_ + off]] = a_
                    for k_ in e.keywords:
                        if k_.arg:
                            amap[k_.arg] = k_.value
                    reassigned = set(assigned_names(h.node))

                    def subst(parts):
                        out_ = []
                        for p_ in parts:
                            if p_[0] == "hole" and p_[3] is h and isinstance(p_[1], ast.Name) and p_[1].id in amap and p_[1].id not in reassigned:
                                inner_ = flatten_template(ctx, fi, amap[p_[1].id], depth + 1) if p_[2] is None else None
                                out_ += inner_ if inner_ is not None else [("hole", amap[p_[1].id], p_[2], fi)]
                            elif p_[0] == "alt":
                                out_.append(("alt", [subst(a_) for a_ in p_[1]]) + tuple(p_[2:]))
                            else:
                                out_.append(p_)
                        return _merge_lits(out_)
                    alts = [subst(a) for a in alts]
                    return alts[0] if len(alts) == 1 else [("alt", alts)]
        return None
    return None


def _merge_lits(parts: list) -> list:
    out = []
    for p in parts:
        if p[0] == "lit" and out and out[-1][0] == "lit":
            out[-1] = ("lit", out[-1][1] + p[1])
        elif p[0] == "lit" and p[1] == "":
            continue
        else:
            out.append(p)
    return out


def _fstring_parts(e: ast.expr, ctx=None, fi=None):
    """(leading literal, trailing literal) of a line template"""
    if ctx is not None and fi is not None:
        parts = flatten_template(ctx, fi, e)
        if parts is not None:
            lead = parts[0][1] if parts and parts[0][0] == "lit" else ""
            trail = parts[-1][1] if len(parts) > 1 and parts[-1][0] == "lit" else ""
            return lead, trail
    if not isinstance(e, ast.JoinedStr):
        return "", ""
    lead = e.values[0].value if e.values and isinstance(e.values[0], ast.Constant) else ""
    trail = e.values[-1].value if len(e.values) > 1 and isinstance(e.values[-1], ast.Constant) else ""
    return lead, trail


@rule("R-WRAP")
def r_wrap(ctx) -> RuleResult:
    res = RuleResult("R-WRAP", "writer's line prefix and continuation character equal the reader's; the reader strips exactly the prefix length; no logical line the writer emits ends in the continuation character")
    wh = _wrap_helper(ctx)
    apps = [n for n in own_walk(wh.node) if isinstance(n, ast.Call) and isinstance(n.func, ast.Attribute) and n.func.attr == "append" and n.args
            and flatten_template(ctx, wh, n.args[0]) is not None]
    if len(apps) < 2:
        raise AnalysisError("R-WRAP: wrap helper does not append a final and a continued line built from prefix + text")
    prefixes, conts = set(), set()
    for a in apps:
        lead, trail = _fstring_parts(a.args[0], ctx, wh)
        prefixes.add(lead)
        if trail:
            conts.add(trail)
    # reader side
    from .readers import splice_model
    sm = splice_model(ctx)
    if sm is None:
        raise AnalysisError("R-WRAP: reader has no continuation-line splicer")
    sp = sm["func"]
    r_prefix, r_cont = set(sm["prefixes"]), set(sm["conts"])
    # the reader's tests may leave out trailing blanks of the prefix (every line the writer emits has them anyway)
    wp = next(iter(prefixes)) if len(prefixes) == 1 else None
    ok = wp is not None and bool(r_prefix) and all(wp.startswith(rp) and rp.rstrip() == wp.rstrip() and rp.strip() for rp in r_prefix)
    res.inst(f"{wh.fq} vs {sp.fq}", f"line prefix {sorted(prefixes)} / {sorted(r_prefix)}", "ok" if ok else "fail")
    if not ok:
        res.fail(Finding("R-WRAP", wh.module.rel, wh.qualname, f"prefix {sorted(prefixes)} vs reader {sorted(r_prefix)}", "writer and reader disagree on the V3000 line prefix", line=wh.node.lineno))
    ok = len(conts) == 1 and conts == r_cont
    res.inst(f"{wh.fq} vs {sp.fq}", f"continuation character {sorted(conts)} / {sorted(r_cont)}", "ok" if ok else "fail")
    if not ok:
        res.fail(Finding("R-WRAP", wh.module.rel, wh.qualname, f"continuation {sorted(conts)} vs reader {sorted(r_cont)}", "writer and reader disagree on the continuation character", line=wh.node.lineno))
    # reader strips: curr_line[0:-len(cont)] + next_line[len(prefix):]
    plen = len(wp) if wp is not None else (len(next(iter(r_prefix))) if r_prefix else None)
    clen = len(next(iter(r_cont))) if r_cont else None
    ok = sm["drop_end"] == clen and sm["drop_start"] == plen
    res.inst(sp.fq, "splice = current[0:-1] + next[len(prefix):]", "ok" if ok else "fail", detail=f"prefix length {plen}")
    if not ok:
        n = sm["concat"]
        res.fail(Finding("R-WRAP", sp.module.rel, sp.qualname, norm(n), f"the splice does not drop exactly the continuation character and the {plen}-character prefix of the next line", line=n.lineno))
    # wrap arithmetic: the chunk taken equals the rest dropped
    chunk = [n for n in own_walk(wh.node) if isinstance(n, ast.Assign) and isinstance(n.value, ast.Tuple) and len(n.value.elts) == 2
             and all(isinstance(v, ast.Subscript) and isinstance(v.slice, ast.Slice) for v in n.value.elts)]
    for n in chunk:
        a, b = n.value.elts
        ahi = try_const(ctx, wh, a.slice.upper) if a.slice.upper is not None else None
        blo = try_const(ctx, wh, b.slice.lower) if b.slice.lower is not None else None
        ok = a.slice.lower is None and b.slice.upper is None and isinstance(ahi, int) and ahi == blo and ahi > 0 and norm(a.value) == norm(b.value)
        res.inst(wh.fq, short(n), "ok" if ok else "fail", detail="chunk emitted + rest kept = whole text")
        if not ok:
            res.fail(Finding("R-WRAP", wh.module.rel, wh.qualname, norm(n), "wrapping drops or duplicates characters (emitted chunk and kept rest do not partition the text)", line=n.lineno))
    # on every path through the wrap helper the last line appended is the final (un-continued) form
    cfgw = cfg_of(wh.node)
    final_nodes, cont_nodes = set(), set()
    for a in apps:
        lead, trail = _fstring_parts(a.args[0], ctx, wh)
        n_ = cfgw.stmt_node_containing(a)
        (cont_nodes if trail else final_nodes).add(n_)
    import networkx as nx
    g2 = cfgw.g.copy()
    g2.remove_nodes_from([n_ for n_ in final_nodes if n_ is not None])
    bad_path = None
    for c_ in cont_nodes:
        if c_ is not None and c_ in g2 and cfgw.EXIT in nx.descendants(g2, c_):
            bad_path = nx.shortest_path(g2, c_, cfgw.EXIT)
    # also: a path from entry to exit that appends nothing
    res.inst(wh.fq, "after a continued chunk the final chunk is always written", "ok" if bad_path is None else "fail")
    if bad_path is not None:
        res.fail(Finding("R-WRAP", wh.module.rel, wh.qualname, "path: " + " ; ".join(cfgw.describe(x) for x in bad_path[:-1]),
                         "a wrapped line can end with a continued chunk (trailing continuation character) and no final chunk: the reader splices the next record onto it",
                         line=wh.node.lineno))
    # same partition written as two statements: append(.. x[:a] ..) and x = x[b:]
    if not chunk:
        heads = [(sl, try_const(ctx, wh, sl.slice.upper)) for a in apps for sl in ast.walk(a) if isinstance(sl, ast.Subscript) and isinstance(sl.slice, ast.Slice)
                 and sl.slice.lower is None and sl.slice.upper is not None and isinstance(sl.value, ast.Name)]
        rests = [(n, try_const(ctx, wh, n.value.slice.lower)) for n in own_walk(wh.node) if isinstance(n, ast.Assign) and isinstance(n.targets[0], ast.Name)
                 and isinstance(n.value, ast.Subscript) and isinstance(n.value.slice, ast.Slice) and n.value.slice.upper is None and n.value.slice.lower is not None
                 and isinstance(n.value.value, ast.Name) and n.value.value.id == n.targets[0].id]
        for sl, a_ in heads:
            for n, b_ in rests:
                if sl.value.id == n.targets[0].id:
                    ok = isinstance(a_, int) and a_ == b_ and a_ > 0
                    res.inst(wh.fq, f"{short(sl)} emitted, {short(n)} kept", "ok" if ok else "fail", detail="chunk emitted + rest kept = whole text")
                    if not ok:
                        res.fail(Finding("R-WRAP", wh.module.rel, wh.qualname, norm(n), "wrapping drops or duplicates characters (emitted chunk and kept rest do not partition the text)", line=n.lineno))
    # last character of every logical line
    text_param = params_of(wh.node)[1] if len(params_of(wh.node)) > 1 else None
    n_lines = 0
    cont = next(iter(conts)) if conts else "-"
    for fi in closure(ctx, "write"):
        for cs in sites(ctx, fi):
            if cs.kind == "tucan" and cs.target.fq == wh.fq and len(cs.node.args) >= 2:
                n_lines += 1
                chars = _last_chars(ctx, fi, _resolve_template(fi, cs.node.args[1]))
                if chars is None:
                    raise AnalysisError(f"R-WRAP: cannot tell the last character of the logical line `{short(cs.node.args[1], 60)}` written in {fi.qualname}")
                ok = cont not in chars
                res.inst(fi.fq, f"logical line {short(cs.node.args[1], 70)} cannot end in {cont!r}", "ok" if ok else "fail", detail=f"last character ∈ {sorted(chars) if chars is not None else 'unknown'}")
                if not ok:
                    res.fail(Finding("R-WRAP", fi.module.rel, fi.qualname, norm(cs.node.args[1]),
                                     f"this logical line may end in {cont!r}: the reader would splice it with the following line", line=cs.node.lineno))
    if n_lines < 4:
        raise AnalysisError("R-WRAP: fewer than 4 logical-line emissions found in the writer")
    return res


DIGITS = set("0123456789")


def _last_chars(ctx, fi: FuncInfo, e: ast.expr, depth=0) -> Optional[set]:
    """over-approximation of the set of possible last characters of str(e); None = unknown.
    The empty string is represented by the element ''."""
    if depth > 6:
        return None
    if depth == 0 or isinstance(e, (ast.JoinedStr, ast.Call, ast.BinOp)):
        parts = flatten_template(ctx, fi, e)
        if parts is not None and not (len(parts) == 1 and parts[0][0] == "hole" and parts[0][1] is e):
            def last_of(ps):
                """possible last characters of the text of ps; '' in the result: the text may be empty"""
                out_: set = set()
                for p in reversed(ps):
                    if p[0] == "lit":
                        s_ = {p[1][-1]} if p[1] else {""}
                    elif p[0] == "hole":
                        spec = p[2]
                        if spec is not None:
                            s_ = set(DIGITS) if isinstance(spec, str) and spec[-1:] in "fdeEgG" else None
                        else:
                            s_ = _last_chars(ctx, p[3], p[1], depth + 1)
                    else:
                        s_ = set()
                        for alt in p[1]:
                            r_ = last_of(alt)
                            if r_ is None:
                                s_ = None
                                break
                            s_ |= r_
                    if s_ is None:
                        return None
                    out_ |= (s_ - {""})
                    if "" not in s_:
                        return out_
                out_.add("")
                return out_
            return last_of(parts)
    if isinstance(e, ast.Constant):
        if isinstance(e.value, str):
            return {e.value[-1]} if e.value else {""}
        if isinstance(e.value, (int, float)):
            return set(DIGITS)
        return None
    if isinstance(e, ast.JoinedStr):
        out: set = set()
        pending = True
        for p in reversed(e.values):
            if isinstance(p, ast.Constant):
                s = {p.value[-1]} if p.value else {""}
            else:
                v = p.value
                if p.format_spec is not None:
                    spec = try_const(ctx, fi, p.format_spec)
                    s = set(DIGITS) if isinstance(spec, str) and spec[-1:] in "fdeEgG" else None
                else:
                    s = _last_chars(ctx, fi, v, depth + 1)
            if s is None:
                return None
            out |= (s - {""})
            if "" not in s:
                pending = False
                break
        if pending:
            out.add("")
        return out
    if isinstance(e, (ast.Name, ast.Attribute)) and not (isinstance(e, ast.Name) and (e.id in assigned_names(fi.node) or e.id in params_of(fi.node))):
        c = try_const(ctx, fi, e)           # a module-level constant used for the text
        if isinstance(c, str):
            return {c[-1]} if c else {""}
        if isinstance(c, (int, float)) and not isinstance(c, bool):
            return set(DIGITS)
    if isinstance(e, ast.Name):
        defs = assigned_names(fi.node).get(e.id, [])
        if defs and all(isinstance(d, ast.comprehension) for d in defs):
            return set(DIGITS) | set("fn") if _numeric_name(fi, e.id) else None
        if not defs:
            return None
        out = set()
        for d in defs:
            v = d.value if isinstance(d, (ast.Assign, ast.AnnAssign, ast.NamedExpr)) else None
            if isinstance(d, ast.Assign) and isinstance(d.targets[0], ast.Tuple):
                return None if not _numeric_name(fi, e.id) else set(DIGITS)
            if v is None:
                return None if not _numeric_name(fi, e.id) else set(DIGITS)
            s = _last_chars(ctx, fi, v, depth + 1)
            if s is None:
                if _numeric_name(fi, e.id):
                    s = set(DIGITS)
                else:
                    return None
            out |= s
        return out
    if isinstance(e, ast.IfExp):
        a, b = _last_chars(ctx, fi, e.body, depth + 1), _last_chars(ctx, fi, e.orelse, depth + 1)
        if a is None or b is None:
            return None
        return a | b
    if isinstance(e, ast.BinOp):
        if isinstance(e.op, ast.Add) and (isinstance(e.left, (ast.JoinedStr,)) or (isinstance(e.left, ast.Constant) and isinstance(e.left.value, str))):
            r = _last_chars(ctx, fi, e.right, depth + 1)
            if r is not None and "" in r:
                l = _last_chars(ctx, fi, e.left, depth + 1)
                return None if l is None else (r - {""}) | l
            return r
        return set(DIGITS)       # arithmetic: a number
    if isinstance(e, ast.Call) and isinstance(e.func, ast.Name) and e.func.id in ("int", "len", "abs", "float", "round"):
        return set(DIGITS) | set("fn")    # inf / nan
    if isinstance(e, ast.NamedExpr):
        return _last_chars(ctx, fi, e.value, depth + 1)
    if isinstance(e, ast.Call):
        cs = ctx.cg.resolve_call(fi, e, ctx.cg.local_types(fi), set(params_of(fi.node)))
        if cs.kind == "tucan":
            out = set()
            rets = [n.value for n in own_walk(cs.target.node) if isinstance(n, ast.Return) and n.value is not None]
            for r in rets:
                s_ = _last_chars(ctx, cs.target, r, depth + 1)
                if s_ is None:
                    return None
                out |= s_
            return out or None
        # sep.join(f"...{value}" for ...): last character of the last piece, or empty
        if isinstance(e.func, ast.Attribute) and e.func.attr == "join" and e.args and isinstance(e.args[0], (ast.GeneratorExp, ast.ListComp)):
            s_ = _last_chars(ctx, fi, e.args[0].elt, depth + 1)
            return None if s_ is None else s_ | {""}
    if isinstance(e, ast.FormattedValue):
        return _last_chars(ctx, fi, e.value, depth + 1)
    return None


def _numeric_name(fi: FuncInfo, name: str) -> bool:
    """the name is compared with numbers / used in arithmetic somewhere in the function (so it holds a number when it is formatted)"""
    for n in own_walk(fi.node):
        if isinstance(n, ast.Compare):
            parts = [n.left] + list(n.comparators)
            if any(isinstance(p, ast.Name) and p.id == name for p in parts) or any(isinstance(p, ast.NamedExpr) and p.target.id == name for p in parts):
                if any(isinstance(p, ast.Constant) and isinstance(p.value, (int, float)) and not isinstance(p.value, bool) for p in parts):
                    return True
        if isinstance(n, ast.BinOp) and any(isinstance(p, ast.Name) and p.id == name for p in (n.left, n.right)) and isinstance(n.op, (ast.Add, ast.Sub, ast.Mult)):
            if any(isinstance(p, ast.Constant) and isinstance(p.value, int) for p in (n.left, n.right)):
                return True
        if isinstance(n, ast.Call) and isinstance(n.func, ast.Name) and n.func.id == "enumerate":
            pass
    # loop variable of enumerate(...) is an int
    for n in own_walk(fi.node):
        if isinstance(n, ast.For) and isinstance(n.iter, ast.Call) and isinstance(n.iter.func, ast.Name) and n.iter.func.id == "enumerate" \
                and isinstance(n.target, ast.Tuple) and isinstance(n.target.elts[0], ast.Name) and n.target.elts[0].id == name:
            return True
    return False


# --------------------------------------------------------------------------- R-FIELDS


def _resolve_template(fi: FuncInfo, e: ast.expr) -> ast.expr:
    """a local name built by `x = f"..."` followed by `x += f"..."` is the concatenation of the pieces"""
    if isinstance(e, ast.Name):
        defs = sorted(assigned_names(fi.node).get(e.id, []), key=lambda d: d.lineno)
        parts = []
        for d in defs:
            v = d.value if isinstance(d, (ast.Assign, ast.AugAssign, ast.AnnAssign)) else None
            if v is None or (isinstance(d, ast.AugAssign) and not isinstance(d.op, ast.Add)):
                return e
            if isinstance(d, ast.Assign) and parts:
                return e
            parts.append(v)
        vals = []
        for v in parts:
            if isinstance(v, ast.JoinedStr):
                vals += v.values
            elif isinstance(v, ast.Constant) and isinstance(v.value, str):
                vals.append(v)
            else:
                return e
        if vals:
            j = ast.JoinedStr(vals)
            return ast.copy_location(j, parts[0])
    return e


def _template_calls(ctx, wh: FuncInfo):
    """(function, f-string) for every logical line emitted through the wrap helper"""
    out = []
    for fi in closure(ctx, "write"):
        for cs in sites(ctx, fi):
            if cs.kind == "tucan" and cs.target.fq == wh.fq and len(cs.node.args) >= 2:
                out.append((fi, cs.node.args[1], cs.node))
    return out


class _Sentinel:
    """value that formats to a recognisable token and survives `+ 1` and format specs"""

    def __init__(self, tag):
        self.tag = tag

    def __add__(self, o):
        return _Sentinel(f"{self.tag}+{o}")

    def __format__(self, spec):
        return f"<{self.tag}{'|' + spec if spec else ''}>"

    def __str__(self):
        return f"<{self.tag}>"


def option_default(ctx, fi: FuncInfo, name: str, depth=0):
    """the constant that parameter `name` of fi has when the public function is called without the option: its own default if
    nobody inside tucan calls fi, else what every caller inside tucan passes (a constant, or its own parameter resolved the
    same way); None if that is not one constant"""
    ps = params_of(fi.node)
    if name not in ps or depth > 4:
        return None
    a = fi.node.args
    pos = [x.arg for x in a.args]
    own = None
    if name in pos:
        k = pos.index(name) - (len(pos) - len(a.defaults))
        if k >= 0 and isinstance(a.defaults[k], ast.Constant):
            own = a.defaults[k].value
    callers = [cs for cs in ctx.cg.callers_of(fi.fq) if cs.caller.module.name.startswith("tucan") and not cs.caller.module.name.startswith("tucan.test")]
    if not callers:
        return own
    vals = set()
    off = 1 if fi.cls is not None and pos and pos[0] in ("self", "cls") else 0
    for cs in callers:
        idx = pos.index(name) - off
        arg = cs.node.args[idx] if 0 <= idx < len(cs.node.args) else next((k_.value for k_ in cs.node.keywords if k_.arg == name), None)
        if arg is None:
            vals.add(own)
        elif isinstance(arg, ast.Constant):
            vals.add(arg.value)
        elif isinstance(arg, ast.Name):
            vals.add(option_default(ctx, cs.caller, arg.id, depth + 1))
        else:
            return None
    return next(iter(vals)) if len(vals) == 1 else None


def hole_roles(ctx, fi: FuncInfo, e: ast.expr, depth=0, seen=None) -> set:
    """what a formatted expression of a line template stands for, followed through the local definitions of the names in
    it: 'attr:<key>' (an attribute of the atom / bond read with a constant key), 'label+k' (a node label plus k),
    'count:nodes' / 'count:edges', 'pos+k' (a running number of the loop), 'const'"""
    seen = seen if seen is not None else set()
    out = set()
    if depth > 6:
        return out
    fn = fi.node
    # offsets
    if isinstance(e, ast.BinOp) and isinstance(e.op, (ast.Add, ast.Sub)) and isinstance(e.right, ast.Constant) and isinstance(e.right.value, int):
        k = e.right.value if isinstance(e.op, ast.Add) else -e.right.value
        for r in hole_roles(ctx, fi, e.left, depth + 1, seen):
            if r.startswith(("label", "pos")):
                base, _, k0 = r.partition("+")
                out.add(f"{base}+{int(k0 or 0) + k}")
            else:
                out.add(r)
        return out
    if isinstance(e, ast.Constant):
        return {"const"}
    if isinstance(e, ast.IfExp):
        # a choice made by an option of the public function (calc_coordinates): what is written by default is what the
        # option's default selects
        t, neg = e.test, False
        while isinstance(t, ast.UnaryOp) and isinstance(t.op, ast.Not):
            t, neg = t.operand, not neg
        if isinstance(t, ast.Name):
            dv = option_default(ctx, fi, t.id)
            if isinstance(dv, bool):
                return hole_roles(ctx, fi, e.body if dv != neg else e.orelse, depth + 1, seen)
        return hole_roles(ctx, fi, e.body, depth + 1, seen) | hole_roles(ctx, fi, e.orelse, depth + 1, seen)
    if isinstance(e, ast.NamedExpr):
        return hole_roles(ctx, fi, e.value, depth + 1, seen)
    if isinstance(e, ast.Subscript) and not isinstance(e.slice, ast.Slice):
        k = try_const(ctx, fi, e.slice)
        if isinstance(k, str):
            return {f"attr:{k}"}
        if isinstance(k, int) and isinstance(e.value, ast.Name):
            # element k of a tuple bound by the loop:  edge[0]
            return {f"label+0"} if "edge" in hole_sources(ctx, fi, e.value.id) else hole_roles(ctx, fi, e.value, depth + 1, seen)
        return hole_roles(ctx, fi, e.value, depth + 1, seen)
    if isinstance(e, ast.Call):
        if isinstance(e.func, ast.Attribute) and e.func.attr == "get" and e.args:
            k = try_const(ctx, fi, e.args[0])
            if isinstance(k, str):
                return {f"attr:{k}"}
        if isinstance(e.func, ast.Attribute) and e.func.attr == "number_of_nodes":
            return {"count:nodes"}
        if isinstance(e.func, ast.Attribute) and e.func.attr == "number_of_edges":
            return {"count:edges"}
        if isinstance(e.func, ast.Name) and e.func.id == "len" and e.args:
            t = norm(e.args[0])
            return {"count:edges"} if "edges" in t else {"count:nodes"}
        r = set()
        for a in e.args:
            r |= hole_roles(ctx, fi, a, depth + 1, seen)
        return r
    if isinstance(e, ast.Name):
        if e.id in seen:
            return out
        seen = seen | {e.id}
        src = hole_sources(ctx, fi, e.id)
        if "node" in src:
            out.add("label+0")
        if "endpoint" in src:
            out.add("label+0")
        for s_ in src:
            if s_.startswith("pos") and s_[3:].lstrip("-").isdigit():
                out.add(f"pos+{int(s_[3:])}")
            elif s_ == "pos?":
                out.add("pos+?")
        for d in assigned_names(fn).get(e.id, []):
            v = getattr(d, "value", None)
            if v is not None and isinstance(d, (ast.Assign, ast.AnnAssign, ast.NamedExpr)):
                tg = d.targets[0] if isinstance(d, ast.Assign) else d.target
                if isinstance(tg, ast.Name):
                    out |= hole_roles(ctx, fi, v, depth + 1, seen)
                elif isinstance(tg, (ast.Tuple, ast.List)) and isinstance(v, ast.Name):
                    # a, b, attrs = edge
                    idx = [i for i, x in enumerate(tg.elts) if isinstance(x, ast.Name) and x.id == e.id]
                    if idx and "edge" in hole_sources(ctx, fi, v.id) and idx[0] < 2:
                        out.add("label+0")
                elif isinstance(tg, (ast.Tuple, ast.List)):
                    idx = [i for i, x in enumerate(tg.elts) if isinstance(x, ast.Name) and x.id == e.id]
                    if not idx:
                        continue
                    k_ = idx[0]
                    if isinstance(v, (ast.Tuple, ast.List)) and len(v.elts) == len(tg.elts):
                        out |= hole_roles(ctx, fi, v.elts[k_], depth + 1, seen)        # x, y, z = (a, b, c)
                    elif isinstance(v, ast.Subscript) and isinstance(v.value, ast.Name):
                        # x, y, z = table[key] with table = helper(..) returning {key: (a, b, c) ...}
                        dv = single_def(fn, v.value.id)
                        if isinstance(dv, ast.Call):
                            cs_ = ctx.cg.resolve_call(fi, dv, ctx.cg.local_types(fi), set(params_of(fn)))
                            if cs_.kind == "tucan":
                                for r_ in own_walk(cs_.target.node):
                                    if isinstance(r_, ast.Return) and isinstance(r_.value, ast.DictComp) and isinstance(r_.value.value, (ast.Tuple, ast.List)) \
                                            and len(r_.value.value.elts) == len(tg.elts):
                                        out |= hole_roles(ctx, cs_.target, r_.value.value.elts[k_], depth + 1, set())
        return out
    for c in ast.iter_child_nodes(e):
        if isinstance(c, ast.expr):
            out |= hole_roles(ctx, fi, c, depth + 1, seen)
    return out


def hole_sources(ctx, fi: FuncInfo, name: str) -> set:
    """how a name is bound by the loops of fi: 'node' (node of G.nodes / G), 'edge' (a whole edge tuple), 'endpoint' (one end
    of an edge), 'pos0' / 'pos1' (enumerate counter starting at 0 / 1)"""
    out = set()
    for lp in own_walk(fi.node):
        gens = []
        if isinstance(lp, ast.For):
            gens = [(lp.target, lp.iter)]
        elif isinstance(lp, (ast.ListComp, ast.GeneratorExp, ast.SetComp, ast.DictComp)):
            gens = [(g.target, g.iter) for g in lp.generators]
        for tg, it in gens:
            start = 0
            inner_tg, inner_it = tg, it
            if isinstance(it, ast.Call) and isinstance(it.func, ast.Name) and it.func.id == "enumerate" and it.args and isinstance(tg, ast.Tuple) and len(tg.elts) == 2:
                st_ = next((k.value for k in it.keywords if k.arg == "start"), it.args[1] if len(it.args) > 1 else None)
                start = try_const(ctx, fi, st_) if st_ is not None else 0
                if isinstance(tg.elts[0], ast.Name) and tg.elts[0].id == name:
                    out.add(f"pos{start}" if isinstance(start, int) else "pos?")
                inner_tg, inner_it = tg.elts[1], it.args[0]
            base = inner_it
            while isinstance(base, ast.Call) and isinstance(base.func, ast.Name) and base.func.id in ("sorted", "list", "tuple", "reversed") and base.args:
                base = base.args[0]
            t = norm(base)
            is_edges = ".edges" in t
            is_nodes = ".nodes" in t or (isinstance(base, ast.Name) and "graph" in hole_param_kinds(fi).get(base.id, ""))
            if isinstance(inner_tg, ast.Name) and inner_tg.id == name:
                if is_edges:
                    out.add("edge")
                elif is_nodes:
                    out.add("node")
            elif isinstance(inner_tg, ast.Tuple):
                for i, x in enumerate(inner_tg.elts):
                    if isinstance(x, ast.Name) and x.id == name:
                        if is_edges and i < 2:
                            out.add("endpoint")
                        elif is_nodes and i == 0:
                            out.add("node")
    return out


def hole_param_kinds(fi: FuncInfo) -> dict:
    from ..model import annotation_name
    return {a.arg: ("graph" if "Graph" in (annotation_name(a.annotation) or "") else "") for a in fi.node.args.args}


def _instantiate(ctx, fi: FuncInfo, tmpl: ast.expr) -> Optional[list[str]]:
    """tokens of a template line with every formatted expression replaced by a sentinel `<roles|spec>` saying what it stands
    for (see hole_roles); the template may be an f-string, a str.format call, a concatenation, or be assembled from local
    names and helper functions (flatten_template); optional pieces (one alternative empty) contribute no token"""
    parts = flatten_template(ctx, fi, tmpl)
    if parts is None:
        return None

    def render(ps) -> str:
        s_ = ""
        for p in ps:
            if p[0] == "lit":
                s_ += p[1]
            elif p[0] == "hole":
                roles = ",".join(sorted(hole_roles(ctx, p[3], p[1]))) or "?"
                s_ += f"<{roles}|{p[2] or ''}>".replace(" ", "")
            elif p[0] == "alt":
                alts = p[1]
                if any(not a for a in alts):
                    continue                      # optional piece
                s_ += render(alts[0])
        return s_
    return render(parts).split()


@rule("R-FIELDS")
def r_fields(ctx) -> RuleResult:
    res = RuleResult("R-FIELDS", "the writer's line templates put each field at the token position the V3000 reader reads it from; optional tokens are KEY=value with the reader's keywords and the format's range guards; coordinates use six decimals; the line sequence matches the reader's positional expectations")
    wh = _wrap_helper(ctx)
    prefix_tokens = 2          # "M  V30 " contributes the tokens 'M', 'V30'
    v3fi, I, rec, bonds = analyse_reader(ctx, "V3000")
    # reader side: which token index feeds what (provenance labels of the heap interpreter)
    from .readers import common_labels
    common = common_labels(I, rec, bonds)

    def idx_of(obj):
        return {c[1:-1] for c in _labels(set(taint(obj)) - (common or set()), "@idx")}
    reader_pos = {"element_symbol": idx_of(rec.fields.get("element_symbol")), "x": idx_of(rec.fields.get("x_coord")),
                  "y": idx_of(rec.fields.get("y_coord")), "z": idx_of(rec.fields.get("z_coord"))}
    brec = bonds.elem if bonds.kind == "map" else None
    bond_type_pos = idx_of(brec.fields.get("bond_type")) if brec is not None and brec.kind == "rec" else set()
    bond_end_pos = {c[1:-1] for c in _labels(bonds.keyt, "@idx")}
    # atom index position: the key of the atom map
    atoms_obj = None
    templates = _template_calls(ctx, wh)
    atom_t = bond_t = counts_t = None
    for fi, t, call in templates:
        toks = _instantiate(ctx, fi, t)
        if toks is None:
            continue
        txt = " ".join(toks)
        if "COUNTS" in txt:
            counts_t = (fi, t, toks)
        elif "attr:element_symbol" in txt:
            atom_t = (fi, t, toks)
        elif "attr:bond_type" in txt:
            bond_t = (fi, t, toks)
    if atom_t is None or bond_t is None or counts_t is None:
        raise AnalysisError("R-FIELDS: atom / bond / counts line templates not found in the writer")
    # ---- atom line
    fi, t, toks = atom_t
    pos = {name: None for name in ("index", "symbol", "x", "y", "z")}
    const_z = None
    for i, tok in enumerate(toks):
        p = i + prefix_tokens
        low = tok.lower()
        if "attr:element_symbol" in low:
            pos["symbol"] = p
        elif "attr:x_coord" in low:
            pos["x"] = p
        elif "attr:y_coord" in low:
            pos["y"] = p
        elif "attr:z_coord" in low:
            pos["z"] = p
        elif low.startswith("<const") and pos["x"] is not None and pos["y"] is not None and pos["z"] is None and p == pos["y"] + 1:
            const_z = (p, tok)
        elif "label+" in low and pos["index"] is None:
            pos["index"] = p
    checks = [("symbol", reader_pos["element_symbol"]), ("x", reader_pos["x"]), ("y", reader_pos["y"]), ("z", reader_pos["z"])]
    unnamed = [tok for tok in toks if tok.startswith("<") and "attr:" not in tok.lower() and "label+" not in tok.lower() and "const" not in tok.lower() and "count:" not in tok.lower()]
    if pos["z"] is None and const_z is not None:
        res.inst(fi.fq, f"atom line: z is token {const_z[0]}", "fail", detail="a constant")
        res.fail(Finding("R-FIELDS", fi.module.rel, fi.qualname, norm(t), f"atom line: the third coordinate (token {const_z[0]}) is written as a constant when the function is called without options: "
                         "the atom's z coordinate is not in the file, so reading it back gives another molecule drawing", line=t.lineno))
        pos["z"] = const_z[0]
    for name, want in checks:
        if pos[name] is None and unnamed:
            raise AnalysisError(f"R-FIELDS: atom line `{short(t, 70)}`: cannot tell which of the values {unnamed[:4]} is {name} (what they stand for is not followed back to an attribute)")
        ok = pos[name] is not None and {str(pos[name])} == want
        res.inst(fi.fq, f"atom line: {name} is token {pos[name]}; reader reads token {sorted(want)}", "ok" if ok else "fail")
        if not ok:
            res.fail(Finding("R-FIELDS", fi.module.rel, fi.qualname, norm(t), f"atom line: the writer puts {name} at token {pos[name]}, the reader reads it from token {sorted(want)}", line=t.lineno))
    # atom index: reader `int(line[2]) - 1`
    ok = pos["index"] == 2 and "label+1" in toks[0] and "label+0" not in toks[0] and "label+2" not in toks[0]
    res.inst(fi.fq, f"atom line: 1-based index is token {pos['index']}", "ok" if ok else "fail")
    if not ok:
        res.fail(Finding("R-FIELDS", fi.module.rel, fi.qualname, norm(t), "atom line: the atom number is not the first field after the prefix, written as label + 1", line=t.lineno))
    # coordinates .6f
    for i, tok in enumerate(toks):
        if i + prefix_tokens in (pos["x"], pos["y"], pos["z"]):
            ok = tok.endswith("|.6f>")
            res.inst(fi.fq, f"coordinate token {tok}", "ok" if ok else "fail")
            if not ok:
                res.fail(Finding("R-FIELDS", fi.module.rel, fi.qualname, norm(t), f"coordinate {tok} is not written with six decimals", line=t.lineno))
    # optional tokens: each is ' KW=<value>' guarded by the format's range, and the reader recognises KW for the same key
    _check_optional_tokens(ctx, fi, res)
    # ---- bond line
    fi, t, toks = bond_t
    bt = next((i + prefix_tokens for i, tok in enumerate(toks) if "attr:bond_type" in tok.lower()), None)
    ends = [i + prefix_tokens for i, tok in enumerate(toks) if "label+1" in tok and "label+0" not in tok]
    ok = bt is not None and {str(bt)} == bond_type_pos
    res.inst(fi.fq, f"bond line: type is token {bt}; reader reads {sorted(bond_type_pos)}", "ok" if ok else "fail")
    if not ok:
        res.fail(Finding("R-FIELDS", fi.module.rel, fi.qualname, norm(t), f"bond line: bond type at token {bt}, reader reads token {sorted(bond_type_pos)}", line=t.lineno))
    # the bond's own number: the first field, counting from 1
    first = toks[0] if toks else ""
    if first.startswith("<") and "pos+" in first:
        ok = "pos+1" in first and not any(f"pos+{k_}" in first for k_ in ("0", "2", "?", "-"))
        res.inst(fi.fq, f"bond line: the bond number {first} counts from 1", "ok" if ok else "fail")
        if not ok:
            res.fail(Finding("R-FIELDS", fi.module.rel, fi.qualname, norm(t), f"bond line: the bonds are numbered {first}, the format numbers them from 1", line=t.lineno))
    ok = {str(e) for e in ends} == bond_end_pos and len(ends) == 2
    extras = bond_end_pos - {str(e) for e in ends}
    if not ok and len(ends) == 2 and {str(e) for e in ends} <= bond_end_pos:
        # the reader's endpoints carry more than the two bond-line tokens: what it looks the atoms up by.  The atom number
        # of the atom line is what a bond end names, so a table from atom numbers to positions adds just that token
        if extras <= {str(pos["index"])}:
            ok = True
        else:
            raise AnalysisError(f"R-FIELDS: the reader's bond endpoints come from the bond-line tokens {sorted(bond_end_pos)}: the writer's {ends} and others that the analysis does not keep apart")
    res.inst(fi.fq, f"bond line: endpoints (label + 1) are tokens {ends}; reader reads {sorted(bond_end_pos)}", "ok" if ok else "fail")
    if not ok:
        res.fail(Finding("R-FIELDS", fi.module.rel, fi.qualname, norm(t), f"bond line: endpoints at tokens {ends} (as label + 1), reader reads tokens {sorted(bond_end_pos)} and subtracts 1", line=t.lineno))
    # ---- counts line and line sequence
    fi, t, toks = counts_t
    ok = toks[0] == "COUNTS" and len(toks) + prefix_tokens >= 5 and "count:nodes" in toks[1] and "count:edges" in toks[2]
    res.inst(fi.fq, f"counts line tokens {toks}", "ok" if ok else "fail")
    if not ok:
        res.fail(Finding("R-FIELDS", fi.module.rel, fi.qualname, norm(t), "counts line is not `COUNTS <atoms> <bonds> …` with at least five tokens", line=t.lineno))
    _check_line_sequence(ctx, wh, res)
    return res


def _check_optional_tokens(ctx, fi: FuncInfo, res: RuleResult):
    """`name = f" KW={v}" if (v := attrs.get(KEY)) and <range> else ""`"""
    v3 = reader_entries(ctx)["V3000"]
    from .readers import token_recognizers
    recs = token_recognizers(ctx, [ctx.cg.funcs[q] for q in ctx.cg.closure([v3.fq])])
    want = {"chg": ("CHG", [-15, -1, 1, 15], [0, 16, -16]), "rad": ("RAD", [1, 2, 3], [0, 4, -1]), "mass": ("MASS", [1, 13, 300], [0, -1])}
    found = set()
    # the optional pieces may be put together in the atom-line function itself or in a helper it calls for the text
    from ..model import annotation_name
    where = [fi] + [ctx.cg.funcs[q] for q in ctx.cg.closure([fi.fq]) if ctx.cg.funcs[q].module.name == fi.module.name and q != fi.fq
                    and (annotation_name(ctx.cg.funcs[q].node.returns) or "") == "str"]
    outer_fi = fi
    cands = []
    for f_ in where:
        for n_ in own_walk(f_.node):
            if isinstance(n_, ast.Assign) and isinstance(n_.value, ast.IfExp) and flatten_template(ctx, f_, n_.value.body) is not None:
                cands.append((f_, n_, n_.value.body, n_.value.test, n_.value.orelse))
            elif isinstance(n_, ast.If) and not n_.orelse and len(n_.body) == 1 and isinstance(n_.body[0], ast.AugAssign) and isinstance(n_.body[0].op, ast.Add) \
                    and isinstance(n_.body[0].target, ast.Name) and flatten_template(ctx, f_, n_.body[0].value) is not None:
                # statement form:  v = attrs.get(KEY) ; if <guard on v>: text += f" KW={v}"   (nothing is added otherwise)
                cands.append((f_, n_, n_.body[0].value, n_.test, ast.Constant("")))
    for fi, n, body, test, orelse in cands:
        lead, _ = _fstring_parts(body, ctx, fi)
        if not (lead.startswith(" ") and lead.endswith("=")):
            continue
        kw = lead.strip()[:-1]
        key = None
        var = None
        for x in ast.walk(test):
            if isinstance(x, ast.NamedExpr) and isinstance(x.value, ast.Call) and isinstance(x.value.func, ast.Attribute) and x.value.func.attr == "get" and x.value.args:
                key = try_const(ctx, fi, x.value.args[0])
                var = x.target.id
        if var is None:
            # the value fetched by a statement of its own: the one name the guard reads, defined once as <record>.get(KEY)
            from .common import single_def as _sd
            for nm_ in sorted({x.id for x in ast.walk(test) if isinstance(x, ast.Name)}):
                d_ = _sd(fi.node, nm_)
                if isinstance(d_, ast.Call) and isinstance(d_.func, ast.Attribute) and d_.func.attr == "get" and d_.args and try_const(ctx, fi, d_.args[0]) in want:
                    key, var = try_const(ctx, fi, d_.args[0]), nm_
        if key not in want or var is None:
            res.inst(fi.fq, short(n), "fail")
            res.fail(Finding("R-FIELDS", fi.module.rel, fi.qualname, norm(n), f"optional token `{lead}…` is not tied to one of chg / rad / mass", line=n.lineno))
            continue
        found.add(key)
        wkw, inside, outside = want[key]
        okkw = kw == wkw and try_const(ctx, fi, orelse) == ""
        # range guard by partial evaluation of the test with the walrus value stubbed
        stubs = {norm(x): None for x in ast.walk(test) if isinstance(x, ast.NamedExpr)}

        def holds(v):
            t2 = ast.parse(norm(test), mode="eval").body
            env = {}
            class Sub(ast.NodeTransformer):
                def visit_NamedExpr(self, node):
                    return ast.copy_location(ast.Constant(v), node)
            t3 = ast.fix_missing_locations(Sub().visit(t2))
            return bool(ceval(t3, {var: v}))
        try:
            okrange = all(holds(v) for v in inside) and not any(holds(v) for v in outside) and not holds(None)
        except Unsupported as e:
            raise AnalysisError(f"R-FIELDS: guard `{short(test)}`: {e}")
        # the reader recognises this token for the same key (one recognizer accepts it)
        tok = f"{wkw}={inside[0]}"
        acc = []
        for r in recs:
            try:
                if r.accepts(tok) and not r.accepts("C") and not r.accepts("0.000000"):
                    acc.append(r)      # an attribute recognizer (not a generic token filter)
            except (NameError, UnboundLocalError):
                raise
            except Exception:
                pass
        attr_recs = [r for r in recs if not _safe(r.accepts, "C") and not _safe(r.accepts, "0.000000") and any(_safe(r.accepts, t_) for t_ in ("CHG=1", "MASS=1", "RAD=1"))]
        if not acc and not attr_recs:
            raise AnalysisError("R-FIELDS: the V3000 atom decoder recognises its optional tokens in a form this analysis does not read (no attribute recognizer found)")
        okread = len(acc) == 1
        ok = okkw and okrange and okread
        res.inst(fi.fq, short(n, 100), "ok" if ok else "fail", detail=f"keyword {kw}, range guard holds on {inside} and fails on {outside}, reader recognizers accepting `{tok}`: {len(acc)}")
        if not okkw:
            res.fail(Finding("R-FIELDS", fi.module.rel, fi.qualname, norm(n), f"attribute `{key}` is written with keyword `{kw}` (format: {wkw}) or has a non-empty fallback", line=n.lineno))
        if not okrange:
            res.fail(Finding("R-FIELDS", fi.module.rel, fi.qualname, norm(test), f"range guard of `{key}` does not match the format's range (must hold for {inside}, fail for {outside} and for a missing value)", line=n.lineno))
        if not okread:
            res.fail(Finding("R-FIELDS", fi.module.rel, fi.qualname, norm(n), f"token `{tok}` is accepted by {len(acc)} recognizers of the reader", line=n.lineno))
    missing = set(want) - found
    if missing:
        raise AnalysisError(f"R-FIELDS: optional tokens for {sorted(missing)} not found in the atom line writer")


def _safe(fn, *a):
    try:
        return fn(*a)
    except (NameError, UnboundLocalError):
        raise
    except Exception:
        return False


def _check_line_sequence(ctx, wh: FuncInfo, res: RuleResult):
    """count the lines emitted before the COUNTS line and before the first atom line and compare with the reader's offsets"""
    w = entry(ctx, "write")
    out_list, _ = _writer_out_list(ctx, w)

    def emitted_before(fi: FuncInfo, stop_pred, depth=0):
        """(#lines emitted by straight-line code of fi before the statement satisfying stop_pred, found?)"""
        n = 0
        for st in fi.node.body:
            if stop_pred(st):
                return n, True
            if isinstance(st, ast.Expr) and isinstance(st.value, ast.Call):
                c = st.value
                if isinstance(c.func, ast.Attribute) and c.func.attr == "append":
                    n += 1
                    continue
                cs = ctx.cg.resolve_call(fi, c, ctx.cg.local_types(fi), set(params_of(fi.node)))
                if cs.kind == "tucan":
                    if cs.target.fq == wh.fq:
                        n += 1
                        continue
                    if depth < 3:
                        m, found = emitted_before(cs.target, stop_pred, depth + 1)
                        n += m
                        if found:
                            return n, True
                        continue
            if isinstance(st, (ast.For, ast.While, ast.If)):
                if any(stop_pred(x) for x in ast.walk(st) if isinstance(x, ast.stmt)):
                    return n, True
                emits = any(isinstance(x, ast.Call) and ((isinstance(x.func, ast.Attribute) and x.func.attr == "append") or
                                                         (ctx.cg.resolve_call(fi, x, ctx.cg.local_types(fi), set(params_of(fi.node))).kind == "tucan"))
                            for x in ast.walk(st))
                if emits:
                    return n, False      # data-dependent number of lines: stop counting here
                continue
        return n, False

    def is_counts(st):
        return isinstance(st, ast.Expr) and "COUNTS" in norm(st)

    def is_atom_loop(st):
        return isinstance(st, ast.For) and "nodes" in norm(st.iter)
    n_counts, f1 = emitted_before(w, is_counts)
    n_atoms, f2 = emitted_before(w, is_atom_loop)
    v3 = reader_entries(ctx)["V3000"]
    # reader offsets: lines[5] is the counts line, atom block starts at 7
    r_counts = r_atoms = None
    for q in ctx.cg.closure([v3.fq]):
        f = ctx.cg.funcs[q]
        for x in own_walk(f.node):
            if isinstance(x, ast.Compare) and try_const(ctx, f, x.comparators[0]) == "COUNTS" and isinstance(x.left, ast.Subscript):
                row = x.left.value
                if isinstance(row, ast.Name):           # counts_line = lines[5]; counts_line[2] != "COUNTS"
                    row = single_def(f.node, row.id)
                if isinstance(row, ast.Subscript):
                    r_counts = try_const(ctx, f, row.slice)
            if isinstance(x, ast.Assign) and isinstance(x.targets[0], ast.Name) and x.targets[0].id == "atom_block_offset":
                r_atoms = try_const(ctx, f, x.value)
    # the atom block decoder slices the line list from a constant offset:  lines[off : off + atom_count]
    from .readers import block_decoder
    dec = block_decoder(ctx, "V3000", 0)
    if dec is not None:
        cands = []
        for f in [dec] + [ctx.cg.funcs[q] for q in ctx.cg.closure([dec.fq])]:
            for x in own_walk(f.node):
                if isinstance(x, ast.Subscript) and isinstance(x.slice, ast.Slice) and x.slice.lower is not None and x.slice.upper is not None:
                    lo_e = x.slice.lower
                    if isinstance(lo_e, ast.Name):
                        lo_e = single_def(f.node, lo_e.id) or lo_e
                    lo = try_const(ctx, f, lo_e)
                    if isinstance(lo, int) and lo >= 4 and norm(x.slice.lower) in norm(x.slice.upper) and try_const(ctx, f, x.slice.upper) is None:
                        cands.append(lo)
        if len(set(cands)) == 1:
            r_atoms = cands[0]
    if r_atoms is None:
        # the atom block written as a slice with a literal start:  lines[7 : 7 + atom_count]
        for q in ctx.cg.closure([v3.fq]):
            f = ctx.cg.funcs[q]
            if "atom" not in f.name:
                continue
            for x in own_walk(f.node):
                if isinstance(x, ast.Subscript) and isinstance(x.slice, ast.Slice) and x.slice.lower is not None and x.slice.upper is not None:
                    lo = try_const(ctx, f, x.slice.lower)
                    if isinstance(lo, int) and lo >= 4 and try_const(ctx, f, x.slice.upper) is None:
                        r_atoms = lo
    if r_counts is None:
        # the counts row reached through a property / helper:  row = self.lines[K] ... row[2] != "COUNTS"
        for q in ctx.cg.closure([v3.fq]):
            f = ctx.cg.funcs[q]
            for x in own_walk(f.node):
                if isinstance(x, ast.Compare) and try_const(ctx, f, x.comparators[0]) == "COUNTS" and isinstance(x.left, ast.Subscript):
                    row = x.left.value
                    for _ in range(3):
                        if isinstance(row, ast.Name):
                            row = single_def(f.node, row.id) or row
                        if isinstance(row, ast.Attribute) and isinstance(row.value, ast.Name) and row.value.id == "self" and f.cls is not None:
                            m_ = ctx.repo.mro_method(f.cls, row.attr)
                            rets_ = [r for r in own_walk(m_.node) if isinstance(r, ast.Return)] if m_ is not None else []
                            if len(rets_) == 1 and rets_[0].value is not None:
                                row, f = rets_[0].value, m_
                    if isinstance(row, ast.Subscript):
                        r_counts = try_const(ctx, f, row.slice)
    if r_counts is None:
        # the counts row fetched by a helper that takes the line number:  row = _line(lines, 5) ... row[:3] != ["M", "V30", "COUNTS"]
        for q in ctx.cg.closure([v3.fq]):
            f = ctx.cg.funcs[q]
            for x in own_walk(f.node):
                if not (isinstance(x, ast.Compare) and len(x.comparators) == 1):
                    continue
                cv = try_const(ctx, f, x.comparators[0])
                if not (cv == "COUNTS" or (isinstance(cv, (list, tuple)) and "COUNTS" in cv)) or not isinstance(x.left, ast.Subscript):
                    continue
                row = x.left.value
                if isinstance(row, ast.Name):
                    row = single_def(f.node, row.id) or row
                if isinstance(row, ast.Subscript) and isinstance(try_const(ctx, f, row.slice), int):
                    r_counts = try_const(ctx, f, row.slice)
                elif isinstance(row, ast.Call):
                    cs = ctx.cg.resolve_call(f, row, ctx.cg.local_types(f), set(params_of(f.node)))
                    ints = [(i_, try_const(ctx, f, a_)) for i_, a_ in enumerate(row.args) if isinstance(try_const(ctx, f, a_), int)]
                    if cs.kind == "tucan" and len(ints) == 1:
                        hp = params_of(cs.target.node)
                        i_, k_ = ints[0]
                        # the helper indexes one of its parameters with that one
                        if i_ < len(hp) and any(isinstance(y, ast.Subscript) and isinstance(y.value, ast.Name) and y.value.id in hp and norm(y.slice) == hp[i_] for y in own_walk(cs.target.node)):
                            r_counts = k_
    if r_atoms is None:
        for q in ctx.cg.closure([v3.fq]):
            f = ctx.cg.funcs[q]
            cands = []
            if f.cls is not None:
                for st in f.cls.node.body:
                    tg = st.targets[0] if isinstance(st, ast.Assign) and len(st.targets) == 1 else (st.target if isinstance(st, ast.AnnAssign) else None)
                    if isinstance(tg, ast.Name) and "atom" in tg.id.lower() and "offset" in tg.id.lower() and getattr(st, "value", None) is not None:
                        cands.append(try_const(ctx, f, st.value))
            for c in cands:
                if isinstance(c, int):
                    r_atoms = c
    if r_counts is None or r_atoms is None:
        raise AnalysisError(f"R-FIELDS: cannot find at which line the V3000 reader expects the counts line ({r_counts}) / the atom block ({r_atoms})")
    ok = f1 and r_counts is not None and n_counts == r_counts
    res.inst(w.fq, f"COUNTS is written as line {n_counts} (0-based); reader expects it at {r_counts}", "ok" if ok else "fail")
    if not ok:
        res.fail(Finding("R-FIELDS", w.module.rel, w.qualname, "line sequence before COUNTS", f"the writer emits {n_counts} lines before the counts line, the reader looks for it at logical line {r_counts}", line=w.node.lineno))
    ok = f2 and r_atoms is not None and n_atoms == r_atoms
    res.inst(w.fq, f"first atom line is line {n_atoms}; reader's atom block offset {r_atoms}", "ok" if ok else "fail")
    if not ok:
        res.fail(Finding("R-FIELDS", w.module.rel, w.qualname, "line sequence before the atom block", f"the writer emits {n_atoms} lines before the first atom line, the reader starts the atom block at {r_atoms}", line=w.node.lineno))
    # version token on line 4 (index 3): dispatcher reads lines[3] last token
    disp = entry(ctx, "read_text")
    hdr = None
    for fi in closure(ctx, "write"):
        for n in own_walk(fi.node):
            if isinstance(n, ast.Call) and isinstance(n.func, ast.Attribute) and n.func.attr == "append" and n.args:
                txt_ = try_const(ctx, fi, n.args[0])          # a literal or a named constant
                if isinstance(txt_, str) and txt_.rstrip().endswith("V3000"):
                    hdr = (fi, n, txt_)
    ok = hdr is not None
    if ok:
        fi, n, txt_ = hdr
        idx = sum(1 for st in fi.node.body if isinstance(st, ast.Expr) and isinstance(st.value, ast.Call) and isinstance(st.value.func, ast.Attribute)
                  and st.value.func.attr == "append" and st.value.lineno < n.lineno)
        ok = idx == 3 and txt_.rstrip().split(" ")[-1] == "V3000"
    res.inst(w.fq, "version line `… V3000` is the 4th header line", "ok" if ok else "fail")
    if not ok:
        res.fail(Finding("R-FIELDS", w.module.rel, w.qualname, "version line", "the `V3000` version line is not the 4th line of the header", line=w.node.lineno))
    # omitted bond block <-> reader's bond_count == 0 shortcut
    bondf = None
    for fi in closure(ctx, "write"):
        from .common import mentions_text
        if mentions_text(ctx, fi, fi.node, "BEGIN BOND"):
            bondf = fi
    if bondf is None:
        raise AnalysisError("R-FIELDS: writer has no bond block")
    guard = next((st for st in bondf.node.body if isinstance(st, ast.If) and any(isinstance(x, ast.Return) for x in st.body)), None)
    reader_shortcut = any(isinstance(x, ast.If) and isinstance(x.test, ast.Compare) and "bond_count" in norm(x.test) and isinstance(x.test.comparators[0], ast.Constant) and x.test.comparators[0].value == 0
                          for q in ctx.cg.closure([v3.fq]) for x in own_walk(ctx.cg.funcs[q].node))
    if guard is not None:
        ok = "number_of_edges() == 0" in norm(guard.test) and reader_shortcut
        res.inst(bondf.fq, f"bond block omitted iff no bonds (`{short(guard.test)}`), reader skips it when the count is 0", "ok" if ok else "fail")
        if not ok:
            res.fail(Finding("R-FIELDS", bondf.module.rel, bondf.qualname, norm(guard.test), "the bond block is omitted under a condition the reader does not mirror (bond count 0)", line=guard.lineno))
    else:
        res.inst(bondf.fq, "bond block always written", "ok")


# --------------------------------------------------------------------------- R-NUMTEXT


def _numeric_spec(ctx, fi, e, depth=0) -> Optional[list]:
    """format specs under which expression e turns a number into text ([] = str() / plain {} of a number); None if e is not
    recognisably the text of a number"""
    if depth > 5 or e is None:
        return None
    if isinstance(e, ast.JoinedStr):
        fv = [p for p in e.values if isinstance(p, ast.FormattedValue)]
        lits = [p for p in e.values if isinstance(p, ast.Constant) and p.value]
        if len(fv) == 1 and not lits and fv[0].format_spec is not None:
            spec = try_const(ctx, fi, fv[0].format_spec)
            if isinstance(spec, str) and spec[-1:] in "fFeEgGdn%":
                return [spec]
        return None
    if isinstance(e, ast.Call):
        if isinstance(e.func, ast.Name) and e.func.id == "format" and len(e.args) == 2:
            spec = try_const(ctx, fi, e.args[1])
            return [spec] if isinstance(spec, str) and spec[-1:] in "fFeEgGdn%" else None
        if isinstance(e.func, ast.Attribute) and e.func.attr == "format" and len(e.args) == 1 and not e.keywords:
            tpl = try_const(ctx, fi, e.func.value)
            if isinstance(tpl, str) and tpl.startswith("{") and tpl.endswith("}") and tpl.count("{") == 1 and ":" in tpl:
                spec = tpl[1:-1].split(":", 1)[1]
                return [spec] if spec[-1:] in "fFeEgGdn%" else None
        if isinstance(e.func, ast.Name) and e.func.id in ("str", "repr") and len(e.args) == 1:
            a = e.args[0]
            if isinstance(a, ast.Call) and isinstance(a.func, ast.Name) and a.func.id in ("float", "int", "round", "abs"):
                return [""]
        if isinstance(e.func, ast.Attribute) and e.func.attr in ("strip", "rstrip", "lstrip", "lower", "upper"):
            return _numeric_spec(ctx, fi, e.func.value, depth + 1)
        return None
    if isinstance(e, ast.BinOp) and isinstance(e.op, ast.Mod):
        tpl = try_const(ctx, fi, e.left)
        if isinstance(tpl, str) and tpl.startswith("%") and tpl.count("%") == 1 and tpl[-1:] in "fFeEgGdi":
            return [tpl[1:]]
        return None
    if isinstance(e, ast.IfExp):
        a, b = _numeric_spec(ctx, fi, e.body, depth + 1), _numeric_spec(ctx, fi, e.orelse, depth + 1)
        return (a or []) + (b or []) if (a is not None or b is not None) else None
    if isinstance(e, ast.Name):
        defs = assigned_names(fi.node).get(e.id, [])
        out = None
        for d in defs:
            v = getattr(d, "value", None) if isinstance(d, (ast.Assign, ast.AnnAssign, ast.NamedExpr)) else None
            if v is None or (isinstance(d, ast.Assign) and not isinstance(d.targets[0], ast.Name)):
                continue
            if any(isinstance(x, ast.Name) and x.id == e.id for x in ast.walk(v)):
                continue          # x = x.rstrip(..): the trimmed text itself, judged at its own site
            s = _numeric_spec(ctx, fi, v, depth + 1)
            if s is not None:
                out = (out or []) + s
        return out
    return None


@rule("R-NUMTEXT")
def r_numtext(ctx) -> RuleResult:
    res = RuleResult("R-NUMTEXT", "in the molfile writer the text of a formatted number is written as formatted: nothing trims characters that can be digits of the value, and nothing cuts it to a fixed width")
    n_sites = n_numeric = 0
    for fi in closure(ctx, "write"):
        if fi.module.name != entry(ctx, "write").module.name:
            continue
        for n in own_walk(fi.node):
            if isinstance(n, ast.Call) and isinstance(n.func, ast.Attribute) and n.func.attr in ("strip", "rstrip", "lstrip") and len(n.args) == 1:
                n_sites += 1
                specs = _numeric_spec(ctx, fi, n.func.value)
                if specs is None:
                    res.inst(fi.fq, f"`{short(n, 50)}`: not the text of a number", "ok")
                    continue
                n_numeric += 1
                chars = try_const(ctx, fi, n.args[0])
                if not isinstance(chars, str):
                    raise AnalysisError(f"R-NUMTEXT: the characters trimmed by `{short(n)}` in {fi.qualname} are not constant")
                m = n.func.attr
                why = None
                fixed_point = all(isinstance(s, str) and s[-1:] in "fF" and "." in s and s.split(".")[-1][:-1].isdigit() and int(s.split(".")[-1][:-1]) > 0 for s in specs)
                if m in ("rstrip", "strip"):
                    if any(c in chars for c in "123456789"):
                        why = f"trailing characters in {chars!r} include non-zero digits"
                    elif "0" in chars and "." in chars:
                        why = f"{chars!r} is a character set: once the decimal point is gone the zeros of the integer part go too (1230.000000 becomes 123)"
                    elif "0" in chars and not fixed_point:
                        why = f"trailing zeros are removed from a number written without a fixed decimal point (format {specs}): 1230 becomes 123"
                if why is None and m in ("lstrip", "strip"):
                    if "-" in chars:
                        why = f"leading characters in {chars!r} include the sign"
                    elif any(c in chars for c in "123456789"):
                        why = f"leading characters in {chars!r} include non-zero digits"
                    elif "0" in chars and not fixed_point:
                        why = f"leading zeros are removed from a number written without decimals (format {specs}): 0 becomes empty"
                res.inst(fi.fq, f"`{short(n, 50)}` keeps the value of the number (format {specs})", "fail" if why else "ok")
                if why:
                    res.fail(Finding("R-NUMTEXT", fi.module.rel, fi.qualname, norm(n), f"the text of a formatted number is trimmed and its value changes: {why}; the file reads back with other coordinates / values", line=n.lineno))
            elif isinstance(n, ast.Subscript) and isinstance(n.slice, ast.Slice) and isinstance(n.ctx, ast.Load):
                specs = _numeric_spec(ctx, fi, n.value)
                if specs is None:
                    continue
                n_sites += 1
                n_numeric += 1
                lo = try_const(ctx, fi, n.slice.lower) if n.slice.lower is not None else None
                hi = try_const(ctx, fi, n.slice.upper) if n.slice.upper is not None else None
                bad = isinstance(lo, int) and lo != 0 or isinstance(hi, int)
                res.inst(fi.fq, f"`{short(n, 50)}` keeps the whole text of the number", "fail" if bad else "ok")
                if bad:
                    res.fail(Finding("R-NUMTEXT", fi.module.rel, fi.qualname, norm(n), "the text of a formatted number is cut at a fixed position: digits of large or long values are dropped", line=n.lineno))
    # fixture: the classification must see a planted trim of a formatted coordinate
    from ..model import Repo
    from types import SimpleNamespace
    fx = Repo(ctx.repo.root, {**ctx.repo.overlay, "tucan/_tsa_fixture_numtext.py": "def _fx(v):\n    s = f'{v:.6f}'\n    s = s.rstrip('0.')\n    return s\n"})
    ffx = fx.func("tucan._tsa_fixture_numtext._fx")
    call = next(x for x in ast.walk(ffx.node) if isinstance(x, ast.Call) and isinstance(x.func, ast.Attribute) and x.func.attr == "rstrip")
    if _numeric_spec(SimpleNamespace(repo=fx, cache={}, cg=None), ffx, call.func.value) != [".6f"]:
        raise AnalysisError("R-NUMTEXT self-test: the planted trim of a formatted number is not recognised")
    res.counts = {"trim_or_cut_sites": n_sites, "on_number_text": n_numeric, "fixture_detected": 1}
    res.notes.append("expected count on today's tree is zero: the writer formats numbers and writes them as they are")
    return res


# --------------------------------------------------------------------------- R-WRITESAMPLE


@rule("R-WRITESAMPLE")
def r_writesample(ctx) -> RuleResult:
    res = RuleResult("R-WRITESAMPLE", "what the writer makes of sample molecules is the V3000 connection table the format prescribes for them: counts, one atom line per atom in order with its element, coordinates and properties, one bond line per bond, no line over 80 characters, long lines continued")
    import copy
    from ..concrete import PathEval, PState, SampleClock, SampleGraph, SamplePackage, _Unknown
    from .common import sample_evaluator
    from .spec import V3000_CONTINUATION, V3000_LINE_PREFIX
    w = entry(ctx, "write")
    const = lambda n: ctx.repo.const("tucan.graph_attributes", n)  # noqa: E731
    SYM, Z, CHG_, MASS_, RAD_, X_, Y_, Z_C, BT, PART = (const(n) for n in ("ELEMENT_SYMBOL", "ATOMIC_NUMBER", "CHG", "MASS", "RAD", "X_COORD", "Y_COORD", "Z_COORD", "BOND_TYPE", "PARTITION"))

    def atom(sym, z, xyz=None, **props):
        d = {SYM: sym, Z: z, PART: 0}
        if xyz is not None:
            d.update({X_: xyz[0], Y_: xyz[1], Z_C: xyz[2]})
        for k, v in props.items():
            d[{"chg": CHG_, "mass": MASS_, "rad": RAD_}[k]] = v
        return d
    big = 123456789.123456
    samples = [
        ("three atoms with a charge, an isotope and a radical, two bonds of different type",
         {0: atom("C", 6, (1.5, -2.25, 0.125), chg=-1, mass=13), 1: atom("N", 7, (0.0, 0.0, 0.0), rad=2), 2: atom("Cl", 17, (3.0, 1.0, -1.0))},
         [(0, 1, {BT: 2}), (1, 2, {BT: 1})]),
        ("an atom line that does not fit into one line",
         {0: atom("Fe", 26, (big, -big, big), chg=15, mass=57, rad=3), 1: atom("C", 6, (-big, big, -big), chg=-15, mass=13, rad=1)},
         [(0, 1, {BT: 9})]),
        ("a single atom, no bond", {0: atom("He", 2, (0.0, 0.0, 0.0), mass=3)}, []),
        ("a molecule parsed from a TUCAN string: no coordinates, no bond types",
         {0: atom("H", 1, mass=1), 1: atom("H", 1, mass=2), 2: atom("O", 8, rad=2)}, [(0, 2, {}), (1, 2, {})]),
        ("atoms listed in an order that is not their label order", {2: atom("C", 6, (0.0, 0.0, 0.0)), 0: atom("O", 8, (1.0, 0.0, 0.0)), 1: atom("N", 7, (2.0, 0.0, 0.0))},
         [(2, 0, {BT: 2}), (0, 1, {BT: 1})]),
    ]
    ps = params_of(w.node)
    n_followed = 0

    def unwrap(lines):
        out, i = [], 0
        while i < len(lines):
            cur = lines[i]
            i += 1
            while i < len(lines) and cur.startswith(V3000_LINE_PREFIX) and cur.endswith(V3000_CONTINUATION):
                if not lines[i].startswith(V3000_LINE_PREFIX):
                    return None
                cur = cur[:-1] + lines[i][len(V3000_LINE_PREFIX):]
                i += 1
            out.append(cur)
        return out

    def judge(nodes, edges, text):
        """None if the text is the connection table of the sample, else what is wrong"""
        lines = text.split("\n")
        long_ = [l for l in lines if len(l) > 79]
        if long_:
            return f"the line `{long_[0][:40]}...` has {len(long_[0])} characters (80 with the line end is the limit)"
        if len(lines) < 5 or not lines[3].rstrip().endswith("V3000"):
            return "the fourth line is not the V3000 version line"
        logical = unwrap(lines[4:])
        if logical is None:
            return "a continued line is not followed by a `M  V30 ` line"
        if not logical or logical[-1].strip() != "M  END":
            return "the file does not end with `M  END`"
        toks = [l.split()[2:] for l in logical[:-1] if l.startswith(V3000_LINE_PREFIX.rstrip())]
        if len(toks) != len(logical) - 1:
            return "a line of the connection table does not begin with `M  V30 `"
        it = iter(toks)

        def expect(*words):
            t = next(it, None)
            return None if t is not None and t[:len(words)] == list(words) else f"expected `{' '.join(words)}`, found `{' '.join(t) if t is not None else 'nothing'}`"
        err = expect("BEGIN", "CTAB")
        if err:
            return err
        t = next(it, None)
        if t is None or t[:3] != ["COUNTS", str(len(nodes)), str(len(edges))]:
            return f"counts line `{' '.join(t or [])}` does not say {len(nodes)} atoms and {len(edges)} bonds"
        err = expect("BEGIN", "ATOM")
        if err:
            return err
        index_of = {}
        for k, (label, d) in enumerate(nodes.items(), start=1):
            t = next(it, None)
            if t is None or len(t) < 5:
                return f"atom line {k} is missing or short: `{' '.join(t or [])}`"
            if not t[0].isdigit() or int(t[0]) < 1 or int(t[0]) in index_of.values():
                return f"atom line {k} has the index `{t[0]}` (indices are positive and unique)"
            index_of[label] = int(t[0])
            if t[1] != d[SYM]:
                return f"atom line {k} is `{' '.join(t[:2])} ...`, the {k}. atom of the graph is {d[SYM]} (atoms are written in the order of the graph)"
            for j, key in enumerate((X_, Y_, Z_C)):
                try:
                    got = float(t[2 + j])
                except ValueError:
                    return f"atom line {k}: `{t[2 + j]}` is not a coordinate"
                if key in d and abs(got - d[key]) > 5e-7 * max(1.0, abs(d[key])) + 5e-7:
                    return f"atom line {k}: coordinate {'xyz'[j]} is written as {t[2 + j]}, the atom has {d[key]!r}"
            rest = [x for x in t[5:] if "=" in x]
            want = {f"{kw}={d[key]}" for kw, key in (("CHG", CHG_), ("MASS", MASS_), ("RAD", RAD_)) if d.get(key)}
            if set(rest) != want or len(rest) != len(set(rest)):
                return f"atom line {k} carries {sorted(rest)}, the atom has {sorted(want)}"
        err = expect("END", "ATOM")
        if err:
            return err
        t = next(it, None)
        if edges or (t is not None and t[:2] == ["BEGIN", "BOND"]):
            if t is None or t[:2] != ["BEGIN", "BOND"]:
                return f"expected `BEGIN BOND`, found `{' '.join(t or [])}`"
            seen = []
            for k in range(1, len(edges) + 1):
                t = next(it, None)
                if t is None or len(t) < 4 or not all(x.lstrip("-").isdigit() for x in t[:4]):
                    return f"bond line {k} is missing or not four numbers: `{' '.join(t or [])}`"
                if int(t[0]) != k:
                    return f"bond line {k} is numbered {t[0]}"
                seen.append((int(t[1]), frozenset((int(t[2]), int(t[3])))))
            want_b = [(d.get(BT), frozenset((index_of[a], index_of[b]))) for a, b, d in edges]
            for (gt, ge), (wt, we) in zip(sorted(seen, key=lambda x: sorted(x[1])), sorted(want_b, key=lambda x: sorted(x[1]))):
                if ge != we:
                    return f"a bond is written between the atom lines {sorted(ge)}, the graph has it between {sorted(we)}"
                if wt is not None and gt != wt:
                    return f"the bond between the atom lines {sorted(we)} is written with type {gt}, the graph has {wt}"
            err = expect("END", "BOND")
            if err:
                return err
            t = next(it, None)
        if t is None or t[:2] != ["END", "CTAB"]:
            return f"expected `END CTAB`, found `{' '.join(t or [])}`"
        return None
    for what, nodes, edges in samples:
        pe, env = sample_evaluator(ctx, w, {"datetime": SampleClock(), "tucan": SamplePackage()})
        env[ps[0]] = SampleGraph(nodes, edges)
        for p_ in ps[1:]:
            k = ps.index(p_) - (len(ps) - len(w.node.args.defaults))
            d_ = w.node.args.defaults[k] if k >= 0 else None
            env[p_] = d_.value if isinstance(d_, ast.Constant) else False
        try:
            falls, lefts = pe.block(w.node.body, [PState(env)])
        except (NameError, UnboundLocalError):
            raise
        except Exception:
            continue
        rets = [v_ for _s, how, v_ in lefts if how == "return"]
        raised = [1 for _s, how, _v in lefts if how == "raise"]
        if pe.gaps or falls or not (rets or raised):
            continue
        if raised and not rets:
            n_followed += 1
            res.inst(w.fq, f"sample molecule: {what}", "fail")
            res.fail(Finding("R-WRITESAMPLE", w.module.rel, w.qualname, f"{what}: raises", f"following {w.name} on a sample molecule ({what}) ends in a raise on every way through", line=w.node.lineno))
            break
        if not all(isinstance(v_, str) for v_ in rets):
            continue
        n_followed += 1
        verdicts = [judge(nodes, edges, v_) for v_ in rets]
        bad = all(v_ is not None for v_ in verdicts)
        res.inst(w.fq, f"sample molecule: {what}", "fail" if bad else "ok")
        if bad:
            res.fail(Finding("R-WRITESAMPLE", w.module.rel, w.qualname, f"{what}", f"following {w.name} on a sample molecule ({what}): {verdicts[0]}", line=w.node.lineno))
            break
    res.counts = {"sample_molecules_followed": n_followed}
    return res
