"""Statement-level control-flow graph with labelled branch edges, dominators
and post-dominators.  Covers the statement kinds of the Python subset tucan
uses (If / For / While / Break / Continue / Return / Raise / Assert / With /
Try / Match are all handled; for-else and while-else included)."""
from __future__ import annotations

import ast
from typing import Callable, Iterable, Optional

import networkx as nx


class CFG:
    ENTRY, EXIT, RAISE = 0, 1, 2

    def __init__(self, fn: ast.FunctionDef):
        self.fn = fn
        self.g = nx.DiGraph()
        self.ast: dict[int, ast.AST] = {}
        self.kind: dict[int, str] = {self.ENTRY: "entry", self.EXIT: "exit", self.RAISE: "raise"}
        self.of: dict[int, int] = {}          # id(ast node) -> cfg node
        self.g.add_nodes_from([self.ENTRY, self.EXIT, self.RAISE])
        self._n = 3
        self._loops: list[tuple[int, list]] = []   # (head, break_exits)
        outs = self._block(fn.body, [(self.ENTRY, None)])
        self._connect(outs, self.EXIT)
        self._idom = None
        self._ipdom = None

    # ---- construction
    def _new(self, node: ast.AST, kind: str) -> int:
        n = self._n
        self._n += 1
        self.g.add_node(n)
        self.ast[n] = node
        self.kind[n] = kind
        self.of[id(node)] = n
        return n

    def _connect(self, preds, n):
        for p, lab in preds:
            if self.g.has_edge(p, n):
                old = self.g[p][n].get("label")
                if old != lab:
                    self.g[p][n]["label"] = "both"
            else:
                self.g.add_edge(p, n, label=lab)

    def _block(self, body, preds):
        for st in body:
            preds = self._stmt(st, preds)
        return preds

    def _stmt(self, st, preds):
        if isinstance(st, ast.If):
            t = self._new(st, "test")
            self.of[id(st.test)] = t
            self._connect(preds, t)
            a = self._block(st.body, [(t, "true")])
            b = self._block(st.orelse, [(t, "false")])
            return a + b
        if isinstance(st, ast.While):
            t = self._new(st, "test")
            self.of[id(st.test)] = t
            self._connect(preds, t)
            brk: list = []
            self._loops.append((t, brk))
            body_out = self._block(st.body, [(t, "true")])
            self._loops.pop()
            self._connect(body_out, t)
            const_true = isinstance(st.test, ast.Constant) and bool(st.test.value)
            els = [] if const_true else self._block(st.orelse, [(t, "false")])
            return els + brk
        if isinstance(st, (ast.For, ast.AsyncFor)):
            t = self._new(st, "for")
            self.of[id(st.iter)] = t
            self._connect(preds, t)
            brk = []
            self._loops.append((t, brk))
            body_out = self._block(st.body, [(t, "iter")])
            self._loops.pop()
            self._connect(body_out, t)
            els = self._block(st.orelse, [(t, "done")])
            return els + brk
        if isinstance(st, ast.Break):
            n = self._new(st, "stmt")
            self._connect(preds, n)
            self._loops[-1][1].append((n, None))
            return []
        if isinstance(st, ast.Continue):
            n = self._new(st, "stmt")
            self._connect(preds, n)
            self._connect([(n, None)], self._loops[-1][0])
            return []
        if isinstance(st, ast.Return):
            n = self._new(st, "return")
            self._connect(preds, n)
            self._connect([(n, None)], self.EXIT)
            return []
        if isinstance(st, ast.Raise):
            n = self._new(st, "stmt")
            self._connect(preds, n)
            self._connect([(n, None)], self.RAISE)
            return []
        if isinstance(st, ast.Assert):
            n = self._new(st, "assert")
            self._connect(preds, n)
            self._connect([(n, "false")], self.RAISE)
            return [(n, "true")]
        if isinstance(st, (ast.With, ast.AsyncWith)):
            n = self._new(st, "stmt")
            self._connect(preds, n)
            return self._block(st.body, [(n, None)])
        if isinstance(st, ast.Try) or type(st).__name__ == "TryStar":
            n = self._new(st, "stmt")
            self._connect(preds, n)
            before = set(self.g.nodes)
            body_out = self._block(st.body, [(n, None)])
            inside = [x for x in self.g.nodes if x not in before]
            outs = self._block(st.orelse, body_out)
            for h in st.handlers:
                hn = self._new(h, "stmt")
                self._connect([(n, "exc")] + [(x, "exc") for x in inside], hn)
                outs = outs + self._block(h.body, [(hn, None)])
            if st.finalbody:
                outs = self._block(st.finalbody, outs)
            return outs
        if isinstance(st, ast.Match):
            n = self._new(st, "test")
            self._connect(preds, n)
            outs = [(n, "false")]
            for c in st.cases:
                outs += self._block(c.body, [(n, "true")])
            return outs
        n = self._new(st, "stmt")
        self._connect(preds, n)
        return [(n, None)]

    # ---- queries
    def node_of(self, node: ast.AST) -> Optional[int]:
        return self.of.get(id(node))

    def stmt_node_containing(self, node: ast.AST) -> Optional[int]:
        """cfg node whose statement (or test / iter expression) contains `node`"""
        tid = id(node)
        best = None
        for n, a in self.ast.items():
            roots = self._own_exprs(n)
            for r in roots:
                for sub in ast.walk(r):
                    if id(sub) == tid:
                        best = n
                        break
                if best is not None:
                    break
            if best is not None:
                break
        return best

    def _own_exprs(self, n) -> list[ast.AST]:
        a = self.ast[n]
        k = self.kind[n]
        if k == "test":
            return [a.test] if hasattr(a, "test") else [a.subject]
        if k == "for":
            return [a.iter, a.target]
        if isinstance(a, (ast.With, ast.AsyncWith)):
            return [i for it in a.items for i in ([it.context_expr] + ([it.optional_vars] if it.optional_vars else []))]
        if isinstance(a, ast.Try) or isinstance(a, ast.ExceptHandler):
            return []
        return [a]

    def idom(self):
        if self._idom is None:
            self._idom = nx.immediate_dominators(self.g, self.ENTRY)
        return self._idom

    def ipdom(self, sink: int | None = None):
        """post-dominators w.r.t. normal EXIT (raising paths are not returns)"""
        if self._ipdom is None:
            rg = self.g.reverse(copy=True)
            self._ipdom = nx.immediate_dominators(rg, self.EXIT)
        return self._ipdom

    @staticmethod
    def _dominates(idom, a, b):
        x = b
        while True:
            if x == a:
                return True
            nx_ = idom.get(x)
            if nx_ is None or nx_ == x:
                return False
            x = nx_

    def dominates(self, a: int, b: int) -> bool:
        return b in self.idom() and self._dominates(self.idom(), a, b)

    def postdominates(self, a: int, b: int) -> bool:
        """every path from b to a normal return passes through a"""
        ip = self.ipdom()
        if b not in ip:
            return True   # b cannot reach EXIT at all (only raises): vacuous
        return self._dominates(ip, a, b)

    def reachable(self, a: int, b: int, avoid: Iterable[int] = ()) -> bool:
        avoid = set(avoid)
        seen, work = {a}, [a]
        while work:
            x = work.pop()
            for y in self.g.successors(x):
                if y in avoid or y in seen:
                    continue
                if y == b:
                    return True
                seen.add(y)
                work.append(y)
        return False

    def path_avoiding(self, a: int, b: int, avoid: Iterable[int]) -> Optional[list[int]]:
        """a shortest path a..b that avoids the given nodes, or None"""
        avoid = set(avoid) - {a, b}
        prev = {a: None}
        work = [a]
        while work:
            nxt = []
            for x in work:
                for y in self.g.successors(x):
                    if y in avoid or y in prev:
                        continue
                    prev[y] = x
                    if y == b:
                        p = [y]
                        while prev[p[-1]] is not None:
                            p.append(prev[p[-1]])
                        return p[::-1]
                    nxt.append(y)
            work = nxt
        return None

    def describe(self, n: int) -> str:
        k = self.kind.get(n)
        if k in ("entry", "exit", "raise"):
            return k
        a = self.ast[n]
        from .model import short
        if k == "test":
            return f"L{a.lineno} test {short(a.test, 60)}" if hasattr(a, "test") else f"L{a.lineno} match"
        if k == "for":
            return f"L{a.lineno} for {short(a.target, 30)} in {short(a.iter, 50)}"
        return f"L{a.lineno} {short(a, 70)}"

    def nodes_where(self, pred: Callable[[ast.AST], bool]) -> list[int]:
        """cfg nodes whose own expressions contain an ast node satisfying pred"""
        out = []
        for n in self.ast:
            hit = False
            for r in self._own_exprs(n):
                for sub in ast.walk(r):
                    if isinstance(sub, (ast.FunctionDef, ast.Lambda)) and sub is not r:
                        continue
                    if pred(sub):
                        hit = True
                        break
                if hit:
                    break
            if hit:
                out.append(n)
        return out


_cache: dict[int, CFG] = {}


def cfg_of(fn: ast.FunctionDef) -> CFG:
    c = _cache.get(id(fn))
    if c is None or c.fn is not fn:
        c = CFG(fn)
        _cache[id(fn)] = c
    return c
